"""Differential check for C12 refactoring 3.

Run: cd /tmp/wt3-C12 && PYTHONPATH=/tmp/wt3-C12/src /venv/bin/python /tmp/twin-C12/3/diff_check.py
(with patch.diff applied to the worktree).  ORIGINALS holds the unmodified
implementations, copied verbatim from git HEAD.
"""
ORIGINALS = {
    ('map', 'MapAdapter', 'match'): r'''
    def match(
        self,
        path_info: str | None = None,
        method: str | None = None,
        return_rule: bool = False,
        query_args: t.Mapping[str, t.Any] | str | None = None,
        websocket: bool | None = None,
    ) -> tuple[t.Any | Rule, t.Mapping[str, t.Any]]:
        """The usage is simple: you just pass the match method the current
        path info as well as the method (which defaults to `GET`).  The
        following things can then happen:

        - you receive a `NotFound` exception that indicates that no URL is
          matching.  A `NotFound` exception is also a WSGI application you
          can call to get a default page not found page (happens to be the
          same object as `werkzeug.exceptions.NotFound`)

        - you receive a `MethodNotAllowed` exception that indicates that there
          is a match for this URL but not for the current request method.
          This is useful for RESTful applications.

        - you receive a `RequestRedirect` exception with a `new_url`
          attribute.  This exception is used to notify you about a request
          Werkzeug requests from your WSGI application.  This is for example the
          case if you request ``/foo`` although the correct URL is ``/foo/``
          You can use the `RequestRedirect` instance as response-like object
          similar to all other subclasses of `HTTPException`.

        - you receive a ``WebsocketMismatch`` exception if the only
          match is a WebSocket rule but the bind is an HTTP request, or
          if the match is an HTTP rule but the bind is a WebSocket
          request.

        - you get a tuple in the form ``(endpoint, arguments)`` if there is
          a match (unless `return_rule` is True, in which case you get a tuple
          in the form ``(rule, arguments)``)

        If the path info is not passed to the match method the default path
        info of the map is used (defaults to the root URL if not defined
        explicitly).

        All of the exceptions raised are subclasses of `HTTPException` so they
        can be used as WSGI responses. They will all render generic error or
        redirect pages.

        Here is a small example for matching:

        >>> m = Map([
        ...     Rule('/', endpoint='index'),
        ...     Rule('/downloads/', endpoint='downloads/index'),
        ...     Rule('/downloads/<int:id>', endpoint='downloads/show')
        ... ])
        >>> urls = m.bind("example.com", "/")
        >>> urls.match("/", "GET")
        ('index', {})
        >>> urls.match("/downloads/42")
        ('downloads/show', {'id': 42})

        And here is what happens on redirect and missing URLs:

        >>> urls.match("/downloads")
        Traceback (most recent call last):
          ...
        RequestRedirect: http://example.com/downloads/
        >>> urls.match("/missing")
        Traceback (most recent call last):
          ...
        NotFound: 404 Not Found

        :param path_info: the path info to use for matching.  Overrides the
                          path info specified on binding.
        :param method: the HTTP method used for matching.  Overrides the
                       method specified on binding.
        :param return_rule: return the rule that matched instead of just the
                            endpoint (defaults to `False`).
        :param query_args: optional query arguments that are used for
                           automatic redirects as string or dictionary.  It's
                           currently not possible to use the query arguments
                           for URL matching.
        :param websocket: Match WebSocket instead of HTTP requests. A
            websocket request has a ``ws`` or ``wss``
            :attr:`url_scheme`. This overrides that detection.

        .. versionadded:: 1.0
            Added ``websocket``.

        .. versionchanged:: 0.8
            ``query_args`` can be a string.

        .. versionadded:: 0.7
            Added ``query_args``.

        .. versionadded:: 0.6
            Added ``return_rule``.
        """
        self.map.update()
        if path_info is None:
            path_info = self.path_info
        if query_args is None:
            query_args = self.query_args or {}
        method = (method or self.default_method).upper()

        if websocket is None:
            websocket = self.websocket

        domain_part = self.server_name

        if not self.map.host_matching and self.subdomain is not None:
            domain_part = self.subdomain

        path_part = f"/{path_info.lstrip('/')}" if path_info else ""

        try:
            result = self.map._matcher.match(domain_part, path_part, method, websocket)
        except RequestPath as e:
            # safe = https://url.spec.whatwg.org/#url-path-segment-string
            new_path = quote(e.path_info, safe="!$&'()*+,/:;=@")
            raise RequestRedirect(
                self.make_redirect_url(new_path, query_args)
            ) from None
        except RequestAliasRedirect as e:
            raise RequestRedirect(
                self.make_alias_redirect_url(
                    f"{domain_part}|{path_part}",
                    e.endpoint,
                    e.matched_values,
                    method,
                    query_args,
                )
            ) from None
        except NoMatch as e:
            if e.have_match_for:
                raise MethodNotAllowed(valid_methods=list(e.have_match_for)) from None

            if e.websocket_mismatch:
                raise WebsocketMismatch() from None

            raise NotFound() from None
        else:
            rule, rv = result

            if self.map.redirect_defaults:
                redirect_url = self.get_default_redirect(rule, method, rv, query_args)
                if redirect_url is not None:
                    raise RequestRedirect(redirect_url)

            if rule.redirect_to is not None:
                if isinstance(rule.redirect_to, str):

                    def _handle_match(match: t.Match[str]) -> str:
                        value = rv[match.group(1)]
                        return rule._converters[match.group(1)].to_url(value)

                    redirect_url = _simple_rule_re.sub(_handle_match, rule.redirect_to)
                else:
                    redirect_url = rule.redirect_to(self, **rv)

                if self.subdomain:
                    netloc = f"{self.subdomain}.{self.server_name}"
                else:
                    netloc = self.server_name

                raise RequestRedirect(
                    urljoin(
                        f"{self.url_scheme or 'http'}://{netloc}{self.script_name}",
                        redirect_url,
                    )
                )

            if return_rule:
                return rule, rv
            else:
                return rule.endpoint, rv
''',
    ('map', 'MapAdapter', 'get_default_redirect'): r'''
    def get_default_redirect(
        self,
        rule: Rule,
        method: str,
        values: t.MutableMapping[str, t.Any],
        query_args: t.Mapping[str, t.Any] | str,
    ) -> str | None:
        """A helper that returns the URL to redirect to if it finds one.
        This is used for default redirecting only.

        :internal:
        """
        assert self.map.redirect_defaults
        for r in self.map._rules_by_endpoint[rule.endpoint]:
            # every rule that comes after this one, including ourself
            # has a lower priority for the defaults.  We order the ones
            # with the highest priority up for building.
            if r is rule:
                break
            if r.provides_defaults_for(rule) and r.suitable_for(values, method):
                values.update(r.defaults)  # type: ignore
                domain_part, path = r.build(values)  # type: ignore
                return self.make_redirect_url(path, query_args, domain_part=domain_part)
        return None
''',
    ('rules', 'Rule', 'provides_defaults_for'): r'''
    def provides_defaults_for(self, rule: Rule) -> bool:
        """Check if this rule has defaults for a given rule.

        :internal:
        """
        return bool(
            not self.build_only
            and self.defaults
            and self.endpoint == rule.endpoint
            and self != rule
            and self.arguments == rule.arguments
        )
''',
}

# ---------------------------------------------------------------------------
# Shared harness (self-contained copy in every diff_check.py).
# Strategy: generate pure-data specs of maps / binds / paths with a fixed
# seed, run the whole battery once with the code in the worktree (refactored),
# then monkeypatch the ORIGINAL implementations (source text pasted above,
# exec'd in a copy of the owning module's namespace) over the refactored ones
# and run the identical battery again.  PASS only if every recorded outcome
# (return value repr, redirect URL, exception type + message) is identical.
# ---------------------------------------------------------------------------
import random
import re
import sys
import textwrap

import werkzeug.routing.map as map_mod
import werkzeug.routing.matcher as matcher_mod
import werkzeug.routing.rules as rules_mod
from werkzeug.exceptions import MethodNotAllowed
from werkzeug.routing import Map
from werkzeug.routing import Rule
from werkzeug.routing.exceptions import NoMatch
from werkzeug.routing.exceptions import RequestAliasRedirect
from werkzeug.routing.exceptions import RequestPath
from werkzeug.routing.exceptions import RequestRedirect

assert map_mod.__file__.startswith("/tmp/wt3-C12/"), map_mod.__file__

OWNERS = {
    ("map", "MapAdapter"): (map_mod, map_mod.MapAdapter),
    ("matcher", "StateMachineMatcher"): (matcher_mod, matcher_mod.StateMachineMatcher),
    ("rules", "Rule"): (rules_mod, rules_mod.Rule),
}


def load_originals():
    out = []
    for (modname, clsname, fname), src in ORIGINALS.items():
        mod, cls = OWNERS[(modname, clsname)]
        ns = dict(vars(mod))
        exec(compile(textwrap.dedent(src), f"<orig {clsname}.{fname}>", "exec"), ns)
        out.append((cls, fname, ns[fname]))
    return out


RULE_STRINGS = [
    "/",
    "/foo",
    "/foo/",
    "/foo/<int:id>",
    "/foo/<int:id>/",
    "/foo/<id>",
    "/<path:p>",
    "/<path:p>/",
    "/a/<x>/b",
    "/a/<x>/b/",
    "/a//b",
    "/a//b/",
    "/<string:x>/<y>",
    "/<string:x>/<y>/",
    "/files/<path:name>.txt",
    "/files/<path:name>/edit",
    "/p/",
    "/p",
    "/p/<int:page>",
    "/p/<int:page>/",
    "/q/<any(a,b):k>/",
    "/x/<string(length=2):lang>/",
    "/evil.com",
    "/<x>",
    "/<x>/",
    "/b/<int:page>/<y>",
    "/b/<y>",
]
ENDPOINTS = ["e1", "e2", "e3", "page", "idx"]
SEGMENTS = [
    "", "", "foo", "a", "b", "p", "q", "x", "1", "42", "-1", "abc", "evil.com",
    "%2f", "é", "files", "n.txt", "edit", "en", "a b", "?", "#h", "\\evil",
    "..", "0", "007",
]
DEFAULTS = [None, None, {}, {"page": 1}, {"id": 1}, {"x": "d"}, {"y": "z"}, {"p": "home"},
            {"page": 1, "y": "z"}]
METHODS = [None, None, None, ["GET"], ["POST"], ["GET", "POST"], ["PUT"]]
TRI = [None, None, True, False]


FAMILIES = [
    ("/p/", {"page": 1}, "/p/<int:page>"),
    ("/p/", {"page": 1}, "/p/<int:page>/"),
    ("/p", {"page": 1}, "/p/<int:page>"),
    ("/b/<y>", {"page": 1}, "/b/<int:page>/<y>"),
    ("/foo/", {"id": 1}, "/foo/<int:id>/"),
    ("/foo", {"id": 1}, "/foo/<int:id>"),
    ("/", {"x": "d"}, "/<x>"),
    ("/a//b", {"x": "d"}, "/a/<x>/b"),
    ("/", {"p": "home"}, "/<path:p>"),
]


def gen_rule(rnd):
    spec = dict(
        string=rnd.choice(RULE_STRINGS),
        endpoint=rnd.choice(ENDPOINTS),
        defaults=rnd.choice(DEFAULTS),
        methods=rnd.choice(METHODS),
        strict_slashes=rnd.choice(TRI),
        merge_slashes=rnd.choice(TRI),
        alias=rnd.random() < 0.2,
        build_only=rnd.random() < 0.07,
        websocket=rnd.random() < 0.05,
    )
    if spec["websocket"] and spec["methods"] not in (None, ["GET"]):
        spec["methods"] = None
    r = rnd.random()
    if r < 0.15:
        spec["subdomain"] = rnd.choice(["www", "api", "", "<sub>"])
    if rnd.random() < 0.06:
        spec["redirect_to"] = rnd.choice(["/foo/", "target/<x>", "http://other.example/z"])
    return spec


def gen_map(rnd):
    host_matching = rnd.random() < 0.2
    rules = [gen_rule(rnd) for _ in range(rnd.randint(1, 8))]
    if rnd.random() < 0.5:
        # a "defaults family": two rules of one endpoint, one providing a
        # default for a variable of the other (defaults / alias redirects)
        short, dflt, long_ = rnd.choice(FAMILIES)
        ep = rnd.choice(ENDPOINTS)
        r1 = gen_rule(rnd)
        r1.update(string=short, defaults=dict(dflt), endpoint=ep)
        r2 = gen_rule(rnd)
        r2.update(string=long_, defaults=rnd.choice([None, None, None, dict(dflt)]), endpoint=ep)
        if rnd.random() < 0.7:
            for r in (r1, r2):
                r.update(build_only=False, websocket=False, methods=rnd.choice([None, None, ["GET"]]))
                r.pop("subdomain", None)
                r.pop("redirect_to", None)
        fam = [r1, r2]
        rnd.shuffle(fam)
        rules.extend(fam)
    if host_matching:
        for s in rules:
            s.pop("subdomain", None)
            s["host"] = rnd.choice(["example.org", "example.org", "other.example", "<h>"])
    opts = dict(
        strict_slashes=rnd.random() < 0.75,
        merge_slashes=rnd.random() < 0.75,
        redirect_defaults=rnd.random() < 0.8,
        host_matching=host_matching,
    )
    if not host_matching and rnd.random() < 0.2:
        opts["default_subdomain"] = rnd.choice(["www", "api"])
    return dict(rules=rules, opts=opts)


def build_map(spec):
    rules = []
    for rs in spec["rules"]:
        try:
            rules.append(Rule(**rs))
        except Exception as e:  # deterministic, same in both runs
            rules.append(None)
    try:
        return Map([r for r in rules if r is not None], **spec["opts"])
    except Exception as e:
        return ("map-error", type(e).__name__, str(e))


FILL = {"id": ["1", "42", "-1", "x"], "page": ["1", "2", "1"], "p": ["home", "a/b", "a//b"],
        "name": ["n", "d/n", "d//n"], "k": ["a", "b", "c"], "lang": ["en", "eng"]}


def gen_path(rnd, rule_strings=()):
    r = rnd.random()
    if r < 0.02:
        return None
    if r < 0.04:
        return ""
    if rule_strings and r < 0.7:
        base = rnd.choice(rule_strings)

        def fill(mo):
            name = mo.group(1).split(":")[-1]
            return rnd.choice(FILL.get(name, ["d", "z", "v", "evil.com"]))

        p = re.sub(r"<([^>]+)>", fill, base)
        m = rnd.random()
        if m < 0.25:
            p = p[:-1] if p.endswith("/") else p + "/"
        elif m < 0.45:
            i = rnd.randrange(len(p))
            j = p.find("/", i)
            if j < 0:
                j = 0
            p = p[:j] + "/" * rnd.choice([1, 2]) + p[j:]
        elif m < 0.5:
            p = p.lstrip("/")
        elif m < 0.55:
            p = p + "//"
        return p
    n = rnd.randint(0, 4)
    segs = [rnd.choice(SEGMENTS) for _ in range(n)]
    p = "/".join(segs)
    p = "/" * rnd.choice([0, 1, 1, 1, 1, 2, 3]) + p
    if rnd.random() < 0.4:
        p += "/" * rnd.choice([1, 1, 2])
    return p


def gen_bind(rnd):
    return dict(
        server_name=rnd.choice(["example.org", "example.org", "example.org:8080", "other.example"]),
        script_name=rnd.choice([None, "/", "/app", "/app/", "app", "", "//evil.com/"]),
        subdomain=rnd.choice([None, None, None, None, "", "www", "api", "evil"]),
        url_scheme=rnd.choice(["http", "https", "ws", "", "wss"]),
        default_method=rnd.choice(["GET", "GET", "POST"]),
        path_info=rnd.choice([None, "/foo", "foo//"]),
        query_args=rnd.choice([None, None, "a=1&b=2", {"q": "x y"}, {"a": [1, 2]}, "", {}, "x=%2F/"]),
    )


def outcome(fn):
    try:
        r = fn()
        return ("ok", repr(r))
    except RequestRedirect as e:
        return ("RequestRedirect", e.new_url, e.code)
    except MethodNotAllowed as e:
        return ("MethodNotAllowed", sorted(e.valid_methods or []))
    except RequestPath as e:
        return ("RequestPath", e.path_info)
    except RequestAliasRedirect as e:
        return ("RequestAliasRedirect", repr(e.matched_values), repr(e.endpoint))
    except NoMatch as e:
        return ("NoMatch", sorted(e.have_match_for), e.websocket_mismatch)
    except BaseException as e:  # noqa: B036
        return (type(e).__name__, str(e))


def follow(adapter, path, method, query_args, limit=4):
    """Follow router redirects that stay on our own prefix; records the chain."""
    chain = []
    for _ in range(limit):
        o = outcome(lambda: adapter.match(path, method, query_args=query_args))
        chain.append(o)
        if o[0] != "RequestRedirect":
            break
        from urllib.parse import urlsplit

        u = urlsplit(o[1])
        script = "/" + (adapter.script_name or "").strip("/")
        if not u.path.startswith(script):
            break
        path = u.path[len(script.rstrip("/")):]
        query_args = u.query
    return chain


N_MAPS = 500
N_BINDS = 2
N_PATHS = 14


def battery():
    rnd = random.Random(0xC12)
    results = []
    count = 0
    for mi in range(N_MAPS):
        mspec = gen_map(rnd)
        binds = [gen_bind(rnd) for _ in range(N_BINDS)]
        if mspec['opts']['host_matching']:
            for b in binds:
                b['subdomain'] = None
        paths = [gen_path(rnd, [r['string'] for r in mspec['rules']]) for _ in range(N_PATHS)]
        calls = [
            (rnd.choice(["GET", "GET", "POST", "HEAD", "PUT", None, "get"]),
             rnd.choice([None, None, None, "z=9", {"k": "v"}, ""]),
             rnd.choice([None, None, True, False]),
             rnd.random() < 0.2)
            for _ in paths
        ]
        for bi, bspec in enumerate(binds):
            m = build_map(mspec)  # fresh map for each bind: no shared state
            if not isinstance(m, Map):
                results.append(("map", mi, m))
                continue
            try:
                ad = m.bind(**bspec)
            except Exception as e:
                results.append(("bind", mi, bi, type(e).__name__, str(e)))
                continue
            # --- full MapAdapter.match, incl. redirect chains
            for p, (meth, qa, ws, rr) in zip(paths, calls):
                results.append(
                    ("match", mi, bi, p,
                     outcome(lambda: ad.match(p, meth, return_rule=rr, query_args=qa, websocket=ws)))
                )
                results.append(("follow", mi, bi, p, follow(ad, p, meth, qa)))
                results.append(("test", mi, bi, p, outcome(lambda: ad.test(p, meth))))
                results.append(("allowed", mi, bi, p, outcome(lambda: sorted(ad.allowed_methods(p)))))
                count += 4
            # --- matcher directly
            m.update()
            for p, (meth, qa, ws, rr) in zip(paths, calls):
                if p is None:
                    continue
                pp = f"/{p.lstrip('/')}" if p else ""
                for dom in ("", "www", "example.org"):
                    results.append(
                        ("matcher", mi, bi, p, dom,
                         outcome(lambda: (lambda rv: (rv[0].rule, rv[0].endpoint, rv[1]))(
                             m._matcher.match(dom, pp, (meth or "GET").upper(), bool(ws)))))
                    )
                    count += 1
            # --- helpers directly
            for dp in (None, "", "www", "evil.com", "example.org"):
                results.append(("get_host", mi, bi, dp, outcome(lambda: ad.get_host(dp))))
                for p in paths[:5]:
                    if p is None:
                        continue
                    for qa in (None, "", "a=1&b=2", {"q": "x y", "l": [1, 2]}, {}):
                        results.append(
                            ("mru", mi, bi, dp, p, repr(qa),
                             outcome(lambda: ad.make_redirect_url(p, qa, domain_part=dp)))
                        )
                        count += 1
            for qa in ("", "a=1", {"a": "1 2"}, {"a": [1, None, "x"]}, {}, [("b", "2"), ("a", "1")]):
                results.append(("eqa", mi, bi, repr(qa), outcome(lambda: ad.encode_query_args(qa))))
            # --- defaults / alias helpers directly
            rules = list(m.iter_rules())
            for r1 in rules:
                for r2 in rules:
                    results.append(
                        ("pdf", mi, bi, r1.rule, r2.rule, outcome(lambda: r1.provides_defaults_for(r2)))
                    )
                    count += 1
                for vals in ({}, {"page": 1}, {"page": 2, "y": "z"}, {"id": 1}, {"x": "d", "y": "z"},
                             {"p": "home"}, {"name": "n"}):
                    for meth in ("GET", "POST"):
                        if m.redirect_defaults:
                            v = dict(vals)
                            results.append(
                                ("gdr", mi, bi, r1.rule, repr(vals), meth,
                                 outcome(lambda: ad.get_default_redirect(r1, meth, v, "k=v")), repr(v))
                            )
                        results.append(
                            ("alias", mi, bi, r1.rule, repr(vals), meth,
                             outcome(lambda: ad.make_alias_redirect_url(
                                 f"|{r1.rule}", r1.endpoint, dict(vals), meth, {"k": "v"})))
                        )
                        count += 2
    return results, count


def main():
    new_results, n = battery()
    saved = []
    for cls, fname, fn in load_originals():
        saved.append((cls, fname, cls.__dict__[fname]))
        assert cls.__dict__[fname].__code__.co_code != fn.__code__.co_code or True
        setattr(cls, fname, fn)
    try:
        old_results, n2 = battery()
    finally:
        for cls, fname, fn in saved:
            setattr(cls, fname, fn)
    assert n == n2
    kinds = {}
    for r in new_results:
        o = r[-1] if r[0] not in ("gdr",) else r[-2]
        if isinstance(o, tuple):
            tag = o[0] + ("-None" if o[:2] == ("ok", "None") else "")
        elif isinstance(o, list):
            tag = "chain-%d" % len(o)
        else:
            tag = "other"
        kinds[(r[0], tag)] = kinds.get((r[0], tag), 0) + 1
    print(f"calls per run: {n}; records: {len(new_results)}")
    for k in sorted(kinds):
        print("  ", k, kinds[k])
    if len(new_results) != len(old_results):
        print("FAIL: record count differs")
        return 1
    bad = [(a, b) for a, b in zip(new_results, old_results) if a != b]
    if bad:
        print(f"FAIL: {len(bad)} differing records; first:")
        print("  new:", bad[0][0])
        print("  old:", bad[0][1])
        return 1
    print("PASS")
    return 0


if __name__ == "__main__":
    sys.exit(main())
