"""Differential check for refactoring 1 (parse_range_header)."""
import random

from werkzeug import datastructures as ds
from werkzeug._internal import _plain_int
from werkzeug.http import parse_range_header as new_parse


def orig_parse(value, make_inclusive=True):
    if not value or "=" not in value:
        return None

    ranges = []
    last_end = 0
    units, rng = value.split("=", 1)
    units = units.strip().lower()

    for item in rng.split(","):
        item = item.strip()
        if "-" not in item:
            return None
        if item.startswith("-"):
            if last_end < 0:
                return None
            try:
                begin = _plain_int(item)
            except ValueError:
                return None
            end = None
            last_end = -1
        elif "-" in item:
            begin_str, end_str = item.split("-", 1)
            begin_str = begin_str.strip()
            end_str = end_str.strip()

            try:
                begin = _plain_int(begin_str)
            except ValueError:
                return None

            if begin < last_end or last_end < 0:
                return None
            if end_str:
                if end_str.startswith("-"):
                    # _plain_int accepts a sign, a position does not have one
                    return None

                try:
                    end = _plain_int(end_str) + 1
                except ValueError:
                    return None

                if begin >= end:
                    return None
            else:
                end = None
            last_end = end if end is not None else -1
        ranges.append((begin, end))

    return ds.Range(units, ranges)


def run(fn, value):
    try:
        r = fn(value)
    except Exception as e:  # noqa: BLE001
        return ("exc", type(e).__name__)
    if r is None:
        return None
    out = [r.units, list(r.ranges)]
    for length in (None, 0, 1, 5, 10, 100, 1000):
        try:
            out.append((r.range_for_length(length), str(r.make_content_range(length))))
        except Exception as e:  # noqa: BLE001
            out.append(("exc", type(e).__name__))
    return out


rnd = random.Random(1111)
NUMS = ["", "0", "1", "2", "5", "9", "10", "11", "99", "100", "500", "+3", "-3", "1_0",
        "٣", " 4", "4 ", "x", "1.5", "0x1", "00", "007", "9" * 30, " ", "--1", "-0", "-"]
UNITS = ["bytes", "Bytes", " bytes ", "BYTES", "items", "", "b=ytes", "bytes ", "none"]
SEPS = ["-", "-", "-", "--", " - ", "", "—", "- ", " -"]


def gen_item():
    k = rnd.random()
    if k < 0.1:
        return rnd.choice(NUMS)
    if k < 0.3:
        return "-" + rnd.choice(NUMS)
    if k < 0.5:
        return rnd.choice(NUMS) + "-"
    a, b = rnd.choice(NUMS), rnd.choice(NUMS)
    if rnd.random() < 0.5:
        # sorted-ish numeric pair
        x = rnd.randint(0, 60)
        y = x + rnd.randint(-3, 40)
        a, b = str(x), str(y)
    return rnd.choice([" ", "", "", "\t"]) + a + rnd.choice(SEPS) + b + rnd.choice(["", "", " "])


def gen():
    k = rnd.random()
    if k < 0.02:
        return rnd.choice([None, "", "bytes", "=", "bytes=", "=0-1", "bytes=,", "bytes=0-1,", ",", "bytes==0-1"])
    n = rnd.choice([1, 1, 1, 2, 2, 3, 4])
    if rnd.random() < 0.4:
        # ascending multi-range to hit the accepting paths
        pos = 0
        items = []
        for i in range(n):
            a = pos + rnd.randint(-1, 10)
            b = a + rnd.randint(-1, 10)
            pos = b + rnd.randint(0, 3)
            c = rnd.random()
            if c < 0.15:
                items.append(f"-{rnd.randint(0, 20)}")
            elif c < 0.3:
                items.append(f"{max(a, 0)}-")
            else:
                items.append(f"{max(a, 0)}{rnd.choice(SEPS)}{b}")
        body = rnd.choice([",", ", ", " ,"]).join(items)
    else:
        body = rnd.choice([",", ", "]).join(gen_item() for _ in range(n))
    eq = rnd.choice(["=", "=", "=", "=", " = ", "", "=="])
    return rnd.choice(UNITS) + eq + body


total = 0
bad = 0
accepted = 0
cases = [gen() for _ in range(60000)]
# exhaustive small alphabet
import itertools
alpha = ["0", "3", "7", "-", ",", " "]
for ln in range(0, 7):
    for tup in itertools.product(alpha, repeat=ln):
        cases.append("bytes=" + "".join(tup))
for v in cases:
    total += 1
    a, b = run(orig_parse, v), run(new_parse, v)
    if a is not None and a[0] != "exc":
        accepted += 1
    if a != b:
        bad += 1
        if bad < 10:
            print("MISMATCH", repr(v), a, b)
print(f"{total} cases, {accepted} accepted by original, {bad} mismatches")
print("PASS" if bad == 0 and accepted > 1000 else "FAIL")
