"""Differential check for refactoring 2 (property C03).

Compares Rule._parse_rule / Rule.compile from the worktree (/tmp/wt13-C03/src)
against a pasted copy of the ORIGINAL methods (class OrigRule below) on randomly
generated rule strings (valid and malformed): the generated RuleParts (content,
final, static, suffixed, weight and the aliasing of the weight lists), the
builder trace, converters, the raised exceptions; then whole maps end to end
(MapAdapter.match and build results / exceptions).

Run: cd /tmp/wt13-C03 && PYTHONPATH=/tmp/wt13-C03/src /venv/bin/python /tmp/twin8-C03/2/diff_check.py
"""
from __future__ import annotations

import random
import re
import sys
import typing as t

from werkzeug.exceptions import MethodNotAllowed
from werkzeug.routing import Map
from werkzeug.routing import Rule
from werkzeug.routing.exceptions import RequestRedirect
from werkzeug.routing.rules import _part_re
from werkzeug.routing.rules import parse_converter_args
from werkzeug.routing.rules import RulePart
from werkzeug.routing.rules import Weighting

SEED = 80302
N_SINGLE = 4000
N_MAPS = 500
REQS_PER_MAP = 12


class OrigRule(Rule):
    # ORIGINAL implementation, pasted verbatim from the unmodified tree.
    def _parse_rule(self, rule: str) -> t.Iterable[RulePart]:
        content = ""
        static = True
        argument_weights = []
        static_weights: list[tuple[int, int]] = []
        final = False
        convertor_number = 0

        pos = 0
        while pos < len(rule):
            match = _part_re.match(rule, pos)
            if match is None:
                raise ValueError(f"malformed url rule: {rule!r}")

            data = match.groupdict()
            if data["static"] is not None:
                static_weights.append((len(static_weights), -len(data["static"])))
                self._trace.append((False, data["static"]))
                content += data["static"] if static else re.escape(data["static"])

            if data["variable"] is not None:
                if static:
                    # Switching content to represent regex, hence the need to escape
                    content = re.escape(content)
                static = False
                c_args, c_kwargs = parse_converter_args(data["arguments"] or "")
                convobj = self.get_converter(
                    data["variable"], data["converter"] or "default", c_args, c_kwargs
                )
                self._converters[data["variable"]] = convobj
                self.arguments.add(data["variable"])
                if not convobj.part_isolating:
                    final = True
                content += f"(?P<__werkzeug_{convertor_number}>{convobj.regex})"
                convertor_number += 1
                argument_weights.append(convobj.weight)
                self._trace.append((True, data["variable"]))

            if data["slash"] is not None:
                self._trace.append((False, "/"))
                if final:
                    content += "/"
                else:
                    if not static:
                        content += r"\Z"
                    weight = Weighting(
                        -len(static_weights),
                        static_weights,
                        -len(argument_weights),
                        argument_weights,
                    )
                    yield RulePart(
                        content=content,
                        final=final,
                        static=static,
                        suffixed=False,
                        weight=weight,
                    )
                    content = ""
                    static = True
                    argument_weights = []
                    static_weights = []
                    final = False
                    convertor_number = 0

            pos = match.end()

        suffixed = False
        if final and content[-1] == "/":
            # If a converter is part_isolating=False (matches slashes) and ends with a
            # slash, augment the regex to support slash redirects.
            suffixed = True
            content = content[:-1] + "(?<!/)(/?)"
        if not static:
            content += r"\Z"
        weight = Weighting(
            -len(static_weights),
            static_weights,
            -len(argument_weights),
            argument_weights,
        )
        yield RulePart(
            content=content,
            final=final,
            static=static,
            suffixed=suffixed,
            weight=weight,
        )
        if suffixed:
            yield RulePart(
                content="", final=False, static=True, suffixed=False, weight=weight
            )

    def compile(self) -> None:
        """Compiles the regular expression and stores it."""
        assert self.map is not None, "rule not bound"

        if self.map.host_matching:
            domain_rule = self.host or ""
        else:
            domain_rule = self.subdomain or ""
        self._parts = []
        self._trace = []
        self._converters = {}
        if domain_rule == "":
            self._parts = [
                RulePart(
                    content="",
                    final=False,
                    static=True,
                    suffixed=False,
                    weight=Weighting(0, [], 0, []),
                )
            ]
        else:
            self._parts.extend(self._parse_rule(domain_rule))
        self._trace.append((False, "|"))
        rule = self.rule
        if self.merge_slashes:
            rule = re.sub("/{2,}?", "/", self.rule)
        self._parts.extend(self._parse_rule(rule))

        self._build: t.Callable[..., tuple[str, str]]
        self._build = self._compile_builder(False).__get__(self, None)
        self._build_unknown: t.Callable[..., tuple[str, str]]
        self._build_unknown = self._compile_builder(True).__get__(self, None)



# ---------------------------------------------------------------------------
# Random generation of rule sets and request paths (shared by the checks)
# ---------------------------------------------------------------------------
STATIC_SEGS = ["a", "b", "foo", "bar", "a.b", "x-y", "1", "42", "index.html"]
VAR_SEGS = [
    "<{v}>",
    "<string:{v}>",
    "<string(length=2):{v}>",
    "<string(minlength=2, maxlength=3):{v}>",
    "<int:{v}>",
    "<int(min=3):{v}>",
    "<int(fixed_digits=2):{v}>",
    "<int(signed=True):{v}>",
    "<float:{v}>",
    "<float(signed=True):{v}>",
    "<path:{v}>",
    "<any(a,b,foo):{v}>",
    "<any('1', \"42\"):{v}>",
    "<uuid:{v}>",
    "pre<{v}>",
    "<int:{v}>.html",
    "<{v}>-<int:{v}2>",
    "<int:{v}>x<float:{v}2>",
    "p<path:{v}>",
    "<path:{v}>.txt",
]
METHOD_SETS = [None, None, ["GET"], ["POST"], ["GET", "POST"], ["PUT", "DELETE"]]
PATH_SEGS = [
    "a", "b", "foo", "bar", "a.b", "x-y", "1", "42", "007", "-5", "+3", "1.5",
    "-2.25", "ab", "abc", "abcd", "index.html", "7.html", "prea", "pre", "a-9",
    "3x1.5", "pa/b", "z.txt", "", "12345678-1234-5678-1234-567812345678",
    "%20", "é", "A",
]
DOMAINS = ["", "www", "api", "example.com", "api.example.com", "x"]


def gen_rule_string(rnd):
    nseg = rnd.randint(0, 4)
    segs = []
    used = 0
    for _ in range(nseg):
        r = rnd.random()
        if r < 0.45:
            segs.append(rnd.choice(STATIC_SEGS))
        elif r < 0.97:
            name = "v%d" % used if rnd.random() < 0.95 else "v0"
            used += 1
            segs.append(rnd.choice(VAR_SEGS).format(v=name))
        else:
            segs.append("")
    s = "/" + "/".join(segs)
    if segs and rnd.random() < 0.4:
        s += "/"
    if rnd.random() < 0.05:
        s = s.replace("/", "//", 1)
    return s


def gen_bad_rule_string(rnd):
    base = gen_rule_string(rnd)
    return rnd.choice(
        [
            base + "<",
            base + "<int:>",
            base + "<nosuch:q>",
            base + "<int(min=:q>",
            base + "<1bad>",
            base + ">",
            base.lstrip("/"),
            "<int(foo=1):q>" + base,
            base + "<int:q",
            base + "<path:p>/",
            base + "<path:p>/tail/",
            base + "<path:p>/<int:q>",
        ]
    )


def gen_rule_kwargs(rnd, host_matching):
    kw = {}
    kw["methods"] = rnd.choice(METHOD_SETS)
    if rnd.random() < 0.3:
        kw["strict_slashes"] = rnd.choice([True, False])
    if rnd.random() < 0.3:
        kw["merge_slashes"] = rnd.choice([True, False])
    if rnd.random() < 0.15:
        kw["websocket"] = True
        if kw["methods"] is not None:
            kw["methods"] = ["GET"]
    if rnd.random() < 0.2:
        if host_matching:
            kw["host"] = rnd.choice(["example.com", "<h>.example.com", "<h>", "api.example.com"])
        else:
            kw["subdomain"] = rnd.choice(["www", "api", "<sd>", "x"])
    if rnd.random() < 0.1:
        kw["defaults"] = {"extra": 1}
    if rnd.random() < 0.05:
        kw["redirect_to"] = "/target"
    return kw


def gen_path(rnd):
    n = rnd.randint(0, 5)
    segs = [rnd.choice(PATH_SEGS) for _ in range(n)]
    p = "/" + "/".join(segs)
    if rnd.random() < 0.35:
        p += "/"
    if rnd.random() < 0.1:
        p = p.replace("/", "//", 1)
    return p


def path_from_rule(rnd, rule_string):
    """Produce a path that is likely to be admitted by *rule_string*."""
    import re as _re

    def fill(m):
        spec = m.group(0)
        if "int(fixed_digits=2)" in spec:
            return rnd.choice(["07", "42", "5"])
        if "int" in spec.split(":")[0]:
            return rnd.choice(["1", "42", "3", "-5", "2"])
        if "float" in spec.split(":")[0]:
            return rnd.choice(["1.5", "-2.25", "3"])
        if "path" in spec.split(":")[0]:
            return rnd.choice(["a", "a/b", "a/b/", "x/y/z", "a//b"])
        if "any" in spec.split(":")[0]:
            return rnd.choice(["a", "foo", "1", "42", "zz"])
        if "uuid" in spec.split(":")[0]:
            return "12345678-1234-5678-1234-567812345678"
        return rnd.choice(["a", "ab", "abc", "foo", "1", "x y"])

    p = _re.sub(r"<[^>]*>", fill, rule_string)
    r = rnd.random()
    if r < 0.2:
        p = p.rstrip("/")
    elif r < 0.4 and not p.endswith("/"):
        p += "/"
    elif r < 0.45:
        p = p.replace("/", "//", 1)
    return p


def outcome(func, *args, **kwargs):
    try:
        rv = func(*args, **kwargs)
    except RequestRedirect as e:
        return ("RequestRedirect", e.new_url)
    except MethodNotAllowed as e:
        return ("MethodNotAllowed", list(e.valid_methods))
    except BaseException as e:  # noqa: B036
        return (type(e).__name__, str(e))
    endpoint, values = rv
    return ("ok", endpoint, list(values.items()), [type(v).__name__ for v in values.values()])


def describe(rule):
    parts = rule._parts
    return (
        parts,
        [type(p.weight).__name__ for p in parts],
        # aliasing of the weight objects / lists between parts
        [[p.weight is q.weight for q in parts] for p in parts],
        [[p.weight.static_weights is q.weight.static_weights for q in parts] for p in parts],
        [[p.weight.argument_weights is q.weight.argument_weights for q in parts] for p in parts],
        rule._trace,
        [(k, type(v).__name__, v.regex, v.weight, v.part_isolating) for k, v in rule._converters.items()],
        sorted(rule.arguments),
    )


def compile_one(cls, string, kw, map_kw):
    try:
        rule = cls(string, endpoint="e", **kw)
        Map([rule], **map_kw)
    except BaseException as e:  # noqa: B036
        return (type(e).__name__, str(e))
    return describe(rule)


def make_rules(rnd, host_matching):
    specs = []
    strings = []
    for i in range(rnd.randint(1, 9)):
        s = gen_rule_string(rnd)
        kw = gen_rule_kwargs(rnd, host_matching)
        specs.append((s, "e%d" % i, kw))
        strings.append(s)
        if rnd.random() < 0.15:
            specs.append((s, "t%d" % i, {"methods": rnd.choice(METHOD_SETS)}))
    rnd.shuffle(specs)
    return specs, strings


def main():
    import werkzeug.routing.rules as ref_mod

    assert "/tmp/wt13-C03/" in ref_mod.__file__, ref_mod.__file__
    rnd = random.Random(SEED)
    n_cases = 0
    kinds = {}

    # 1. single rules (valid and malformed): parts, trace, converters, errors
    for _ in range(N_SINGLE):
        host_matching = rnd.random() < 0.3
        s = gen_rule_string(rnd) if rnd.random() < 0.7 else gen_bad_rule_string(rnd)
        kw = gen_rule_kwargs(rnd, host_matching)
        map_kw = {"host_matching": host_matching, "merge_slashes": rnd.random() < 0.7}
        a = compile_one(Rule, s, kw, map_kw)
        b = compile_one(OrigRule, s, kw, map_kw)
        n_cases += 1
        if a != b:
            print("FAIL: compile differs", s, kw, map_kw, a, b)
            return 1
        k = "compiled" if len(a) == 8 else "compile:" + a[0]
        kinds[k] = kinds.get(k, 0) + 1

    # 2. whole maps: matching and building end to end
    for _ in range(N_MAPS):
        host_matching = rnd.random() < 0.2
        specs, strings = make_rules(rnd, host_matching)
        map_kw = {
            "host_matching": host_matching,
            "strict_slashes": rnd.random() < 0.8,
            "merge_slashes": rnd.random() < 0.7,
            "redirect_defaults": rnd.random() < 0.8,
        }
        maps = []
        for cls in (Rule, OrigRule):
            try:
                maps.append(Map([cls(s, endpoint=e, **kw) for s, e, kw in specs], **map_kw))
            except Exception as e:
                maps.append((type(e).__name__, str(e)))
        if isinstance(maps[0], tuple) or isinstance(maps[1], tuple):
            n_cases += 1
            if maps[0] != maps[1]:
                print("FAIL: Map() differs", specs, maps)
                return 1
            continue
        if [describe(r) for r in maps[0]._rules] != [describe(r) for r in maps[1]._rules]:
            print("FAIL: rules in map differ", specs)
            return 1
        for m in maps:
            m.update()
        if [r.endpoint for r in maps[0]._rules] != [r.endpoint for r in maps[1]._rules]:
            print("FAIL: rule order differs", specs)
            return 1
        for _ in range(REQS_PER_MAP):
            if rnd.random() < 0.6:
                path = path_from_rule(rnd, rnd.choice(strings))
            else:
                path = gen_path(rnd)
            method = rnd.choice(["GET", "GET", "POST", "PUT", "HEAD", "--"])
            websocket = rnd.random() < 0.15
            domain = "" if rnd.random() < 0.6 else rnd.choice(DOMAINS)
            res = []
            for m in maps:
                if host_matching:
                    adapter = m.bind(domain or "example.com")
                else:
                    adapter = m.bind("example.com", subdomain=domain if "." not in domain else "")
                adapter.websocket = websocket
                res.append(outcome(adapter.match, path, method))
            n_cases += 1
            if res[0] != res[1]:
                print("FAIL: match differs", specs, map_kw, (domain, path, method, websocket), res)
                return 1
            kinds[res[0][0]] = kinds.get(res[0][0], 0) + 1
            if res[0][0] == "ok":
                # and build the URL back
                built = []
                for m in maps:
                    adapter = m.bind("example.com")
                    built.append(outcome(lambda: (adapter.build(res[0][1], dict(res[0][2]), method=method), {})))
                n_cases += 1
                if built[0] != built[1]:
                    print("FAIL: build differs", specs, res[0], built)
                    return 1
    print("cases compared:", n_cases, "outcome kinds:", dict(sorted(kinds.items())))
    if kinds.get("ok", 0) < 200 or kinds.get("compiled", 0) < 1000 or len(kinds) < 7:
        print("FAIL: generator did not cover enough outcome kinds")
        return 1
    print("PASS")
    return 0


if __name__ == "__main__":
    sys.exit(main())
