"""Differential check for refactoring 2 (MultipartDecoder.next_event/_parse_data).

A copy of the original decoder is pasted below and driven with the same
bodies and the same chunking as the worktree's decoder.
"""
import random
import re
import sys
import typing as t

from werkzeug.datastructures import Headers
from werkzeug.exceptions import RequestEntityTooLarge
from werkzeug.http import parse_options_header
from werkzeug.sansio.multipart import BLANK_LINE_RE
from werkzeug.sansio.multipart import Data
from werkzeug.sansio.multipart import Epilogue
from werkzeug.sansio.multipart import Event
from werkzeug.sansio.multipart import Field
from werkzeug.sansio.multipart import File
from werkzeug.sansio.multipart import HEADER_CONTINUATION_RE
from werkzeug.sansio.multipart import LINE_BREAK
from werkzeug.sansio.multipart import LINE_BREAK_RE
from werkzeug.sansio.multipart import MultipartDecoder
from werkzeug.sansio.multipart import MultipartEncoder
from werkzeug.sansio.multipart import NEED_DATA
from werkzeug.sansio.multipart import NeedData
from werkzeug.sansio.multipart import Preamble
from werkzeug.sansio.multipart import SEARCH_EXTRA_LENGTH
from werkzeug.sansio.multipart import State


class OrigMultipartDecoder:
    def __init__(
        self,
        boundary: bytes,
        max_form_memory_size: int | None = None,
        *,
        max_parts: int | None = None,
    ) -> None:
        self.buffer = bytearray()
        self.complete = False
        self.max_form_memory_size = max_form_memory_size
        self.max_parts = max_parts
        self.state = State.PREAMBLE
        self.boundary = boundary
        self.preamble_re = re.compile(
            rb"%s?--%s(--[^\S\n\r]*%s?|[^\S\n\r]*%s)"
            % (LINE_BREAK, re.escape(boundary), LINE_BREAK, LINE_BREAK),
            re.MULTILINE,
        )
        self.boundary_re = re.compile(
            rb"%s--%s(--[^\S\n\r]*%s?|[^\S\n\r]*%s)"
            % (LINE_BREAK, re.escape(boundary), LINE_BREAK, LINE_BREAK),
            re.MULTILINE,
        )
        self._search_position = 0
        self._parts_decoded = 0

    def last_newline(self, data: bytes) -> int:
        try:
            last_nl = data.rindex(b"\n")
        except ValueError:
            last_nl = len(data)
        try:
            last_cr = data.rindex(b"\r")
        except ValueError:
            last_cr = len(data)

        return min(last_nl, last_cr)

    def receive_data(self, data: bytes | None) -> None:
        if data is None:
            self.complete = True
        elif (
            self.max_form_memory_size is not None
            and len(self.buffer) + len(data) > self.max_form_memory_size
        ):
            raise RequestEntityTooLarge()
        else:
            self.buffer.extend(data)

    def next_event(self) -> Event:
        event: Event = NEED_DATA

        if self.state == State.PREAMBLE:
            match = self.preamble_re.search(self.buffer, self._search_position)
            if match is not None:
                if match.group(1).startswith(b"--"):
                    self.state = State.EPILOGUE
                else:
                    self.state = State.PART
                data = bytes(self.buffer[: match.start()])
                del self.buffer[: match.end()]
                event = Preamble(data=data)
                self._search_position = 0
            else:
                self._search_position = max(
                    0, len(self.buffer) - len(self.boundary) - SEARCH_EXTRA_LENGTH
                )

        elif self.state == State.PART:
            match = BLANK_LINE_RE.search(self.buffer, self._search_position)
            if match is not None:
                headers = self._parse_headers(self.buffer[: match.start()])
                headers_end = (match.start() + match.end()) // 2
                del self.buffer[:headers_end]

                if "content-disposition" not in headers:
                    raise ValueError("Missing Content-Disposition header")

                disposition, extra = parse_options_header(
                    headers["content-disposition"]
                )
                name = t.cast(str, extra.get("name"))
                filename = extra.get("filename")
                if filename is not None:
                    event = File(
                        filename=filename,
                        headers=headers,
                        name=name,
                    )
                else:
                    event = Field(
                        headers=headers,
                        name=name,
                    )
                self.state = State.DATA_START
                self._search_position = 0
                self._parts_decoded += 1

                if self.max_parts is not None and self._parts_decoded > self.max_parts:
                    raise RequestEntityTooLarge()
            else:
                self._search_position = max(0, len(self.buffer) - SEARCH_EXTRA_LENGTH)

        elif self.state == State.DATA_START:
            data, del_index, more_data = self._parse_data(self.buffer, start=True)
            del self.buffer[:del_index]
            event = Data(data=data, more_data=more_data)
            if more_data:
                self.state = State.DATA

        elif self.state == State.DATA:
            data, del_index, more_data = self._parse_data(self.buffer, start=False)
            del self.buffer[:del_index]
            if data or not more_data:
                event = Data(data=data, more_data=more_data)

        elif self.state == State.EPILOGUE and self.complete:
            event = Epilogue(data=bytes(self.buffer))
            del self.buffer[:]
            self.state = State.COMPLETE

        if self.complete and isinstance(event, NeedData):
            raise ValueError(f"Invalid form-data cannot parse beyond {self.state}")

        return event

    def _parse_headers(self, data: bytes) -> Headers:
        headers: list[tuple[str, str]] = []
        data = HEADER_CONTINUATION_RE.sub(b" ", data)
        for line in data.splitlines():
            line = line.strip()

            if line != b"":
                name, _, value = line.decode().partition(":")
                headers.append((name.strip(), value.strip()))
        return Headers(headers)

    def _parse_data(self, data: bytes, *, start: bool) -> tuple[bytes, int, bool]:
        if start:
            match = LINE_BREAK_RE.match(data)
            data_start = t.cast(t.Match[bytes], match).end()
        else:
            data_start = 0

        boundary = b"--" + self.boundary

        if self.buffer.find(boundary) == -1:
            data_end = del_index = self.last_newline(data[data_start:]) + data_start
            if (len(data) - data_end) > len(b"\n" + boundary):
                data_end = del_index = len(data)
            more_data = True
        else:
            match = self.boundary_re.search(data)
            if match is not None:
                if match.group(1).startswith(b"--"):
                    self.state = State.EPILOGUE
                else:
                    self.state = State.PART
                data_end = match.start()
                del_index = match.end()
            else:
                data_end = del_index = self.last_newline(data[data_start:]) + data_start
            more_data = match is None

        return bytes(data[data_start:data_end]), del_index, more_data


rng = random.Random(7020261003)
ALPHABET = "abcXYZ019 -_.;=:%'&+/<>\téßЖ中文\U0001f600"


def rand_text(maxlen=8):
    return "".join(rng.choice(ALPHABET) for _ in range(rng.randint(0, maxlen)))


def rand_payload(boundary):
    pieces = [
        b"\r\n", b"\r", b"\n", b"--", b"-", boundary, b"--" + boundary,
        b"\r\n--" + boundary[:-1], b"\r\n--" + boundary + b"x", b"\n--" + boundary[: len(boundary) // 2],
        b"\x00", b"\xff", b" ", b"\t", b"a" * rng.randint(0, 120),
        bytes(rng.randrange(256) for _ in range(rng.randint(0, 8))), b"",
    ]
    return b"".join(rng.choice(pieces) for _ in range(rng.randint(0, 7)))


def rand_boundary():
    blen = rng.choice([1, 2, 5, 16, 40, 70])
    return "".join(rng.choice("abcXYZ0189-_'().+") for _ in range(blen)).encode()


def encode_form(boundary):
    enc = MultipartEncoder(boundary)
    out = [enc.send_event(Preamble(data=b"" if rng.random() < 0.7 else b"pre" + rand_payload(boundary)[:5]))]
    for _ in range(rng.randint(0, 5)):
        hs = Headers()
        if rng.random() < 0.5:
            hs.add("Content-Type", rng.choice(["text/plain", "text/plain; charset=iso-8859-1"]))
        if rng.random() < 0.5:
            out.append(enc.send_event(Field(name=rand_text(), headers=hs)))
        else:
            out.append(enc.send_event(File(name=rand_text(), filename=rand_text(), headers=hs)))
        for _ in range(rng.randint(0, 2)):
            out.append(enc.send_event(Data(data=rand_payload(boundary), more_data=True)))
        out.append(enc.send_event(Data(data=rand_payload(boundary) if rng.random() < 0.6 else b"", more_data=False)))
    out.append(enc.send_event(Epilogue(data=b"" if rng.random() < 0.7 else rand_payload(boundary))))
    return b"".join(out)


def mutate(body, boundary):
    k = rng.random()
    if k < 0.25:  # different line break styles
        return body.replace(b"\r\n", rng.choice([b"\n", b"\r"]))
    if k < 0.45 and body:  # truncate
        return body[: rng.randrange(len(body))]
    if k < 0.6:  # whitespace after boundary
        return body.replace(b"--" + boundary + b"\r\n", b"--" + boundary + b" \t\r\n")
    if k < 0.7:  # drop leading CRLF
        return body[2:] if body.startswith(b"\r\n") else body
    if k < 0.8 and body:  # flip a byte
        i = rng.randrange(len(body))
        return body[:i] + bytes([rng.randrange(256)]) + body[i + 1:]
    if k < 0.9:  # drop content-disposition / final boundary
        return body.replace(b"Content-Disposition", b"X-Nothing", 1)
    return rand_payload(boundary) + b"--" + boundary + rng.choice([b"--", b"\r\n", b"--\r\n", b""]) + rand_payload(boundary)


def chunks_of(body):
    mode = rng.random()
    if mode < 0.3:
        return [body]
    if mode < 0.5:
        return [body[i : i + 1] for i in range(len(body))]
    out, i = [], 0
    while i < len(body):
        n = rng.choice([1, 2, 3, 7, 16, 64, 300])
        out.append(body[i : i + n])
        i += n
    return out


def drive(cls, boundary, chunks, kwargs):
    dec = cls(boundary, **kwargs)
    trace = []
    try:
        for chunk in chunks + [None]:
            dec.receive_data(chunk)
            while True:
                ev = dec.next_event()
                trace.append((ev, dec.state, bytes(dec.buffer), dec._search_position))
                if isinstance(ev, (Epilogue, NeedData)):
                    break
    except Exception as e:  # noqa: BLE001
        trace.append(("exc", type(e), str(e) if type(e) is ValueError else None,
                      dec.state, bytes(dec.buffer)))
    return trace


def norm(trace):
    # NeedData instances are singletons shared by both; dataclass events compare by value
    return [tuple("NEED" if isinstance(x, NeedData) else x for x in item) for item in trace]


def main():
    n = 0
    for i in range(9000):
        boundary = rand_boundary()
        body = encode_form(boundary)
        if i % 2:
            body = mutate(body, boundary)
        chunks = chunks_of(body)
        kwargs = {}
        if rng.random() < 0.1:
            kwargs["max_parts"] = rng.randint(0, 3)
        if rng.random() < 0.1:
            kwargs["max_form_memory_size"] = rng.randint(0, 400)
        a = norm(drive(OrigMultipartDecoder, boundary, chunks, kwargs))
        b = norm(drive(MultipartDecoder, boundary, chunks, kwargs))
        if a != b:
            print("FAIL (event stream)", boundary, body, chunks, a, b, sep="\n")
            return 1
        n += 1
    # direct _parse_data calls on arbitrary buffers
    for i in range(6000):
        boundary = rand_boundary()
        buf = rand_payload(boundary)
        if rng.random() < 0.5:
            buf += rng.choice([b"\r\n", b"\n", b"\r", b""]) + b"--" + boundary + rng.choice(
                [b"--", b"\r\n", b"--\r\n", b" \r\n", b"-- ", b"", b"\n", b"x"]) + rand_payload(boundary)
        start = rng.random() < 0.5
        if start:
            buf = rng.choice([b"\r\n", b"\n", b"\r", b""]) + buf
        res = []
        for cls in (OrigMultipartDecoder, MultipartDecoder):
            dec = cls(boundary)
            dec.buffer.extend(buf)
            dec.state = State.DATA_START if start else State.DATA
            try:
                r = dec._parse_data(dec.buffer, start=start)
                res.append(("ok", r, tuple(type(x) for x in r), dec.state))
            except Exception as e:  # noqa: BLE001
                res.append(("exc", type(e), dec.state))
        if res[0] != res[1]:
            print("FAIL (_parse_data)", boundary, buf, start, res, sep="\n")
            return 1
        n += 1
    print(f"PASS ({n} cases)")
    return 0


if __name__ == "__main__":
    sys.exit(main())
