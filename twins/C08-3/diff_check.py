"""Differential check for refactoring 3 (C08).

MultiDict.__init__ (Mapping branch: if/else flipped, `continue` moved, local
renamed), MultiDict.__getitem__ (nested ifs -> guard clauses, `len(lst) > 0`
-> `len(lst) == 0`) and ImmutableDictMixin.__hash__ (early return flipped into
"fill cache if empty, return cache").

The ORIGINAL bodies are pasted below (zero-argument ``super()`` spelled as
``super(MultiDict, self)``, which is what it means inside MultiDict) and
mounted on a parallel class hierarchy: OrigMultiDict, OrigImmutableMultiDict,
OrigFileMultiDict, OrigCombinedMultiDict, OrigImmutableDict.  The worktree
classes and the Orig classes are driven through identical random histories and
all results / exception types / reads / hashes / pickles / deep copies are
compared after every step.

Run: cd /tmp/wt3-C08 && PYTHONPATH=/tmp/wt3-C08/src /venv/bin/python /tmp/twin-C08/3/diff_check.py
"""

from __future__ import annotations

import collections.abc as cabc
import copy
import io
import pickle
import random
import sys

import werkzeug
from werkzeug import exceptions
from werkzeug.datastructures import CombinedMultiDict
from werkzeug.datastructures import FileMultiDict
from werkzeug.datastructures import FileStorage
from werkzeug.datastructures import Headers
from werkzeug.datastructures import ImmutableDict
from werkzeug.datastructures import ImmutableMultiDict
from werkzeug.datastructures import MultiDict
from werkzeug.datastructures.mixins import ImmutableMultiDictMixin

assert werkzeug.__file__.startswith("/tmp/wt3-C08/"), werkzeug.__file__


# --------------------------------------------------------------------------
# ORIGINAL code (from the unmodified tree)
# --------------------------------------------------------------------------
class OrigMultiDict(MultiDict):
    def __init__(self, mapping=None):
        if mapping is None:
            super(MultiDict, self).__init__()
        elif isinstance(mapping, MultiDict):
            super(MultiDict, self).__init__((k, vs[:]) for k, vs in mapping.lists())
        elif isinstance(mapping, cabc.Mapping):
            tmp = {}
            for key, value in mapping.items():
                if isinstance(value, (list, tuple, set)):
                    value = list(value)

                    if not value:
                        continue
                else:
                    value = [value]
                tmp[key] = value
            super(MultiDict, self).__init__(tmp)
        else:
            tmp = {}
            for key, value in mapping:
                tmp.setdefault(key, []).append(value)
            super(MultiDict, self).__init__(tmp)

    def __getitem__(self, key):
        if key in self:
            lst = super(MultiDict, self).__getitem__(key)
            if len(lst) > 0:
                return lst[0]
        raise exceptions.BadRequestKeyError(key)


class OrigHash:
    def __hash__(self):
        if self._hash_cache is not None:
            return self._hash_cache
        rv = self._hash_cache = hash(frozenset(self._iter_hashitems()))
        return rv


class OrigImmutableMultiDict(OrigHash, ImmutableMultiDictMixin, OrigMultiDict):
    def copy(self):
        return OrigMultiDict(self)

    def __copy__(self):
        return self


class OrigFileMultiDict(OrigMultiDict):
    add_file = FileMultiDict.add_file


class OrigCombinedMultiDict(OrigHash, CombinedMultiDict):
    # CombinedMultiDict itself is untouched by the refactoring except for the
    # inherited __hash__; its copy() builds a MultiDict, mirror that.
    def copy(self):
        return OrigMultiDict(self)


class OrigImmutableDict(OrigHash, ImmutableDict):
    pass


NEW = {
    "MultiDict": MultiDict,
    "ImmutableMultiDict": ImmutableMultiDict,
    "FileMultiDict": FileMultiDict,
    "CombinedMultiDict": CombinedMultiDict,
    "ImmutableDict": ImmutableDict,
}
OLD = {
    "MultiDict": OrigMultiDict,
    "ImmutableMultiDict": OrigImmutableMultiDict,
    "FileMultiDict": OrigFileMultiDict,
    "CombinedMultiDict": OrigCombinedMultiDict,
    "ImmutableDict": OrigImmutableDict,
}


# --------------------------------------------------------------------------
KEYS = ["a", "b", "c", "A", "", 1, 1.0, True, None, ("t", 1), "ß"]
VALS = ["x", "y", "", 0, 1, None, "42", "4.5", b"b", ("tu",), 3.5]


class Map(cabc.Mapping):
    """Mapping (not a dict) whose items() may yield a key more than once."""

    def __init__(self, pairs):
        self.pairs = pairs

    def __getitem__(self, k):
        for kk, v in self.pairs:
            if kk == k:
                return v
        raise KeyError(k)

    def __iter__(self):
        return iter([k for k, _ in self.pairs])

    def __len__(self):
        return len(self.pairs)

    def items(self):
        return list(self.pairs)


class Unsized:
    def __eq__(self, other):
        return isinstance(other, Unsized)

    def __hash__(self):
        return 7

    def __repr__(self):
        return "Unsized()"


def rkey(r):
    return r.choice(KEYS)


def rval(r):
    return r.choice(VALS)


def rmulti(r):
    vals = [rval(r) for _ in range(r.randrange(4))]
    kind = r.randrange(6)
    if kind == 0:
        return vals
    if kind == 1:
        return tuple(vals)
    if kind == 2:
        return set(vals)
    if kind == 3:
        return frozenset(vals)  # not unpacked: stays a single value
    return rval(r)


def rpairs(r, n=6):
    return [(rkey(r), rval(r)) for _ in range(r.randrange(n))]


def rsource(r):
    """Return f(classes) -> a fresh constructor / update() argument."""
    kind = r.randrange(13)
    pairs = rpairs(r)
    if kind == 0:
        return lambda C: None
    if kind == 1:
        return lambda C: list(pairs)
    if kind == 2:
        return lambda C: iter(pairs)
    if kind == 3:
        d = {rkey(r): rmulti(r) for _ in range(r.randrange(5))}
        return lambda C: dict(d)
    if kind == 4:
        mp = [(rkey(r), rmulti(r)) for _ in range(r.randrange(6))]
        return lambda C: Map(list(mp))
    if kind == 5:
        return lambda C: C["MultiDict"](pairs)
    if kind == 6:
        return lambda C: C["ImmutableMultiDict"](pairs)
    if kind == 7:
        p2 = rpairs(r)
        return lambda C: C["CombinedMultiDict"]([C["MultiDict"](pairs), C["ImmutableMultiDict"](p2)])
    if kind == 8:
        sp = [(str(k), str(v)) for k, v in pairs]
        return lambda C: Headers(sp)
    if kind == 9:
        bad = r.choice([5, [1, 2], [("a",)], "ab", ["ab", "cd"], [("a", 1, 2)], {("k",): []}, [([], 1)]])
        return lambda C: bad
    if kind == 10:
        d = {rkey(r): rmulti(r) for _ in range(r.randrange(5))}
        return lambda C: C["ImmutableDict"](d)
    if kind == 11:
        d = {rkey(r): [] for _ in range(3)}
        d[rkey(r)] = rmulti(r)
        return lambda C: dict(d)
    return lambda C: C["FileMultiDict"](pairs)


def outcome(f):
    try:
        return ("ok", f())
    except BaseException as e:  # noqa: BLE001
        return ("exc", type(e).__name__, type(e).__mro__[1].__name__)


def cname(x):
    n = type(x).__name__
    return n[4:] if n.startswith("Orig") else n


def norm(x):
    if isinstance(x, CombinedMultiDict):
        return (cname(x), [norm(d) for d in x.dicts])
    if isinstance(x, MultiDict):
        return (cname(x), [(k, list(v)) if isinstance(v, list) else (k, ("raw", repr(v))) for k, v in dict.items(x)])
    if isinstance(x, dict):
        return (cname(x), [(k, norm(v)) for k, v in x.items()])
    if isinstance(x, (list, tuple)):
        return type(x)(norm(v) for v in x)
    if isinstance(x, FileStorage):
        return ("FileStorage", id(x), x.filename, x.name)
    if hasattr(x, "__next__") or type(x).__name__ in ("generator", "dict_values", "dict_keys", "dict_items"):
        return ("iter", outcome(lambda: [norm(v) for v in x]))
    return x


def conv_int(v):
    return int(v)


def reads(d, probes):
    out = [
        norm(d),
        len(d),
        outcome(lambda: sorted(map(repr, d))),
        outcome(lambda: sorted(map(repr, d.keys()))),
        outcome(lambda: list(d.items())) if not isinstance(d, CombinedMultiDict) else outcome(lambda: sorted(map(repr, d.items()))),
        outcome(lambda: list(d.items(multi=True))),
        outcome(lambda: norm(list(d.lists()))),
        outcome(lambda: norm(list(d.values()))),
        outcome(lambda: norm(list(d.listvalues()))),
        outcome(lambda: d.to_dict()),
        outcome(lambda: d.to_dict(flat=False)),
        outcome(lambda: repr(d).replace("Orig", "")),
        outcome(lambda: norm(d.copy())),
        outcome(lambda: norm(copy.copy(d))),
        outcome(lambda: norm(copy.deepcopy(d))),
        outcome(lambda: norm(pickle.loads(pickle.dumps(d, 2)))),
        outcome(lambda: norm(pickle.loads(pickle.dumps(d, pickle.HIGHEST_PROTOCOL)))),
        outcome(lambda: d == d.copy()),
        outcome(lambda: d == pickle.loads(pickle.dumps(d))),
        outcome(lambda: bool(d)),
    ]
    for p in probes:
        out.append(
            (
                outcome(lambda: d[p]),
                p in d,
                outcome(lambda: d.get(p)),
                outcome(lambda: d.get(p, "dflt")),
                outcome(lambda: d.get(p, -1, type=conv_int)),
                outcome(lambda: d.getlist(p)),
                outcome(lambda: d.getlist(p, type=conv_int)),
            )
        )
    return out


def hash_facts(a, b):
    """hash / eq / pickle / deepcopy consistency facts for an immutable."""

    def facts(x):
        h1 = outcome(lambda: hash(x))
        h2 = outcome(lambda: hash(x))
        cache = x.__dict__.get("_hash_cache", "unset")
        rt = outcome(lambda: pickle.loads(pickle.dumps(x)))
        dc = outcome(lambda: copy.deepcopy(x))
        return [
            h1,
            h2,
            cache,
            h1 == h2,
            rt[0] == "ok" and outcome(lambda: (rt[1] == x, hash(rt[1]) == hash(x))),
            dc[0] == "ok" and outcome(lambda: (dc[1] == x, hash(dc[1]) == hash(x))),
            outcome(lambda: hash(type(x)(x)) if not isinstance(x, CombinedMultiDict) else hash(type(x)(x.dicts))),
        ]

    return facts(a), facts(b)


MUTATORS = [
    ("setitem", lambda d, k, v: d.__setitem__(k, v)),
    ("delitem", lambda d, k, v: d.__delitem__(k)),
    ("add", lambda d, k, v: d.add(k, v)),
    ("pop", lambda d, k, v: d.pop(k)),
    ("pop_default", lambda d, k, v: d.pop(k, v)),
    ("popitem", lambda d, k, v: d.popitem()),
    ("poplist", lambda d, k, v: d.poplist(k)),
    ("popitemlist", lambda d, k, v: d.popitemlist()),
    ("setdefault", lambda d, k, v: d.setdefault(k, v)),
    ("setdefault1", lambda d, k, v: d.setdefault(k)),
    ("setlist", lambda d, k, v: d.setlist(k, v if isinstance(v, (list, tuple)) else [v])),
    ("setlist_empty", lambda d, k, v: d.setlist(k, [])),
    ("setlistdefault", lambda d, k, v: norm(d.setlistdefault(k, [v]))),
    ("setlistdefault0", lambda d, k, v: norm(d.setlistdefault(k))),
    ("clear", lambda d, k, v: d.clear()),
]


def run_case(seed):
    r = random.Random(seed)
    checks = 0
    which = r.choice(["MultiDict", "MultiDict", "ImmutableMultiDict", "FileMultiDict", "CombinedMultiDict"])
    src = rsource(r)

    if which == "CombinedMultiDict":
        srcs = [rsource(r) for _ in range(r.randrange(4))]

        def build(C):
            members = []
            for s in srcs:
                members.append(C[r2.choice(["MultiDict", "ImmutableMultiDict"])](s(C)))
            return C["CombinedMultiDict"](members)

        r2 = random.Random(seed)
        a = outcome(lambda: build(NEW))
        r2 = random.Random(seed)
        b = outcome(lambda: build(OLD))
    else:
        a = outcome(lambda: NEW[which](src(NEW)))
        b = outcome(lambda: OLD[which](src(OLD)))

    checks += 1
    if a[0] != b[0] or (a[0] == "exc" and a != b):
        return checks, f"seed {seed}: construction outcome differs: {a!r} != {b!r}"
    if a[0] == "exc":
        return checks, None
    new, old = a[1], b[1]
    members_new = new.dicts if which == "CombinedMultiDict" else None
    members_old = old.dicts if which == "CombinedMultiDict" else None

    for step in range(r.randrange(1, 10)):
        probes = [rkey(r) for _ in range(3)] + ["zz"]
        ra, rb = reads(new, probes), reads(old, probes)
        checks += 1
        if ra != rb:
            for x, y in zip(ra, rb):
                if x != y:
                    return checks, f"seed {seed} step {step}: reads differ: {x!r} != {y!r}"
        if which in ("ImmutableMultiDict", "CombinedMultiDict"):
            fa, fb = hash_facts(new, old)
            if fa != fb:
                return checks, f"seed {seed} step {step}: hash facts differ:\n {fa!r}\n {fb!r}"

        op = r.randrange(8)
        k, v = rkey(r), r.choice([rval(r), rmulti(r)])
        if op <= 2:
            name, m = r.choice(MUTATORS)
            fn = lambda d: m(d, k, v)  # noqa: E731
        elif op == 3:
            s = rsource(r)
            fn = lambda d: d.update(s(NEW if d is new else OLD))  # noqa: E731
        elif op == 4:
            s = rsource(r)
            fn = lambda d: norm(d | s(NEW if d is new else OLD))  # noqa: E731
        elif op == 5:
            s = rsource(r)

            def fn(d, s=s):
                d |= s(NEW if d is new else OLD)
                return norm(d)
        elif op == 6:
            # corrupt the dict-of-lists representation below the public API to
            # reach the "stored list is empty / odd" paths of __getitem__
            raw = r.choice([[], (), "", "str", [None], Unsized(), 0, {}, {0: "z"}])
            target_is_member = which == "CombinedMultiDict"

            def fn(d, raw=raw):
                t = d
                if target_is_member:
                    ms = members_new if d is new else members_old
                    if not ms:
                        return None
                    t = ms[0]
                dict.__setitem__(t, k, copy.copy(raw))  # never share between the two sides
        else:
            # mutate a wrapped dict of a CombinedMultiDict / add a file
            if which == "CombinedMultiDict":

                def fn(d):
                    ms = members_new if d is new else members_old
                    for mm in ms:
                        if not isinstance(mm, ImmutableMultiDictMixin):
                            mm.add(k, v)
                            return True
                    return False
            elif which == "FileMultiDict":
                fn = lambda d: d.add_file("f", io.BytesIO(b"data"), "n.txt")  # noqa: E731
            else:
                fn = lambda d: norm(d.deepcopy())  # noqa: E731

        a = outcome(lambda: fn(new))
        b = outcome(lambda: fn(old))
        checks += 1
        if which == "FileMultiDict" and op == 7:
            a, b = a[0], b[0]  # FileStorage objects have identity equality
        if a != b:
            return checks, f"seed {seed} step {step}: op outcome differs: {a!r} != {b!r}"
        if which == "FileMultiDict" and op == 7:
            # make the stored values comparable again
            if a == "ok":
                fs = new.getlist("f")[-1]
                dict.__getitem__(old, "f")[-1] = fs

    ra, rb = reads(new, ["a", 1, "zz"]), reads(old, ["a", 1, "zz"])
    checks += 1
    if ra != rb:
        return checks, f"seed {seed}: final reads differ"
    return checks, None


def immutable_dict_hash_cases():
    """ImmutableDict / ImmutableTypeConversionDict use the same __hash__."""
    r = random.Random(12345)
    n = 0
    for _ in range(2000):
        d = {rkey(r): r.choice([rval(r), [1], {}, frozenset([1])]) for _ in range(r.randrange(5))}
        a, b = ImmutableDict(d), OrigImmutableDict(d)
        fa, fb = hash_facts(a, b)
        n += 1
        if fa != fb:
            return n, f"ImmutableDict hash facts differ for {d!r}:\n {fa!r}\n {fb!r}"
        # mutators still blocked + unchanged
        for f in (lambda x: x.pop("a"), lambda x: x.update({1: 2}), lambda x: x.clear(), lambda x: x.setdefault(1, 2)):
            oa, ob = outcome(lambda: f(a)), outcome(lambda: f(b))
            if oa != ob or dict(a) != dict(b) or dict(a) != d:
                return n, f"ImmutableDict mutator differs for {d!r}"
    return n, None


def main():
    total = 0
    for seed in range(5000):
        n, err = run_case(seed)
        total += n
        if err:
            print("FAIL", err)
            return 1
    n, err = immutable_dict_hash_cases()
    total += n
    if err:
        print("FAIL", err)
        return 1
    print(f"compared {total} checkpoints (each with ~25-50 observations) over 5000 histories")
    print("PASS")
    return 0


if __name__ == "__main__":
    sys.exit(main())
