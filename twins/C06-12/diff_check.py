"""Differential check for refactoring 3 (date and age codecs: parse_date, http_date,
dump_age).

Run: cd /tmp/wt10-C06 && PYTHONPATH=/tmp/wt10-C06/src /venv/bin/python /tmp/twin6-C06/3/diff_check.py
"""

from __future__ import annotations

import email.utils
import random
import time as time_mod
from datetime import date
from datetime import datetime
from datetime import time
from datetime import timedelta
from datetime import timezone
from time import mktime
from time import struct_time
from unittest import mock

from werkzeug import http
from werkzeug._internal import _dt_as_utc


# ---------------------------------------------------------------- ORIGINALS
def orig_parse_date(value):
    if value is None:
        return None

    try:
        dt = email.utils.parsedate_to_datetime(value)
    except (TypeError, ValueError, OverflowError):
        return None

    if dt.tzinfo is None:
        return dt.replace(tzinfo=timezone.utc)

    return dt


def orig_http_date(timestamp=None):
    if isinstance(timestamp, date):
        if not isinstance(timestamp, datetime):
            # Assume plain date is midnight UTC.
            timestamp = datetime.combine(timestamp, time(), tzinfo=timezone.utc)
        else:
            # Ensure datetime is timezone-aware.
            timestamp = _dt_as_utc(timestamp)

        return email.utils.format_datetime(timestamp, usegmt=True)

    if isinstance(timestamp, struct_time):
        timestamp = mktime(timestamp)

    return email.utils.formatdate(timestamp, usegmt=True)


def orig_dump_age(age=None):
    if age is None:
        return None
    if isinstance(age, timedelta):
        age = int(age.total_seconds())
    else:
        age = int(age)

    if age < 0:
        raise ValueError("age cannot be negative")

    return str(age)


# ---------------------------------------------------------------- helpers
def describe(r):
    if isinstance(r, datetime):
        return ("dt", r.isoformat(), repr(r.tzinfo), r.utcoffset(), type(r))
    return ("val", type(r), r)


def outcome(fn, *args):
    try:
        return ("ok", describe(fn(*args)))
    except BaseException as e:  # noqa: B036
        return ("exc", type(e), str(e))


class MyDT(datetime):
    pass


class MyDate(date):
    pass


class IntLike:
    def __init__(self, v):
        self.v = v

    def __int__(self):
        return self.v


rnd = random.Random(3606)
TZS = [
    None,
    timezone.utc,
    timezone(timedelta(0)),
    timezone(timedelta(0), "Zulu"),
    timezone(timedelta(hours=2)),
    timezone(timedelta(hours=-7, minutes=-30)),
    timezone(timedelta(hours=5, minutes=45), "NPT"),
    timezone(timedelta(seconds=1)),
]


def rand_dt(cls=datetime):
    return cls(
        rnd.randint(1, 9999),
        rnd.randint(1, 12),
        rnd.randint(1, 28),
        rnd.randint(0, 23),
        rnd.randint(0, 59),
        rnd.randint(0, 59),
        rnd.choice([0, 0, rnd.randint(0, 999999)]),
        tzinfo=rnd.choice(TZS),
    )


def rand_date(cls=date):
    return cls(rnd.randint(1, 9999), rnd.randint(1, 12), rnd.randint(1, 28))


ZONES = ["GMT", "UT", "UTC", "+0000", "-0000", "+0200", "-0730", "EST", "PDT", "Z", "",
         "+2400", "XYZ", "+00:00", "-9999"]
DAYS = ["Mon", "Tue", "Wed", "Thu", "Fri", "Sat", "Sun", "Xxx", ""]
MONTHS = ["Jan", "Feb", "Mar", "Apr", "May", "Jun", "Jul", "Aug", "Sep", "Oct", "Nov",
          "Dec", "Foo", "january"]


def rand_date_string():
    r = rnd.random()
    if r < 0.3:
        # well-formed output of the serialiser (the C06 round trip)
        return http.http_date(rand_dt())
    if r < 0.4:
        return http.http_date(rnd.randint(0, 2**33))
    d, m, y = rnd.randint(0, 32), rnd.choice(MONTHS), rnd.choice(
        [rnd.randint(1, 9999), rnd.randint(0, 99), 0, 10000, 1970, 2038]
    )
    hh, mm, ss = rnd.randint(0, 25), rnd.randint(0, 61), rnd.randint(0, 61)
    z = rnd.choice(ZONES)
    day = rnd.choice(DAYS)
    if r < 0.6:
        return f"{day}, {d:02d} {m} {y} {hh:02d}:{mm:02d}:{ss:02d} {z}".strip()
    if r < 0.7:  # rfc 850
        return f"{day}day, {d:02d}-{m}-{y % 100:02d} {hh:02d}:{mm:02d}:{ss:02d} {z}"
    if r < 0.8:  # asctime
        return f"{day} {m} {d:2d} {hh:02d}:{mm:02d}:{ss:02d} {y}"
    if r < 0.85:
        return f"{d} {m} {y} {hh}:{mm} {z}"
    if r < 0.9:
        s = http.http_date(rand_dt())
        i = rnd.randrange(len(s))
        return s[:i] + rnd.choice(["", "x", " ", "9", ",", ":"]) + s[i + 1:]
    return "".join(rnd.choice("0123456789 :,-+GMTabc") for _ in range(rnd.randint(0, 30)))


def main():
    n = bad = 0

    def cmp(orig, new, *args):
        nonlocal n, bad
        a = outcome(orig, *args)
        b = outcome(new, *args)
        n += 1
        if a != b:
            bad += 1
            if bad < 10:
                print("MISMATCH", orig.__name__, args, a, b)

    # ---- http_date
    for _ in range(4000):
        cmp(orig_http_date, http.http_date, rand_dt())
    for _ in range(1500):
        cmp(orig_http_date, http.http_date, rand_dt(MyDT))
    for _ in range(2000):
        cmp(orig_http_date, http.http_date, rand_date())
    for _ in range(500):
        cmp(orig_http_date, http.http_date, rand_date(MyDate))
    for _ in range(2000):
        ts = rnd.choice(
            [
                rnd.randint(-(2**31), 2**34),
                rnd.uniform(-1e9, 4e10),
                rnd.choice([0, 1, -1, 0.0, 1e18, -1e18, float("nan"), float("inf"), True]),
            ]
        )
        cmp(orig_http_date, http.http_date, ts)
    for _ in range(1500):
        secs = rnd.randint(0, 2**32)
        cmp(orig_http_date, http.http_date, time_mod.gmtime(secs))
        cmp(orig_http_date, http.http_date, time_mod.localtime(secs))
    for bad_in in ["now", b"x", [], (2020, 1, 1), {}, time(), timedelta(1), 2 + 3j,
                   datetime.min, datetime.max, date.min, date.max,
                   datetime.min.replace(tzinfo=timezone(timedelta(hours=5))),
                   datetime.max.replace(tzinfo=timezone(timedelta(hours=-5)))]:
        cmp(orig_http_date, http.http_date, bad_in)
    with mock.patch("time.time", return_value=1700000000.25):
        cmp(orig_http_date, http.http_date)
        cmp(orig_http_date, http.http_date, None)

    # ---- parse_date
    for _ in range(12000):
        cmp(orig_parse_date, http.parse_date, rand_date_string())
    for v in [None, "", " ", "0", b"Mon, 01 Jan 2020 00:00:00 GMT", 5, 1.5, [], (),
              "Mon, 01 Jan 2020 00:00:00 -0000", "Mon, 01 Jan 2020 00:00:00",
              "Mon, 01 Jan 2020 00:00:00 GMT", "Mon, 01 Jan 0000 00:00:00 GMT",
              "Mon, 31 Dec 9999 23:59:59 -2359", "Mon, 01 Jan 0001 00:00:00 +2359"]:
        cmp(orig_parse_date, http.parse_date, v)

    # round trip: parse(dump(x)) agrees between original pair and refactored pair
    for _ in range(3000):
        x = rnd.choice([rand_dt, rand_date])()

        def rt_orig(v):
            return orig_parse_date(orig_http_date(v))

        def rt_new(v):
            return http.parse_date(http.http_date(v))

        cmp(rt_orig, rt_new, x)

    # ---- dump_age
    for _ in range(6000):
        r = rnd.random()
        if r < 0.35:
            a = rnd.randint(-1000, 10**6)
        elif r < 0.7:
            a = timedelta(
                days=rnd.randint(-3, 400),
                seconds=rnd.randint(-90000, 90000),
                microseconds=rnd.randint(-(10**6), 10**6),
            )
        elif r < 0.8:
            a = rnd.uniform(-5, 1e6)
        elif r < 0.9:
            a = rnd.choice(["12", " 5 ", "-3", "abc", "", "1_0", "٣", "1.5", b"7", b"-7"])
        else:
            a = rnd.choice(
                [None, True, False, 0, -0.5, 0.999, -0.999, float("nan"), float("inf"),
                 timedelta(0), timedelta(microseconds=-1), timedelta(seconds=-1),
                 timedelta.max, timedelta.min, IntLike(5), IntLike(-5), [], {}, 10**30]
            )
        cmp(orig_dump_age, http.dump_age, a)
    cmp(orig_dump_age, http.dump_age)

    # round trip age
    for _ in range(2000):
        a = rnd.choice([rnd.randint(0, 10**7), timedelta(seconds=rnd.randint(0, 10**7))])

        def rt_orig(v):
            return http.parse_age(orig_dump_age(v))

        def rt_new(v):
            return http.parse_age(http.dump_age(v))

        cmp(rt_orig, rt_new, a)

    print(f"{n} comparisons, {bad} mismatches")
    print("PASS" if bad == 0 else "FAIL")


if __name__ == "__main__":
    main()
