"""Differential check for refactoring 3
(sansio.response.Response._clean_status and
 datastructures.headers._str_header_value).

Run with the refactored worktree on the path:
    cd /tmp/wt3-C05 && PYTHONPATH=/tmp/wt3-C05/src /venv/bin/python /tmp/twin-C05/3/diff_check.py

ORIGINAL implementations are pasted below and compared with the worktree's on
generated inputs; additionally every Headers mutator is exercised once with
the worktree's _str_header_value and once with the original monkeypatched in.
Prints PASS only if every result (value + exact type, or exception type +
message) is identical.
"""

from __future__ import annotations

import random
import re
import sys
import warnings
from decimal import Decimal
from fractions import Fraction
from http import HTTPStatus

import werkzeug.datastructures.headers as headers_mod
from werkzeug.datastructures import Headers
from werkzeug.http import HTTP_STATUS_CODES
from werkzeug.sansio.response import Response as SansIOResponse
from werkzeug.wrappers import Response

warnings.simplefilter("ignore")  # BytesWarning etc. must not differ anyway


# --------------------------------------------------------------------------
# ORIGINAL implementations (verbatim copies from the unmodified tree)
# --------------------------------------------------------------------------
def orig_clean_status(self, value):
    if isinstance(value, (int, HTTPStatus)):
        status_code = int(value)
    else:
        value = value.strip()

        if not value:
            raise ValueError("Empty status argument")

        code_str, sep, _ = value.partition(" ")

        try:
            status_code = int(code_str)
        except ValueError:
            # only message
            return f"0 {value}", 0

        if sep:
            # code and message
            return value, status_code

    # only code, look up message
    try:
        status = f"{status_code} {HTTP_STATUS_CODES[status_code].upper()}"
    except KeyError:
        status = f"{status_code} UNKNOWN"

    return status, status_code


_orig_newline_re = re.compile(r"[\r\n]")


def orig_str_header_value(value):
    if not isinstance(value, str):
        value = str(value)

    if _orig_newline_re.search(value) is not None:
        raise ValueError("Header values must not contain newline characters.")

    return value


new_clean_status = SansIOResponse._clean_status
new_str_header_value = headers_mod._str_header_value


def call(fn, *args):
    try:
        out = fn(*args)
    except Exception as e:  # noqa: BLE001
        return ("EXC", type(e).__name__, str(e))
    return ("OK", deep_types(out), out)


def deep_types(x):
    if isinstance(x, tuple):
        return tuple(deep_types(i) for i in x)
    return type(x).__name__


# --------------------------------------------------------------------------
# _clean_status inputs
# --------------------------------------------------------------------------
class IntSub(int):
    pass


class StrSub(str):
    pass


class StripsToNumber:
    """Duck-typed non-str object with strip()."""

    def __init__(self, s):
        self.s = s

    def strip(self):
        return self.s


STATUS_ALPHABET = list("0123456789") + list("  \t\n\r\x0b\x0c") + list("aOKxé-+_.") + [
    " ",
    " ",
    "２",
    "０",
    "٣",
]


def status_inputs(rng):
    vals: list = []
    vals += list(range(-60, 1100))
    vals += [IntSub(i) for i in (0, 99, 100, 200, 204, 304, 418, 999)]
    vals += list(HTTPStatus)
    vals += [True, False, 10**30, -(10**30)]
    vals += [None, 2.5, 200.0, Decimal("200"), Fraction(200), b"", b"  ", b"200", b"200 OK", b"OK", [], (200,), object()]
    vals += [bytearray(b"200 OK"), bytearray(b" "), StripsToNumber("200"), StripsToNumber(""), StripsToNumber("404 nope"), StripsToNumber(200), StripsToNumber(None)]
    fixed = [
        "", " ", "\t\n", "200", " 200 ", "200 OK", "200  OK", "200 ", " 200  ", "200\tOK",
        "200\nOK", "OK", "0", "0 x", "00200", "+200", "-1", "-1 neg", "2_00", "2_00 under",
        "1e2", "0x10", "２００", "２００ wide", "٣٠٠", "999", "999 custom", "1000", "99999999999999999999",
        "204", "304", "100", "199", "418", "418 teapot", "wat wat", "é", " é 1", "204 NO CONTENT",
        " 200 ", "200 OK", " ", "200\r\nX: y", "None", "True", "2.5", "2.5 x",
        StrSub("200"), StrSub(" 404 gone "), StrSub(""), StrSub("teapot"),
    ]
    vals += fixed
    for _ in range(6000):
        n = rng.randint(0, 8)
        vals.append("".join(rng.choice(STATUS_ALPHABET) for _ in range(n)))
    for _ in range(1500):
        code = str(rng.randint(-5, 1100))
        pad1 = rng.choice(["", " ", "  ", "\t", "\n"])
        sep = rng.choice(["", " ", "  ", "\t", " ", "-"])
        msg = rng.choice(["", "OK", "Not Found", "x y z", " ", "é"])
        pad2 = rng.choice(["", " ", "\n", "\t "])
        vals.append(pad1 + code + sep + msg + pad2)
    return vals


# --------------------------------------------------------------------------
# _str_header_value inputs
# --------------------------------------------------------------------------
class StrReturns:
    def __init__(self, s):
        self.s = s

    def __str__(self):
        return self.s


class StrRaises:
    def __str__(self):
        raise RuntimeError("no str")


class StrReturnsSub:
    def __str__(self):
        return StrSub("sub\nnl")


HV_ALPHABET = list("abcXYZ 0123;=,\"'\\\t") + ["\r", "\n", "\r\n", "\x0b", "\x0c", "\x1c", "\x85", " ", " ", "é", "☃", "\x00"]


def header_value_inputs(rng):
    vals: list = [
        "", "a", "a\nb", "a\rb", "a\r\nb", "\n", "\r", "trailing\n", "\nleading", "a\x0bb", "a b",
        "a\x85b", 0, 1, -1, 3.5, None, True, b"bytes", b"by\ntes", b"by\\ntes", bytearray(b"x\ny"),
        ["a", "b"], ["a\n"], ("x",), {"k": "v\n"}, Decimal("1.5"), object, StrSub("ok"), StrSub("no\nl"),
        StrReturns("fine"), StrReturns("bad\nvalue"), StrReturns("bad\rvalue"), StrRaises(), StrReturnsSub(),
        HTTPStatus.OK, 10**40, float("nan"), float("inf"), Ellipsis, NotImplemented, range(3),
    ]
    for _ in range(7000):
        n = rng.randint(0, 12)
        s = "".join(rng.choice(HV_ALPHABET) for _ in range(n))
        r = rng.random()
        if r < 0.7:
            vals.append(s)
        elif r < 0.8:
            vals.append(StrSub(s))
        elif r < 0.9:
            vals.append(StrReturns(s))
        else:
            vals.append(s.encode("utf-8"))
    return vals


# --------------------------------------------------------------------------
# Headers mutators, run under both implementations
# --------------------------------------------------------------------------
def header_ops_trace(values):
    trace = []
    for v in values:
        h = Headers([("X-A", "1"), ("X-B", "2")])
        ops = [
            lambda: h.add("X-New", v),
            lambda: h.set("X-A", v),
            lambda: h.__setitem__("X-B", v),
            lambda: h.setdefault("X-C", v),
            lambda: h.setlist("X-L", [v, "tail"]),
            lambda: h.setlistdefault("X-LD", ["head", v]),
            lambda: h.extend([("X-E", v)]),
            lambda: h.extend({"X-E2": v}),
            lambda: h.update({"X-U": v}),
            lambda: h.update([("X-U2", v)]),
            lambda: h.add_header("X-AH", v),
            lambda: h.__setitem__(0, ("X-Idx", v)),
            lambda: h.__setitem__(slice(0, 1), [("X-Sl", v)]),
            lambda: Headers([("X-Init", v)]).to_wsgi_list(),
            lambda: Headers({"X-Init": v}).to_wsgi_list(),
            lambda: h.__ior__({"X-Or": v}),
        ]
        for i, op in enumerate(ops):
            try:
                r = op()
                trace.append((i, "OK", repr(r) if not isinstance(r, Headers) else "H"))
            except Exception as e:  # noqa: BLE001
                trace.append((i, "EXC", type(e).__name__, str(e)))
        trace.append([(type(k).__name__, k, type(val).__name__, val) for k, val in h.to_wsgi_list()])
    return trace


def main() -> int:
    import werkzeug

    assert werkzeug.__file__.startswith("/tmp/wt3-C05/src/"), werkzeug.__file__
    rng = random.Random(0xC05_3)
    bad = 0
    stats = {"status": 0, "status_exc": 0, "hv": 0, "hv_exc": 0, "resp": 0, "hdr_ops": 0}

    dummy = object.__new__(SansIOResponse)
    for v in status_inputs(rng):
        a = call(orig_clean_status, dummy, v)
        b = call(new_clean_status, dummy, v)
        stats["status"] += 1
        stats["status_exc"] += a[0] == "EXC"
        if a != b:
            bad += 1
            if bad <= 5:
                print("MISMATCH _clean_status", repr(v), a, b)

    # through the public surface as well: constructor + both setters
    for v in status_inputs(random.Random(7))[::3]:
        exp = call(orig_clean_status, dummy, v)

        def via_ctor():
            r = Response(status=v) if v is not None else Response(status=" 200 ")
            return r.status, r.status_code

        def via_status_setter():
            r = SansIOResponse()
            r.status = v
            return r.status, r.status_code

        def via_code_setter():
            r = SansIOResponse()
            r.status_code = v
            return r.status, r.status_code

        for fn in (via_status_setter, via_code_setter) + ((via_ctor,) if v is not None else ()):
            got = call(fn)
            stats["resp"] += 1
            if got != exp:
                bad += 1
                if bad <= 5:
                    print("MISMATCH public status", fn.__name__, repr(v), exp, got)

    hv = header_value_inputs(rng)
    for v in hv:
        a = call(orig_str_header_value, v)
        b = call(new_str_header_value, v)
        stats["hv"] += 1
        stats["hv_exc"] += a[0] == "EXC"
        # identity: a str input must be returned as the very same object
        if a[0] == "OK" and isinstance(v, str):
            if not (a[2] is v and b[2] is v):
                bad += 1
                print("IDENTITY MISMATCH", repr(v))
        if a != b:
            bad += 1
            if bad <= 5:
                print("MISMATCH _str_header_value", repr(v), a, b)

    sample = hv[:60] + hv[60::12]
    t_new = header_ops_trace(sample)
    headers_mod._str_header_value = orig_str_header_value
    try:
        t_orig = header_ops_trace(sample)
    finally:
        headers_mod._str_header_value = new_str_header_value
    stats["hdr_ops"] = len(t_new)
    if t_new != t_orig:
        for x, y in zip(t_new, t_orig):
            if x != y:
                bad += 1
                if bad <= 5:
                    print("MISMATCH header op", x, y)
        if len(t_new) != len(t_orig):
            bad += 1

    print(f"stats={stats} mismatches={bad}")
    ok = (
        bad == 0
        and stats["status"] > 5000
        and stats["status_exc"] > 100
        and stats["hv"] > 5000
        and stats["hv_exc"] > 500
        and stats["hdr_ops"] > 5000
    )
    print("PASS" if ok else "FAIL")
    return 0 if ok else 1


if __name__ == "__main__":
    sys.exit(main())
