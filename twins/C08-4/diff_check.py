"""Differential check for refactoring 1 (Headers.set / Headers._del_key / Headers.setlist).

Run as:
  cd /tmp/wt6-C08 && PYTHONPATH=/tmp/wt6-C08/src /venv/bin/python /tmp/twin4-C08/1/diff_check.py

``OrigHeaders`` is the worktree ``Headers`` with the three touched methods
replaced by verbatim copies of the ORIGINAL implementation.  Random operation
sequences are applied to a refactored ``Headers`` and to an ``OrigHeaders`` in
lockstep; after every operation the return value / raised exception type and
the complete internal pair list must be identical.
"""

from __future__ import annotations

import random
import sys

from werkzeug.datastructures import Headers
from werkzeug.datastructures import MultiDict
from werkzeug.datastructures.headers import _options_header_vkw
from werkzeug.datastructures.headers import _str_header_value


class OrigHeaders(Headers):
    # ---- verbatim copies of the original implementation -------------------
    def _del_key(self, key):
        key = key.lower()
        new = []

        for k, v in self._list:
            if k.lower() != key:
                new.append((k, v))

        self._list[:] = new

    def set(self, key, value, /, **kwargs):
        if kwargs:
            value = _options_header_vkw(value, kwargs)

        value_str = _str_header_value(value)

        if not self._list:
            self._list.append((key, value_str))
            return

        iter_list = iter(self._list)
        ikey = key.lower()

        for idx, (old_key, _) in enumerate(iter_list):
            if old_key.lower() == ikey:
                # replace first occurrence
                self._list[idx] = (key, value_str)
                break
        else:
            # no existing occurrences
            self._list.append((key, value_str))
            return

        # remove remaining occurrences
        self._list[idx + 1 :] = [t for t in iter_list if t[0].lower() != ikey]

    def setlist(self, key, values):
        if values:
            values_iter = iter(values)
            self.set(key, next(values_iter))

            for value in values_iter:
                self.add(key, value)
        else:
            self.remove(key)


# sanity: the class under test must really use the worktree implementation
assert Headers.set is not OrigHeaders.set
assert "/tmp/wt6-C08/" in sys.modules[Headers.__module__].__file__

KEYS = [
    "A", "a", "Content-Type", "content-type", "CONTENT-TYPE", "X-b", "x-B",
    "Set-Cookie", "set-cookie", "", "İ", "i̇", "ß", "SS", "ss",
    "KK", "kk",
]
ODD_KEYS = [1, None, b"a", ("a",), 2.5]
VALUES = [
    "v", "", "1", "42", "x y", "a;b=c", 7, 3.5, None, b"bytes", True,
    "bad\nvalue", "bad\rvalue", "café", ["l"], ("t",),
]


def rkey(r, odd=0.05):
    if r.random() < odd:
        return r.choice(ODD_KEYS)
    return r.choice(KEYS)


def rval(r):
    return r.choice(VALUES)


def rvalues(r):
    """Return a *factory* so that each container gets its own fresh iterable."""
    n = r.choice([0, 0, 1, 2, 3, 5])
    vals = [rval(r) for _ in range(n)]
    kind = r.choice(["list", "tuple", "set", "gen", "iter", "dict", "str", "none"])
    if kind == "list":
        return lambda: list(vals)
    if kind == "tuple":
        return lambda: tuple(vals)
    if kind == "set":
        hashable = [v for v in vals if not isinstance(v, list)]
        return lambda: set(hashable)
    if kind == "gen":
        return lambda: (v for v in vals)
    if kind == "iter":
        return lambda: iter(vals)
    if kind == "dict":
        hashable = [v for v in vals if not isinstance(v, list)]
        return lambda: dict.fromkeys(hashable)
    if kind == "str":
        s = r.choice(["", "abc", "q"])
        return lambda: s
    return lambda: None


def rkwargs(r):
    if r.random() < 0.8:
        return {}
    return r.choice(
        [
            {"filename": "foo.png"},
            {"max_age": 3, "path": "/"},
            {"x": None},
            {"name": "a b"},
            {"bad": "x\ny"},
        ]
    )


def rupdate_arg(r):
    kind = r.choice(["headers", "multidict", "dict", "pairs", "none", "badpairs"])
    pairs = [(r.choice(KEYS), rval(r)) for _ in range(r.randint(0, 4))]
    if kind == "headers":
        ok = [(k, v) for k, v in pairs if not (isinstance(v, str) and ("\n" in v or "\r" in v))]
        return lambda: Headers(ok)
    if kind == "multidict":
        return lambda: MultiDict(pairs)
    if kind == "dict":
        d = {}
        for k, v in pairs:
            d[k] = r.choice([v, [v, "z"], (v,), [], {"s1"}, ()])
        return lambda: dict(d)
    if kind == "pairs":
        return lambda: list(pairs)
    if kind == "badpairs":
        return lambda: [("a", "b", "c")]
    return lambda: None


def make_op(r):
    """Return (name, fn) where fn(h) performs one operation on container h."""
    c = r.randrange(30)
    if c < 6:
        k, v, kw = rkey(r), rval(r), rkwargs(r)
        return f"set({k!r},{v!r},{kw})", lambda h: h.set(k, v, **kw)
    if c < 9:
        k, v, kw = rkey(r, 0.02), rval(r), rkwargs(r)
        return f"add({k!r},{v!r},{kw})", lambda h: h.add(k, v, **kw)
    if c < 13:
        k, f = rkey(r), rvalues(r)
        return f"setlist({k!r})", lambda h: h.setlist(k, f())
    if c < 15:
        k = rkey(r)
        return f"remove({k!r})", lambda h: h.remove(k)
    if c < 17:
        k = r.choice([rkey(r), r.randint(-3, 3), slice(r.randint(-2, 2), r.randint(-2, 4))])
        return f"del[{k!r}]", lambda h: h.__delitem__(k)
    if c < 19:
        which = r.randrange(3)
        if which == 0:
            k, v = rkey(r), rval(r)
            return f"[{k!r}]={v!r}", lambda h: h.__setitem__(k, v)
        if which == 1:
            i, k, v = r.randint(-3, 3), r.choice(KEYS), rval(r)
            return f"[{i}]=({k!r},{v!r})", lambda h: h.__setitem__(i, (k, v))
        sl = slice(r.randint(-2, 2), r.randint(-2, 4))
        pairs = [(r.choice(KEYS), rval(r)) for _ in range(r.randint(0, 3))]
        return f"[{sl}]={pairs!r}", lambda h: h.__setitem__(sl, list(pairs))
    if c < 21:
        k = r.choice([None, rkey(r), r.randint(-3, 3)])
        d = r.choice(["NODEFAULT", None, "dflt"])
        if d == "NODEFAULT":
            return f"pop({k!r})", lambda h: h.pop(k)
        return f"pop({k!r},{d!r})", lambda h: h.pop(k, d)
    if c < 22:
        return "popitem()", lambda h: h.popitem()
    if c < 24:
        k, v = rkey(r), rval(r)
        return f"setdefault({k!r},{v!r})", lambda h: h.setdefault(k, v)
    if c < 26:
        k, f = rkey(r), rvalues(r)
        return f"setlistdefault({k!r})", lambda h: h.setlistdefault(k, f())
    if c < 28:
        f = rupdate_arg(r)
        kw = r.choice([{}, {}, {"a": "1"}, {"A": ["1", "2"]}, {"x_b": ()}, {"a": set()}])
        return f"update(..., {kw})", lambda h: h.update(f(), **kw)
    if c < 29:
        f = rupdate_arg(r)
        return "extend(...)", lambda h: h.extend(f())
    which = r.randrange(3)
    if which == 0:
        return "clear()", lambda h: h.clear()
    if which == 1:
        f = rupdate_arg(r)
        return "|=", lambda h: h.__ior__(f())

    def corrupt(h):
        # direct manipulation of the representation with a malformed entry
        h._list.insert(r_pos, bad)

    r_pos = r.randint(0, 3)
    bad = r.choice([("a", "b", "c"), ("only",), (1, "x"), ["A", "listpair"]])
    return f"corrupt({bad!r})", corrupt


def run(fn, h):
    try:
        rv = fn(h)
    except BaseException as e:  # noqa: BLE001
        return ("EXC", type(e))
    if isinstance(rv, Headers):
        return ("H", list(rv._list))
    return ("OK", rv)


def snapshot(h):
    out = [list(h._list), len(h)]
    for k in KEYS:
        for probe in (
            lambda: h.get(k),
            lambda: h.getlist(k),
            lambda: k in h,
            lambda: h[k],
            lambda: h.get(k, type=int),
        ):
            try:
                out.append(probe())
            except BaseException as e:  # noqa: BLE001
                out.append(type(e))
    for probe in (lambda: str(h), lambda: repr(h).replace("OrigHeaders", "Headers"),
                  lambda: list(h.items(lower=True)), lambda: h.to_wsgi_list()):
        try:
            out.append(probe())
        except BaseException as e:  # noqa: BLE001
            out.append(type(e))
    return out


def main():
    n_ops = 0
    n_seq = 0
    for seed in range(4000):
        r = random.Random(seed)
        init = [(r.choice(KEYS), r.choice(["v", "w", "1"])) for _ in range(r.choice([0, 0, 1, 3, 6]))]
        new, old = Headers(init), OrigHeaders(init)
        for _step in range(r.randint(1, 14)):
            name, fn = make_op(r)
            state = r.getstate()
            a = run(fn, new)
            r.setstate(state)
            b = run(fn, old)
            n_ops += 1
            if a != b or new._list != old._list:
                print("MISMATCH seed", seed, "op", name, a, b, new._list, old._list)
                return 1
            # element types must match too (tuple vs list entries)
            if [type(x) for x in new._list] != [type(x) for x in old._list]:
                print("TYPE MISMATCH seed", seed, name)
                return 1
        if snapshot(new) != snapshot(old):
            print("SNAPSHOT MISMATCH seed", seed)
            return 1
        # copies stay independent
        try:
            cn, co = new.copy(), old.copy()
        except BaseException as e:  # noqa: BLE001  (malformed entries)
            try:
                old.copy()
            except BaseException as e2:  # noqa: BLE001
                if type(e) is not type(e2):
                    print("COPY EXC MISMATCH", seed)
                    return 1
            else:
                print("COPY EXC MISMATCH", seed)
                return 1
        else:
            before_n, before_o = list(new._list), list(old._list)
            ra = [run(lambda h: h.set("A", "changed"), cn), run(lambda h: h.remove("x-b"), cn)]
            rb = [run(lambda h: h.set("A", "changed"), co), run(lambda h: h.remove("x-b"), co)]
            if ra != rb or cn._list != co._list or new._list != before_n or old._list != before_o:
                print("COPY MISMATCH", seed)
                return 1
        n_seq += 1
    print(f"sequences={n_seq} operations={n_ops}")
    print("PASS")
    return 0


if __name__ == "__main__":
    raise SystemExit(main())
