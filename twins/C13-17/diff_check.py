"""Differential check for refactoring 2 (sansio.http.parse_cookie /
_cookie_unslash_replace restructuring).

Compares the worktree implementation against a verbatim copy of the original on
generated cookie headers. Prints PASS only if all outputs and raised exception types
are identical.
"""

from __future__ import annotations

import random
import re
import sys

from werkzeug import datastructures as ds
from werkzeug.http import dump_cookie
from werkzeug.http import parse_cookie as http_parse_cookie
from werkzeug.sansio import http as shttp

# ---------------------------------------------------------------- original copy
_cookie_re = re.compile(
    r"""
    ([^=;]*)
    (?:\s*=\s*
      (
        "(?:[^\\"]|\\.)*"
      |
        .*?
      )
    )?
    \s*;\s*
    """,
    flags=re.ASCII | re.VERBOSE,
)
_cookie_unslash_re = re.compile(rb"\\([0-3][0-7]{2}|.)")


def orig_cookie_unslash_replace(m):
    v = m.group(1)

    if len(v) == 1:
        return v

    return int(v, 8).to_bytes(1, "big")


def orig_parse_cookie(cookie=None, cls=None):
    if cls is None:
        cls = ds.MultiDict

    if not cookie:
        return cls()

    cookie = f"{cookie};"
    out = []

    for ck, cv in _cookie_re.findall(cookie):
        ck = ck.strip()
        cv = cv.strip()

        if not ck:
            continue

        if len(cv) >= 2 and cv[0] == cv[-1] == '"':
            cv = _cookie_unslash_re.sub(
                orig_cookie_unslash_replace, cv[1:-1].encode()
            ).decode(errors="replace")

        out.append((ck, cv))

    return cls(out)


def orig_http_parse_cookie(header, cls=None):
    # copy of the (untouched) werkzeug.http.parse_cookie wrapper over the original
    if isinstance(header, dict):
        cookie = header.get("HTTP_COOKIE")
    else:
        cookie = header

    if cookie:
        cookie = cookie.encode("latin1").decode(errors="replace")

    return orig_parse_cookie(cookie=cookie, cls=cls)


# ---------------------------------------------------------------- generators
rng = random.Random(0xC132)

TOKENS = [
    '"', '""', '"a"', '\\', '\\\\', '\\"', ";", "; ", " ;", "=", " = ", ",", " ", "\t",
    "\n", "\r\n", "\x0b", "\x0c", "\x1c", "\x85", "\xa0", " ", "　", "\x00",
    "\x7f", "\xff", "é", "€", "\U0001f600", "\ud800", "\\073", "\\054", "\\377",
    "\\400", "\\37", "\\08", "\\0", "\\\n", "\\303\\251", "\\303", "\\200", "a", "b",
    "key", "value", "k=v", 'k="v"', 'k="a\\073b"', "k=", "=v", "k", '"k"="v"',
]


def gen_header():
    n = rng.randrange(0, 14)
    parts = []
    for _ in range(n):
        r = rng.random()
        if r < 0.75:
            parts.append(rng.choice(TOKENS))
        elif r < 0.9:
            parts.append(chr(rng.randrange(0, 256)))
        else:
            parts.append(chr(rng.randrange(0, 0x110000)))
    return "".join(parts)


def gen_value(maxlen=10):
    chars = []
    for _ in range(rng.randrange(0, maxlen)):
        r = rng.random()
        if r < 0.4:
            chars.append(rng.choice('";,\\ \t\r\n\x00\x7f=%abc019'))
        elif r < 0.8:
            chars.append(chr(rng.randrange(0, 256)))
        else:
            chars.append(chr(rng.randrange(0, 0x110000)))
    return "".join(chars)


def gen_dumped():
    pairs = []
    for _ in range(rng.randrange(1, 4)):
        try:
            pairs.append(
                dump_cookie(rng.choice(["a", "b", "sess", "kéy"]), gen_value(), path=None)
            )
        except UnicodeEncodeError:
            pairs.append("x=y")
    return rng.choice(["; ", ";", " ;  "]).join(pairs)


class ListCls(list):
    pass


CLASSES = [None, None, None, ds.MultiDict, ds.ImmutableMultiDict, dict, ListCls]


def norm(rv):
    if isinstance(rv, ds.MultiDict):
        return (type(rv), list(rv.items(multi=True)))
    if isinstance(rv, dict):
        return (type(rv), list(rv.items()))
    return (type(rv), list(rv))


def run(fn, *args, **kwargs):
    try:
        return ("ok", norm(fn(*args, **kwargs)))
    except BaseException as e:  # noqa: B036
        return ("exc", type(e), str(e))


def main():
    n = 0
    fails = 0

    def check(cookie, cls=None):
        nonlocal n, fails
        n += 1
        a = run(orig_parse_cookie, cookie, cls)
        b = run(shttp.parse_cookie, cookie, cls)
        # the public WSGI wrapper (latin1 -> utf-8 dance, then delegates to sansio)
        c = run(orig_http_parse_cookie, cookie, cls)
        d = run(http_parse_cookie, cookie, cls)
        if a != b or c != d:
            fails += 1
            if fails < 10:
                print("MISMATCH", repr(cookie), cls, a, b, c, d, sep="\n  ")

    # the unslash helper on every possible regex match
    for m_src in (
        [b"\\%03o" % v for v in range(256)]
        + [b"\\" + bytes([v]) for v in range(256)]
        + [b"\\%03o" % v + b"7" for v in range(256)]
        + [b"\\4%02o" % v for v in range(64)]
    ):
        n += 1
        a = _cookie_unslash_re.sub(orig_cookie_unslash_replace, m_src)
        b = shttp._cookie_unslash_re.sub(shttp._cookie_unslash_replace, m_src)
        if a != b:
            fails += 1
            print("UNSLASH MISMATCH", m_src, a, b)

    # odd / falsy / non-str inputs
    for odd in [None, "", ";", ";;", {"HTTP_COOKIE": 'a="\\303\\251"; b=\xc3\xa9'}, {}, "=", " ", b"k=v", b"", 0, 5, ["k=v"], '"', '""', 'k="',
                'k=""', 'k="""', 'k=" "', ' k = "v" ', 'k="v', 'k=v"', '"=""']:
        for cls in CLASSES:
            check(odd, cls)

    # every single character as a bare value, quoted value, escaped value, and key
    for cp in list(range(0, 0x800)) + [rng.randrange(0x800, 0x110000) for _ in range(800)]:
        ch = chr(cp)
        check(f"k={ch}")
        check(f'k="{ch}"')
        check(f'k="\\{ch}"')
        check(f"{ch}=v; a{ch}b=c{ch}d")
        check(f'k={ch}"x"{ch}')

    for _ in range(15000):
        check(gen_header(), rng.choice(CLASSES))

    for _ in range(5000):
        check(gen_dumped(), rng.choice(CLASSES))

    # round trip through dump_cookie still holds on the refactored parser
    for _ in range(4000):
        v = gen_value(16)
        try:
            header = dump_cookie("k", v, path=None)
        except UnicodeEncodeError:
            continue
        n += 1
        if shttp.parse_cookie(header).get("k") != v or orig_parse_cookie(header).get("k") != v:
            fails += 1
            print("ROUNDTRIP FAIL", repr(v), header)

    print(f"checked {n} inputs, {fails} mismatches")
    print("PASS" if fails == 0 else "FAIL")
    sys.exit(0 if fails == 0 else 1)


if __name__ == "__main__":
    main()
