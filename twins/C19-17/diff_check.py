"""Differential check for refactoring 2 (WSGIRequestHandler.make_environ).

Raw HTTP requests are generated, parsed by the real
BaseHTTPRequestHandler.parse_request, and make_environ from the worktree is
compared against a pasted copy of the original. Compared: the full environ
(items *in order*), the kind of wsgi.input (and what it wraps), the body read
through wsgi.input, client_address after the call, server.log calls and any
exception type/message.
"""

from __future__ import annotations

import http.client
import io
import random
import ssl
import sys
import typing as t
from urllib.parse import unquote
from urllib.parse import urlsplit

from werkzeug._internal import _wsgi_encoding_dance
from werkzeug.serving import DechunkedInput
from werkzeug.serving import WSGIRequestHandler


class NewHandler(WSGIRequestHandler):
    def __init__(self) -> None:  # no socket handling
        pass

    def log(self, *a: t.Any) -> None:  # keep stderr quiet
        pass


class OrigHandler(NewHandler):
    def make_environ(self):  # pasted from the unmodified tree
        request_url = urlsplit(self.path)
        url_scheme = "http" if self.server.ssl_context is None else "https"

        if not self.client_address:
            self.client_address = ("<local>", 0)
        elif isinstance(self.client_address, str):
            self.client_address = (self.client_address, 0)

        # If there was no scheme but the path started with two slashes,
        # the first segment may have been incorrectly parsed as the
        # netloc, prepend it to the path again.
        if not request_url.scheme and request_url.netloc:
            path_info = f"/{request_url.netloc}{request_url.path}"
        else:
            path_info = request_url.path

        path_info = unquote(path_info)

        environ = {
            "wsgi.version": (1, 0),
            "wsgi.url_scheme": url_scheme,
            "wsgi.input": self.rfile,
            "wsgi.errors": sys.stderr,
            "wsgi.multithread": self.server.multithread,
            "wsgi.multiprocess": self.server.multiprocess,
            "wsgi.run_once": False,
            "werkzeug.socket": self.connection,
            "SERVER_SOFTWARE": self.server_version,
            "REQUEST_METHOD": self.command,
            "SCRIPT_NAME": "",
            "PATH_INFO": _wsgi_encoding_dance(path_info),
            "QUERY_STRING": _wsgi_encoding_dance(request_url.query),
            # Non-standard, added by mod_wsgi, uWSGI
            "REQUEST_URI": _wsgi_encoding_dance(self.path),
            # Non-standard, added by gunicorn
            "RAW_URI": _wsgi_encoding_dance(self.path),
            "REMOTE_ADDR": self.address_string(),
            "REMOTE_PORT": self.port_integer(),
            "SERVER_NAME": self.server.server_address[0],
            "SERVER_PORT": str(self.server.server_address[1]),
            "SERVER_PROTOCOL": self.request_version,
        }

        for key, value in self.headers.items():
            if "_" in key:
                continue

            key = key.upper().replace("-", "_")
            value = value.replace("\r\n", "")
            if key not in ("CONTENT_TYPE", "CONTENT_LENGTH"):
                key = f"HTTP_{key}"
                if key in environ:
                    value = f"{environ[key]},{value}"
            environ[key] = value

        if environ.get("HTTP_TRANSFER_ENCODING", "").strip().lower() == "chunked":
            environ["wsgi.input_terminated"] = True
            environ["wsgi.input"] = DechunkedInput(environ["wsgi.input"])

        # Per RFC 2616, if the URL is absolute, use that as the host.
        # We're using "has a scheme" to indicate an absolute URL.
        if request_url.scheme and request_url.netloc:
            environ["HTTP_HOST"] = request_url.netloc

        try:
            # binary_form=False gives nicer information, but wouldn't be compatible with
            # what Nginx or Apache could return.
            peer_cert = self.connection.getpeercert(binary_form=True)
            if peer_cert is not None:
                # Nginx and Apache use PEM format.
                environ["SSL_CLIENT_CERT"] = ssl.DER_cert_to_PEM_cert(peer_cert)
        except ValueError:
            # SSL handshake hasn't finished.
            self.server.log("error", "Cannot fetch SSL peer certificate info")
        except AttributeError:
            # Not using TLS, the socket will not have getpeercert().
            pass

        return environ


assert "make_environ" not in NewHandler.__dict__
assert OrigHandler.make_environ is not WSGIRequestHandler.make_environ


class FakeServer:
    def __init__(self, rng: random.Random) -> None:
        self.ssl_context = rng.choice([None, None, object()])
        self.multithread = rng.choice([True, False])
        self.multiprocess = rng.choice([True, False])
        self.server_address = rng.choice(
            [("127.0.0.1", 5000), ("::1", 80), ("unix://sock", 0), ("localhost", 8443)]
        )
        self._server_version = "Werkzeug/test"
        self.logged: list[t.Any] = []

    def log(self, *a: t.Any) -> None:
        self.logged.append(a)


class PlainConn:
    pass


class CertConn:
    def __init__(self, mode: str) -> None:
        self.mode = mode

    def getpeercert(self, binary_form: bool = False) -> t.Any:
        assert binary_form is True
        if self.mode == "none":
            return None
        if self.mode == "der":
            return b"\x30\x82fake-der-bytes" * 5
        raise ValueError("handshake not done")


METHODS = ["GET", "POST", "HEAD", "PUT", "DELETE", "OPTIONS", "PATCH", "get", "FOO"]
TARGETS = [
    "/",
    "/index.html",
    "/a%20b/c%2Fd?x=1&y=%20z",
    "/caf%C3%A9?n=%E2%82%AC",
    "/bad%ff%fe?q=%ff",
    "/%",
    "/%zz%4",
    "//double/slash",
    "//double//slash?x=//y",
    "//host:80",
    "///triple",
    "http://example.com/abs/path?q=1",
    "http://example.com",
    "https://user:pw@example.com:8443/x%2Fy?z#frag",
    "HTTP://UPPER.example/",
    "http:/one-slash",
    "http:///nohost/path",
    "mailto:someone",
    "*",
    "/a?b?c#d",
    "/semi;params?x",
    "?only=query",
    "relative/path",
    "/a+b?c+d",
    "/tab%09nl%0Acr%0D",
    "/[brackets]",
    "//[::1]:5000/v6",
    "/café?ü=1",
    "/x#",
    "/x?",
]
NAMES = [
    "Host",
    "host",
    "Content-Type",
    "content-type",
    "CONTENT-LENGTH",
    "Content-Length",
    "Content_Type",
    "Content_Length",
    "X-Foo",
    "x-foo",
    "X_Foo",
    "X-Foo_Bar",
    "Transfer-Encoding",
    "transfer-encoding",
    "Transfer_Encoding",
    "Accept",
    "Cookie",
    "Content-Type-X",
    "Type",
    "Length",
    "Expect",
    "Connection",
    "X-é",
    "Wsgi.Input",
    "X.Dot",
]
VALUES = [
    "",
    "example.org",
    "text/plain; charset=utf-8",
    "12",
    "0",
    "a, b",
    "chunked",
    " chunked ",
    "Chunked",
    "CHUNKED\t",
    "gzip, chunked",
    "chunked, gzip",
    "identity",
    "folded\r\n continuation",
    "folded\r\n\tchunked",
    "café",
    "a=b; c=d",
    "x" * 50,
]


def gen_request(rng: random.Random) -> bytes:
    version = rng.choice(["HTTP/1.1"] * 6 + ["HTTP/1.0"] * 3 + ["", "HTTP/2.0", "HTTP/1.x"])
    target = rng.choice(TARGETS)
    if rng.random() < 0.25:
        # random percent / slash soup
        target = "".join(
            rng.choice(["/", "//", "%41", "%2f", "%e2%82%ac", "a", "?", "=", "&", ":", "%", "@", "#"])
            for _ in range(rng.randint(1, 10))
        )
        if rng.random() < 0.7:
            target = "/" + target
    line = f"{rng.choice(METHODS)} {target}"
    if version:
        line += f" {version}"
    out = [line]
    for _ in range(rng.randint(0, 8)):
        name = rng.choice(NAMES)
        value = rng.choice(VALUES)
        sep = rng.choice([": ", ":", ":  "])
        out.append(f"{name}{sep}{value}")
    body = rng.choice(
        [
            b"",
            b"hello world!",
            b"5\r\nhello\r\n0\r\n\r\n",
            b"3\r\nabc\r\n4\r\ndefg\r\n0\r\n\r\n",
            b"zz\r\nbroken",
        ]
    )
    return "\r\n".join(out).encode("latin1", "replace") + b"\r\n\r\n" + body


def describe_input(h: t.Any, stream: t.Any) -> t.Any:
    if stream is h.rfile:
        kind: t.Any = "rfile"
    elif type(stream) is DechunkedInput:
        kind = ("dechunked", stream._rfile is h.rfile, stream._len, stream._done)
    else:
        kind = ("other", type(stream))
    try:
        body: t.Any = stream.read()
    except Exception as e:  # noqa: BLE001
        body = (type(e), str(e))
    return kind, body


def run(cls: t.Any, raw: bytes, seed: int, direct: bool = False) -> t.Any:
    rng = random.Random(seed)
    h = cls()
    h.server = FakeServer(rng)
    h.client_address = rng.choice(
        [("10.0.0.1", 4242), ("::1", 1, 0, 0), "", "/tmp/unix.sock", (), None, ("h%1", 9)]
    )
    h.connection = rng.choice(
        [PlainConn(), PlainConn(), CertConn("none"), CertConn("der"), CertConn("err")]
    )
    h.rfile = io.BytesIO(raw)
    h.wfile = io.BytesIO()
    h.raw_requestline = h.rfile.readline(65537)
    if rng.random() < 0.1:
        # environ left over from a previous request on the same handler object
        h.environ = {"REMOTE_ADDR": "previous"}
    if direct:
        # Bypass http.server's request line handling (which e.g. collapses a
        # leading "//") and set the attributes make_environ reads directly.
        words = h.raw_requestline.decode("latin1").rstrip("\r\n").split(" ")
        h.command = words[0]
        h.path = words[1] if len(words) > 1 else ""
        h.request_version = words[2] if len(words) > 2 else "HTTP/0.9"
        h.requestline = " ".join(words)
        h.headers = http.client.parse_headers(h.rfile, _class=h.MessageClass)
    else:
        try:
            ok = h.parse_request()
        except Exception as e:  # noqa: BLE001
            return ("parse raised", type(e), str(e))
        if not ok:
            return ("parse rejected", h.wfile.getvalue()[:40])
    try:
        environ = h.make_environ()
    except Exception as e:  # noqa: BLE001
        return ("raised", type(e), str(e), h.client_address, h.server.logged)
    items = []
    for k, v in environ.items():
        if k == "wsgi.input":
            v = describe_input(h, v)
        elif k == "wsgi.errors":
            v = v is sys.stderr
        elif k == "werkzeug.socket":
            v = v is h.connection
        items.append((k, type(v), v))
    return ("ok", items, h.client_address, h.server.logged, h.path, h.command)


def main() -> int:
    rng = random.Random(19)
    errors = 0
    outcomes: dict[str, int] = {}
    chunked = 0
    n = 0
    for i in range(12000):
        raw = gen_request(rng)
        seed = rng.randrange(1 << 30)
        direct = i % 2 == 1
        a = run(OrigHandler, raw, seed, direct)
        b = run(NewHandler, raw, seed, direct)
        n += 1
        tag = f"{'direct' if direct else 'parsed'}:{a[0]}"
        outcomes[tag] = outcomes.get(tag, 0) + 1
        if a[0] == "ok" and any(k == "wsgi.input_terminated" for k, _, _ in a[1]):
            chunked += 1
        if a != b:
            errors += 1
            if errors < 5:
                print("MISMATCH", i, raw)
                print("  orig:", a)
                print("  new: ", b)
    print(f"cases={n} outcomes={outcomes} chunked={chunked} mismatches={errors}")
    print("PASS" if errors == 0 else "FAIL")
    return 0 if errors == 0 else 1


if __name__ == "__main__":
    sys.exit(main())
