"""Differential check for refactoring 1 (parse_accept_header: q parsing
extracted into _parse_accept_q).  Compares the worktree's
werkzeug.http.parse_accept_header against a pasted copy of the ORIGINAL."""
import random
import sys

from werkzeug import datastructures as ds
from werkzeug import http
from werkzeug.http import _q_value_re
from werkzeug.http import dump_options_header
from werkzeug.http import parse_list_header
from werkzeug.http import parse_options_header


def orig_parse_accept_header(value, cls=None):
    if cls is None:
        cls = ds.Accept

    if not value:
        return cls(None)

    result = []

    for item in parse_list_header(value):
        item, options = parse_options_header(item)

        if "q" in options:
            # pop q, remaining options are reconstructed
            q_str = options.pop("q").strip()

            if _q_value_re.fullmatch(q_str) is None:
                # ignore an invalid q
                continue

            q = float(q_str)

            if q < 0 or q > 1:
                # ignore an invalid q
                continue
        else:
            q = 1

        if options:
            # reconstruct the media type with any options
            item = dump_options_header(item, options)

        result.append((item, q))

    return cls(result)


VALUES = [
    "text/html", "text/*", "*/*", "*", "application/json", "application/xhtml+xml",
    "text/plain", "image/png", "en", "en-US", "en_us", "de", "de-DE", "fr", "zh-Hant-TW",
    "utf-8", "iso-8859-1", "latin1", "gzip", "br", "identity", "", " ", "*/html",
    "text", "a/b", "A/B", "TEXT/HTML",
]
QS = [
    "0", "1", "0.5", "0.0", "1.0", "1.000", "0.001", "0.999", "1.1", "2", "-0", "-0.0",
    "-1", "-0.5", "0.", ".5", "1e0", "1e-1", "nan", "inf", "-inf", "abc", "", " ", " 0.7 ",
    "0.7 ", "\t0.3", "0,5", "+1", "+0.5", "00.5", "01", "0.50000000000000001", "١", "٠.٥",
    "0x1", "1_0", "9" * 400, "0." + "9" * 400, "1.0000000000000001", "\"0.5\"", "\" 0.4 \"",
    "0.5;", "0 .5", "1\n", "0.5\x00", "²",
]
PARAMS = ["", ";level=1", ";charset=utf-8", "; version=\"1.0\"", ";a=b;c=d", ";Q-ish=1",
          ";q*=UTF-8''0.5", ";foo", ";level=2;level=3"]
QKEYS = ["q", "Q", " q", "q ", "q*0", "qq"]


def gen_item(rng):
    v = rng.choice(VALUES)
    parts = [v]
    before = rng.choice(PARAMS) if rng.random() < 0.4 else ""
    after = rng.choice(PARAMS) if rng.random() < 0.3 else ""
    parts.append(before)
    r = rng.random()
    if r < 0.75:
        key = "q" if rng.random() < 0.85 else rng.choice(QKEYS)
        sep = rng.choice(["=", " = ", "= ", " ="]) if rng.random() < 0.2 else "="
        q = rng.choice(QS) if rng.random() < 0.7 else f"{rng.random() * rng.choice([1, 1, 1.5]):.{rng.randint(0, 5)}f}"
        parts.append(f"{rng.choice([';', '; ', ' ;'])}{key}{sep}{q}")
        if rng.random() < 0.1:  # duplicate q
            parts.append(f";q={rng.choice(QS)}")
    parts.append(after)
    return "".join(parts)


def gen_header(rng):
    r = rng.random()
    if r < 0.02:
        return rng.choice([None, "", " ", ",", ",,", ";", ";q=1", "q=0.5"])
    n = rng.randint(1, 6)
    sep = rng.choice([",", ", ", " , "])
    h = sep.join(gen_item(rng) for _ in range(n))
    if rng.random() < 0.05:
        # random garbage mutation
        i = rng.randrange(len(h) + 1)
        h = h[:i] + rng.choice(['"', "\\", ";", ",", "=", "\x00", "é"]) + h[i:]
    return h


OFFERS = [
    ["text/html", "application/json"], ["application/json", "text/plain", "image/png"],
    ["en", "de", "fr"], ["en-US", "de-DE"], ["utf-8", "latin1"], ["gzip", "br", "identity"],
    ["text/html"], [],
]


def observe(fn, value, cls):
    try:
        if cls is None:
            acc = fn(value)
        else:
            acc = fn(value, cls)
    except BaseException as e:  # noqa: BLE001
        return ("EXC", type(e).__name__, str(e))
    out = [type(acc).__name__, acc.provided, [(v, type(q).__name__, repr(q)) for v, q in acc]]
    for thunk in (acc.to_header, lambda: repr(acc), lambda: acc.best):
        try:
            out.append(thunk())
        except BaseException as e:  # noqa: BLE001
            out.append(("EXC", type(e).__name__))
    for offers in OFFERS:
        try:
            out.append(acc.best_match(offers))
        except BaseException as e:  # noqa: BLE001
            out.append(("EXC", type(e).__name__))
    return out


def main():
    rng = random.Random(1717)
    classes = [None, ds.Accept, ds.MIMEAccept, ds.LanguageAccept, ds.CharsetAccept]
    n = 0
    accepted = skipped = 0
    for _ in range(12000):
        h = gen_header(rng)
        for cls in classes:
            a = observe(orig_parse_accept_header, h, cls)
            b = observe(http.parse_accept_header, h, cls)
            n += 1
            if a != b:
                print("FAIL", repr(h), cls, a, b)
                sys.exit(1)
        if isinstance(a, list):
            accepted += len(a[2])
    # direct unit comparisons of every q string
    for q in QS + [f"{i / 1000:.3f}" for i in range(0, 1500, 7)]:
        for tmpl in ("a;q={}", "a; q={}", "a;x=1;q={};y=2", "*;q={}", "a/b;q={}, c/d;q=0.5"):
            h = tmpl.format(q)
            for cls in classes:
                a = observe(orig_parse_accept_header, h, cls)
                b = observe(http.parse_accept_header, h, cls)
                n += 1
                if a != b:
                    print("FAIL", repr(h), cls, a, b)
                    sys.exit(1)
    print(f"compared {n} cases ({accepted} parsed items in last-class pass)")
    print("PASS")


if __name__ == "__main__":
    main()
