"""Differential check for refactoring 1 (matcher.StateMachineMatcher.match).

Run: cd /tmp/wt12-C12 && PYTHONPATH=/tmp/wt12-C12/src /venv/bin/python /tmp/twin7-C12/1/diff_check.py
"""
# --- shared input generator (pasted into every diff_check.py) -------------
import random
import re

from werkzeug.exceptions import HTTPException
from werkzeug.exceptions import MethodNotAllowed
from werkzeug.routing import Map
from werkzeug.routing import RequestRedirect
from werkzeug.routing import Rule
from werkzeug.routing import Submount
from werkzeug.routing import Subdomain

STATIC = ["a", "b", "foo", "bar.html", "x-y", "café", "a b", "%2f", ""]
DYNAMIC = [
    "<x>",
    "<int:n>",
    "<path:p>",
    "<string(length=2):s>",
    "<any(a,b,foo):c>",
    "<float:f>",
    "<int(signed=True):n>",
    "pre<x>",
    "<x>.html",
]
METHODS = [None, None, ["GET"], ["POST"], ["GET", "POST"], ["PUT", "DELETE"]]
TRI = [None, None, True, False]


def rand_template(rng):
    n = rng.randint(0, 4)
    segs = []
    used = set()
    for _ in range(n):
        if rng.random() < 0.55:
            segs.append(rng.choice(STATIC[:-1]))
        else:
            d = rng.choice(DYNAMIC)
            name = re.search(r"(\w+)>", d).group(1)
            if name in used:
                segs.append(rng.choice(STATIC[:-1]))
            else:
                used.add(name)
                segs.append(d)
    tpl = "/" + "/".join(segs)
    if segs and rng.random() < 0.45:
        tpl += "/"
    if rng.random() < 0.05:
        tpl = tpl.replace("/", "//", 1)
    return tpl


def rand_rule_spec(rng, endpoints):
    tpl = rand_template(rng)
    kw = {
        "endpoint": rng.choice(endpoints),
        "methods": rng.choice(METHODS),
        "strict_slashes": rng.choice(TRI),
        "merge_slashes": rng.choice(TRI),
    }
    r = rng.random()
    if r < 0.12:
        kw["alias"] = True
    elif r < 0.18:
        kw["build_only"] = True
    elif r < 0.24:
        kw["websocket"] = True
        if kw["methods"] is not None:
            kw["methods"] = ["GET"]
    elif r < 0.30:
        kw["redirect_to"] = rng.choice(["/target/<x>", "target", "//other.example/t"])
    if rng.random() < 0.3:
        kw["defaults"] = rng.choice(
            [{"n": 1}, {"x": "a"}, {"p": "a/b"}, {"n": 1, "x": "b"}, {"extra": 5}]
        )
    if rng.random() < 0.2:
        kw["subdomain"] = rng.choice(["", "www", "<sub>", "api"])
    return ("rule", tpl, kw)


CURATED = [
    # defaults canonicalisation
    [
        ("rule", "/page/", {"endpoint": "page", "defaults": {"n": 1}}),
        ("rule", "/page/<int:n>", {"endpoint": "page"}),
    ],
    [
        ("rule", "/page", {"endpoint": "page", "defaults": {"n": 1}}),
        ("rule", "/page/<int:n>/", {"endpoint": "page"}),
    ],
    [
        ("rule", "/p/<x>/", {"endpoint": "p", "defaults": {"n": 1}}),
        ("rule", "/p/<x>/<int:n>/", {"endpoint": "p"}),
        ("rule", "/p/<x>/<int:n>/edit", {"endpoint": "p", "methods": ["POST"]}),
    ],
    # alias canonicalisation
    [
        ("rule", "/old/<x>", {"endpoint": "e", "alias": True}),
        ("rule", "/new/<x>", {"endpoint": "e"}),
    ],
    [
        ("rule", "/old/<x>/", {"endpoint": "e", "alias": True}),
        ("rule", "/new/<path:x>/", {"endpoint": "e"}),
    ],
    [
        ("rule", "/users/", {"endpoint": "users", "defaults": {"n": 1}}),
        ("rule", "/users/page/<int:n>", {"endpoint": "users"}),
        ("rule", "/users/index.html", {"endpoint": "users", "defaults": {"n": 1},
                                       "alias": True}),
    ],
    # lone alias -> assertion/build error
    [("rule", "/lonely/<x>", {"endpoint": "lonely", "alias": True})],
    # slashes
    [
        ("rule", "/", {"endpoint": "index"}),
        ("rule", "/a/", {"endpoint": "a"}),
        ("rule", "/a/b", {"endpoint": "ab"}),
        ("rule", "/<path:p>/", {"endpoint": "catch"}),
    ],
    [
        ("rule", "/a/", {"endpoint": "a", "methods": ["POST"]}),
        ("rule", "/a", {"endpoint": "a2", "methods": ["GET"], "strict_slashes": False}),
    ],
    [
        ("rule", "/m/<x>/", {"endpoint": "m", "merge_slashes": False}),
        ("rule", "/m2/<x>/", {"endpoint": "m2", "merge_slashes": True}),
        ("rule", "/ws/", {"endpoint": "ws", "websocket": True}),
    ],
    [
        ("rule", "/<x>/", {"endpoint": "sub", "subdomain": "<sub>"}),
        ("rule", "/a/", {"endpoint": "www", "subdomain": "www",
                         "defaults": {"x": "a"}}),
        ("rule", "/b/<x>/", {"endpoint": "www", "subdomain": "www"}),
    ],
]

SERVER_NAMES = ["example.com", "localhost:5000", "exämple.org", "[::1]:80"]
SCRIPT_NAMES = [None, "/", "/app", "/app/", "app", "//evil.example", "/a/b/", ""]
SUBDOMAINS = [None, None, "", "www", "api", "a.b"]
SCHEMES = ["http", "https", "ws", "wss", "", "HTTP"]
QUERY = [
    None,
    None,
    "",
    "a=1&b=2",
    "next=//evil.example/",
    "q=a%20b",
    {},
    {"q": "x y"},
    {"a": ["1", "2"], "b": "é"},
    {"n": 3, "none": None},
]
REQ_METHODS = [None, "GET", "get", "POST", "PUT", "HEAD", "OPTIONS", "--"]
PATH_SEGS = [
    "a", "b", "foo", "bar.html", "x-y", "café", "a b", "%2f", "1", "2", "-1",
    "01", "1.5", "ab", "page", "p", "old", "new", "users", "index.html", "m", "m2",
    "ws", "evil.example", "lonely", "edit", "prea", "c.html", "\\evil.example",
    "@evil.example", ":80", "..", ".", "?", "#", "a;b", "", "",
]


def rand_path(rng):
    r = rng.random()
    if r < 0.03:
        return None
    if r < 0.06:
        return ""
    n = rng.randint(0, 5)
    segs = [rng.choice(PATH_SEGS) for _ in range(n)]
    lead = rng.choice(["/", "/", "/", "", "//", "///", "/\\"])
    trail = rng.choice(["", "", "/", "//"])
    return lead + "/".join(segs) + trail


FILL = {
    "x": ["a", "b", "foo", "a b", "café", "evil.example"],
    "n": ["1", "2", "01", "-1", "x"],
    "p": ["a/b", "a", "a//b", "evil.example/a"],
    "s": ["ab", "abc"],
    "c": ["a", "foo", "zzz"],
    "f": ["1.5", "1"],
    "sub": ["www"],
    "host": ["example.com"],
}


def path_from_spec(rng, spec):
    """A request path derived from one of the rules, with slash mutations."""
    if not spec:
        return rand_path(rng)
    tpl = rng.choice(spec)[1]
    path = re.sub(
        r"<[^>]*?(\w+)>", lambda m: rng.choice(FILL.get(m.group(1), ["a"])), tpl
    )
    for _ in range(rng.randint(0, 2)):
        r = rng.random()
        if r < 0.3:
            path = path.rstrip("/")
        elif r < 0.5:
            path = path + "/"
        elif r < 0.7 and "/" in path:
            idx = rng.choice([i for i, ch in enumerate(path) if ch == "/"])
            path = path[:idx] + "/" * rng.randint(2, 3) + path[idx + 1 :]
        elif r < 0.8:
            path = path.lstrip("/")
        elif r < 0.9:
            path = "//" + path.lstrip("/")
    return path


def build_map(spec, map_kw):
    rules = []
    for item in spec:
        kind, tpl, kw = item
        rules.append(Rule(tpl, **{k: (dict(v) if isinstance(v, dict) else v)
                                  for k, v in kw.items()}))
    return Map(rules, **map_kw)


def rand_case(rng):
    spec = []
    if rng.random() < 0.7:
        for group in rng.sample(CURATED, rng.randint(1, 3)):
            for kind, tpl, kw in group:
                kw = dict(kw)
                if rng.random() < 0.15:
                    kw["strict_slashes"] = rng.choice(TRI)
                if rng.random() < 0.15:
                    kw["merge_slashes"] = rng.choice(TRI)
                spec.append((kind, tpl, kw))
    endpoints = ["e1", "e2", "e3", "page", "e"]
    for _ in range(rng.randint(0, 6)):
        spec.append(rand_rule_spec(rng, endpoints))
    rng.shuffle(spec)
    map_kw = {
        "strict_slashes": rng.random() < 0.8,
        "merge_slashes": rng.random() < 0.8,
        "redirect_defaults": rng.random() < 0.85,
    }
    if rng.random() < 0.15:
        map_kw["host_matching"] = True
        spec = [
            (k, t_, {**{a: b for a, b in kw.items() if a != "subdomain"},
                     "host": rng.choice(["example.com", "<host>", "www.example.com",
                                         "localhost:5000"])})
            for k, t_, kw in spec
        ]
    elif rng.random() < 0.2:
        map_kw["default_subdomain"] = rng.choice(["www", "api"])
    bind_kw = {
        "server_name": rng.choice(SERVER_NAMES),
        "script_name": rng.choice(SCRIPT_NAMES),
        "subdomain": None if map_kw.get("host_matching") else rng.choice(SUBDOMAINS),
        "url_scheme": rng.choice(SCHEMES),
        "default_method": rng.choice(["GET", "GET", "POST"]),
        "path_info": rng.choice([None, None, "/a", "a/", "//page"]),
        "query_args": rng.choice(QUERY),
    }
    calls = []
    for _ in range(rng.randint(4, 10)):
        calls.append(
            {
                "path_info": (
                    path_from_spec(rng, spec) if rng.random() < 0.7 else rand_path(rng)
                ),
                "method": rng.choice(REQ_METHODS),
                "return_rule": rng.random() < 0.3,
                "query_args": rng.choice(QUERY),
                "websocket": rng.choice([None, None, None, True, False]),
            }
        )
    return spec, map_kw, bind_kw, calls


def freeze(v):
    if isinstance(v, dict):
        return ("dict", tuple((k, freeze(x)) for k, x in v.items()))
    if isinstance(v, (list, tuple)):
        return (type(v).__name__, tuple(freeze(x) for x in v))
    if isinstance(v, (set, frozenset)):
        return ("set", tuple(sorted(map(repr, v))))
    if isinstance(v, Rule):
        return ("Rule", v.rule, repr(v))
    return (type(v).__name__, repr(v))


def outcome(fn, *args, **kwargs):
    """Run fn and describe result or raised exception in a comparable form."""
    try:
        rv = fn(*args, **kwargs)
    except RequestRedirect as e:
        return ("RequestRedirect", e.new_url, e.code)
    except MethodNotAllowed as e:
        return ("MethodNotAllowed", tuple(e.valid_methods))
    except HTTPException as e:
        return (type(e).__name__, e.code)
    except BaseException as e:  # noqa: B036
        attrs = {
            name: getattr(e, name)
            for name in (
                "path_info",
                "have_match_for",
                "websocket_mismatch",
                "matched_values",
                "endpoint",
            )
            if hasattr(e, name)
        }
        return (type(e).__name__, repr(getattr(e, "args", None)), freeze(attrs))
    return ("ok", freeze(rv))
# --- end shared input generator --------------------------------------------


# --- ORIGINAL implementation (copied from the unmodified tree) -------------
import typing as t

from werkzeug.routing import matcher as matcher_mod
from werkzeug.routing.converters import ValidationError
from werkzeug.routing.exceptions import NoMatch
from werkzeug.routing.exceptions import RequestAliasRedirect
from werkzeug.routing.exceptions import RequestPath
from werkzeug.routing.matcher import SlashRequired
from werkzeug.routing.matcher import State
from werkzeug.routing.matcher import StateMachineMatcher


class OrigMatcher(StateMachineMatcher):
    def match(
        self, domain: str, path: str, method: str, websocket: bool
    ) -> tuple[Rule, t.MutableMapping[str, t.Any]]:
        # To match to a rule we need to start at the root state and
        # try to follow the transitions until we find a match, or find
        # there is no transition to follow.

        have_match_for = set()
        websocket_mismatch = False

        def _match(
            state: State, parts: list[str], values: list[str]
        ) -> tuple[Rule, list[str]] | None:
            # This function is meant to be called recursively, and will attempt
            # to match the head part to the state's transitions.
            nonlocal have_match_for, websocket_mismatch

            # The base case is when all parts have been matched via
            # transitions. Hence if there is a rule with methods &
            # websocket that work return it and the dynamic values
            # extracted.
            if parts == []:
                for rule in state.rules:
                    if rule.methods is not None and method not in rule.methods:
                        have_match_for.update(rule.methods)
                    elif rule.websocket != websocket:
                        websocket_mismatch = True
                    else:
                        return rule, values

                # Test if there is a match with this path with a
                # trailing slash, if so raise an exception to report
                # that matching is possible with an additional slash
                if "" in state.static:
                    for rule in state.static[""].rules:
                        if websocket == rule.websocket and (
                            rule.methods is None or method in rule.methods
                        ):
                            if rule.strict_slashes:
                                raise SlashRequired()
                            else:
                                return rule, values
                        elif (
                            not rule.strict_slashes
                            and rule.methods is not None
                            and method not in rule.methods
                        ):
                            have_match_for.update(rule.methods)
                return None

            part = parts[0]
            # To match this part try the static transitions first
            if part in state.static:
                rv = _match(state.static[part], parts[1:], values)
                if rv is not None:
                    return rv
            # No match via the static transitions, so try the dynamic
            # ones.
            for test_part, new_state in state.dynamic:
                target = part
                remaining = parts[1:]
                # A final part indicates a transition that always
                # consumes the remaining parts i.e. transitions to a
                # final state.
                if test_part.final:
                    target = "/".join(parts)
                    remaining = []
                match = re.compile(test_part.content).match(target)
                if match is not None:
                    if test_part.suffixed:
                        # If a part_isolating=False part has a slash suffix, remove the
                        # suffix from the match and check for the slash redirect next.
                        suffix = match.groups()[-1]
                        if suffix == "/":
                            remaining = [""]

                    converter_groups = sorted(
                        match.groupdict().items(), key=lambda entry: entry[0]
                    )
                    groups = [
                        value
                        for key, value in converter_groups
                        if key[:11] == "__werkzeug_"
                    ]
                    rv = _match(new_state, remaining, values + groups)
                    if rv is not None:
                        return rv

            # If there is no match and the only part left is a
            # trailing slash ("") consider rules that aren't
            # strict-slashes as these should match if there is a final
            # slash part.
            if parts == [""]:
                for rule in state.rules:
                    if rule.strict_slashes:
                        continue
                    if rule.methods is not None and method not in rule.methods:
                        have_match_for.update(rule.methods)
                    elif rule.websocket != websocket:
                        websocket_mismatch = True
                    else:
                        return rule, values

            return None

        try:
            rv = _match(self._root, [domain, *path.split("/")], [])
        except SlashRequired:
            raise RequestPath(f"{path}/") from None

        if self.merge_slashes and rv is None:
            # Try to match again, but with slashes merged
            path = re.sub("/{2,}?", "/", path)
            try:
                rv = _match(self._root, [domain, *path.split("/")], [])
            except SlashRequired:
                raise RequestPath(f"{path}/") from None
            if rv is None or rv[0].merge_slashes is False:
                raise NoMatch(have_match_for, websocket_mismatch)
            else:
                raise RequestPath(f"{path}")
        elif rv is not None:
            rule, values = rv

            result = {}
            for name, value in zip(rule._converters.keys(), values):
                try:
                    value = rule._converters[name].to_python(value)
                except ValidationError:
                    raise NoMatch(have_match_for, websocket_mismatch) from None
                result[str(name)] = value
            if rule.defaults:
                result.update(rule.defaults)

            if rule.alias and rule.map.redirect_defaults:
                raise RequestAliasRedirect(result, rule.endpoint)

            return rule, result

        raise NoMatch(have_match_for, websocket_mismatch)


# --- end ORIGINAL -----------------------------------------------------------

assert matcher_mod.__file__.startswith("/tmp/wt12-C12/"), matcher_mod.__file__

DOMAINS = ["", "", "", "www", "www", "api", "example.com", "www.example.com", "localhost:5000", "x"]


def main():
    rng = random.Random(12012)
    n_cases = n_calls = n_direct = 0
    kinds = {}
    for _ in range(1500):
        spec, map_kw, bind_kw, calls = rand_case(rng)
        built = []
        for use_orig in (False, True):
            try:
                m = build_map(spec, map_kw)
            except Exception as e:  # invalid rule combination
                built.append(("error", type(e).__name__, str(e)))
                continue
            assert type(m._matcher) is StateMachineMatcher
            if use_orig:
                m._matcher.__class__ = OrigMatcher
            built.append(m)
        if not isinstance(built[0], Map) or not isinstance(built[1], Map):
            assert built[0] == built[1], (spec, built)
            continue
        new_map, old_map = built
        n_cases += 1
        # direct matcher calls
        new_map.update()
        old_map.update()
        for _ in range(8):
            path = path_from_spec(rng, spec) if rng.random() < 0.7 else rand_path(rng)
            if path is None:
                path = "/"
            elif rng.random() < 0.7:
                path = f"/{path.lstrip('/')}" if path else ""
            args = (
                rng.choice(DOMAINS),
                path,
                rng.choice(["GET", "POST", "PUT", "HEAD", "--"]),
                rng.random() < 0.2,
            )
            a = outcome(new_map._matcher.match, *args)
            b = outcome(old_map._matcher.match, *args)
            assert a == b, ("matcher", spec, map_kw, args, a, b)
            kinds[a[0]] = kinds.get(a[0], 0) + 1
            n_direct += 1
        # through the adapter
        adapters = []
        for m in (new_map, old_map):
            adapters.append(outcome(m.bind, **bind_kw))
        if adapters[0][0] != "ok":
            assert adapters[0] == adapters[1]
            continue
        new_ad = new_map.bind(**bind_kw)
        old_ad = old_map.bind(**bind_kw)
        for call in calls:
            a = outcome(new_ad.match, **call)
            b = outcome(old_ad.match, **call)
            assert a == b, ("adapter", spec, map_kw, bind_kw, call, a, b)
            kinds[a[0]] = kinds.get(a[0], 0) + 1
            n_calls += 1
    print(f"maps={n_cases} matcher_calls={n_direct} adapter_calls={n_calls}")
    print("outcome kinds:", dict(sorted(kinds.items())))
    assert n_direct + n_calls > 5000
    assert kinds.get("RequestPath", 0) > 100 and kinds.get("RequestRedirect", 0) > 100
    print("PASS")


if __name__ == "__main__":
    main()
