"""Differential check for refactoring 2 (C06).

Compares the refactored werkzeug.http.parse_dict_header and
werkzeug.http.parse_options_header (imported from the worktree) against
verbatim copies of the ORIGINAL implementations pasted below, on generated
header strings, and on dump_header / dump_options_header round trips.
Also checks parse_cache_control_header (a caller of parse_dict_header).

Run: cd /tmp/wt9-C06 && PYTHONPATH=/tmp/wt9-C06/src /venv/bin/python /tmp/twin5-C06/2/diff_check.py
"""

from __future__ import annotations

import random
import re
import sys
from urllib.parse import quote
from urllib.parse import unquote

from werkzeug import http
from werkzeug.http import parse_list_header

# ---------------------------------------------------------------- ORIGINALS
_parameter_key_re = re.compile(r"([\w!#$%&'*+\-.^`|~]+)=", flags=re.ASCII)
_parameter_token_value_re = re.compile(r"[\w!#$%&'*+\-.^`|~]+", flags=re.ASCII)
_charset_value_re = re.compile(
    r"""
    ([\w!#$%&*+\-.^`|~]*)'  # charset part, could be empty
    [\w!#$%&*+\-.^`|~]*'  # don't care about language part, usually empty
    ([\w!#$%&'*+\-.^`|~]+)  # one or more token chars with percent encoding
    """,
    re.ASCII | re.VERBOSE,
)
_continuation_re = re.compile(r"\*(\d+)$", re.ASCII)


def orig_parse_dict_header(value):
    result = {}

    for item in parse_list_header(value):
        key, has_value, value = item.partition("=")
        key = key.strip()

        if not key:
            # =value is not valid
            continue

        if not has_value:
            result[key] = None
            continue

        value = value.strip()
        encoding = None

        if key[-1] == "*":
            key = key[:-1]
            match = _charset_value_re.match(value)

            if match:
                encoding, value = match.groups()
                encoding = encoding.lower()

            if encoding in {"ascii", "us-ascii", "utf-8", "iso-8859-1"}:
                value = unquote(value, encoding=encoding)

        if len(value) >= 2 and value[0] == value[-1] == '"':
            value = value[1:-1]

        result[key] = value

    return result


def orig_parse_options_header(value):
    if value is None:
        return "", {}

    value, _, rest = value.partition(";")
    value = value.strip()
    rest = rest.strip()

    if not value or not rest:
        return value, {}

    parts = []

    while True:
        if (m := _parameter_key_re.match(rest)) is not None:
            pk = m.group(1).lower()
            rest = rest[m.end() :]

            if (m := _parameter_token_value_re.match(rest)) is not None:
                parts.append((pk, m.group()))

            elif rest[:1] == '"':
                pos = 1
                length = len(rest)

                while pos < length:
                    if rest[pos : pos + 2] in {"\\\\", '\\"'}:
                        pos += 2
                    elif rest[pos] == '"':
                        parts.append((pk, rest[: pos + 1]))
                        rest = rest[pos + 1 :]
                        break
                    else:
                        pos += 1

        if (end := rest.find(";")) == -1:
            break

        rest = rest[end + 1 :].lstrip()

    options = {}
    encoding = None
    continued_encoding = None

    for pk, pv in parts:
        if pk[-1] == "*":
            pk = pk[:-1]
            match = _charset_value_re.match(pv)

            if match:
                encoding, pv = match.groups()
                encoding = encoding.lower()

            if not encoding:
                encoding = continued_encoding

            if encoding in {"ascii", "us-ascii", "utf-8", "iso-8859-1"}:
                continued_encoding = encoding
                pv = unquote(pv, encoding=encoding)

        if pv[0] == pv[-1] == '"':
            pv = pv[1:-1].replace("\\\\", "\\").replace('\\"', '"').replace("%22", '"')

        match = _continuation_re.search(pk)

        if match:
            pk = pk[: match.start()]

        if not pk:
            continue

        if match:
            options[pk] = options.get(pk, "") + pv
        else:
            options[pk] = pv

    return value, options


# ---------------------------------------------------------------- helpers
def run(fn, *args):
    try:
        r = fn(*args)
    except BaseException as e:  # noqa: B036
        return ("exc", type(e))
    if isinstance(r, dict):
        # order of insertion is observable too
        return ("ok", list(r.items()))
    if isinstance(r, tuple) and len(r) == 2 and isinstance(r[1], dict):
        return ("ok", (r[0], list(r[1].items())))
    return ("ok", r)


rnd = random.Random(60602)

KEYS = ["a", "b", "max-age", "filename", "filename*", "title*", "*", "**", "a*0", "a*1",
        "a*0*", "a*1*", "*0", "*0*", "", " ", "k e y", "Key", "KEY*", '"q"', "realm", "x*"]
CHARSETS = ["UTF-8", "utf-8", "ascii", "US-ASCII", "iso-8859-1", "ISO-8859-1", "latin1",
            "utf-16", "", "x", "UTF-8 "]
RAW = ["", "v", "val", "a b", '"', '""', '"quoted"', '"a, b"', '"a\\"b"', '"a\\\\"', '"open',
       "close\"", "%E2%82%AC", "%e2%82%ac%20rates", "%FF%FE", "na%C3%AFve", "€", "é",
       "'", "''", "'''", "x'y'z", "=", "==", "a=b", "%22", '"%22"', "\\", '"\\"', "123",
       "*", " spaced ", "\t", '" "', '"="', "tok-en.1"]
SEPS = [",", ", ", " , ", ",,", ";", "; ", " ;", ";;"]
ALPHA = "ab*=;,\"'\\ %2E0-1utf8UTF" + "é"


def gen_value():
    if rnd.random() < 0.5:
        return rnd.choice(RAW)
    return "".join(rnd.choice(ALPHA) for _ in range(rnd.randint(0, 8)))


def gen_item():
    r = rnd.random()
    key = rnd.choice(KEYS)
    if r < 0.12:
        return key
    if r < 0.45:
        cs = rnd.choice(CHARSETS)
        lang = rnd.choice(["", "", "en", "en-US", "x y"])
        return f"{key}={cs}'{lang}'{gen_value()}"
    if r < 0.5:
        return f"={gen_value()}"
    ws1 = rnd.choice(["", "", " "])
    ws2 = rnd.choice(["", "", " "])
    return f"{key}{ws1}={ws2}{gen_value()}"


def gen_header(seps):
    r = rnd.random()
    if r < 0.1:
        return "".join(rnd.choice(ALPHA + ",;") for _ in range(rnd.randint(0, 20)))
    n = rnd.randint(0, 5)
    out = ""
    for i in range(n):
        if i:
            out += rnd.choice(seps)
        out += gen_item()
    return out


failures = 0
n = 0


def check(label, fa, fb, arg):
    global failures, n
    a = run(fa, arg)
    b = run(fb, arg)
    n += 1
    if a != b:
        failures += 1
        if failures < 15:
            print("MISMATCH", label, repr(arg), a, b)
    return b


# 1) raw generated headers through both parsers
for _ in range(40000):
    h = gen_header(SEPS)
    check("dict", orig_parse_dict_header, http.parse_dict_header, h)
    main = rnd.choice(["text/html", "form-data", "attachment", "", " ", "a/b "])
    oh = main + rnd.choice([";", "; ", " ;", ""]) + gen_header([";", "; ", " ; ", ";;"])
    check("options", orig_parse_options_header, http.parse_options_header, oh)

# 2) explicit RFC 2231 cases
for cs in CHARSETS:
    for val in RAW:
        for key in ["filename*", "a*0*", "a*", "*", "k*1*"]:
            item = f"{key}={cs}''{val}"
            check("dict", orig_parse_dict_header, http.parse_dict_header, item)
            check("dict", orig_parse_dict_header, http.parse_dict_header, f"x=1, {item}, y")
            check("options", orig_parse_options_header, http.parse_options_header,
                  f"attachment; {item}")
            check("options", orig_parse_options_header, http.parse_options_header,
                  f"attachment; {item}; a*1*={quote(val)}; b*=%41")

# 3) non-str / None inputs: exception types must agree
for v in [None, "", 0, b"a=b", ["a=b"], 1.5]:
    check("dict non-str", orig_parse_dict_header, http.parse_dict_header, v)
    check("options non-str", orig_parse_options_header, http.parse_options_header, v)

# 4) round trips: dump then parse, and parse as a normal form
VALS = [None, "", "v", "a b", 'q"uote', "back\\slash", "a, b", "a; b", "tok", 5, 0, "é",
        "UTF-8''%E2%82%AC", "=", "x=y", '"', "*"]
for _ in range(10000):
    d = {rnd.choice(["a", "b", "c", "max-age", "f*", "no-cache", "k*"]): rnd.choice(VALS)
         for _ in range(rnd.randint(0, 4))}
    h = http.dump_header(d)
    p = check("dict roundtrip", orig_parse_dict_header, http.parse_dict_header, h)
    if p[0] == "ok":
        h2 = http.dump_header(dict(p[1]))
        check("dict normal form", orig_parse_dict_header, http.parse_dict_header, h2)
    oh = http.dump_options_header(rnd.choice(["text/plain", "form-data", None, ""]), d)
    p = check("options roundtrip", orig_parse_options_header, http.parse_options_header, oh)
    if p[0] == "ok":
        oh2 = http.dump_options_header(p[1][0], dict(p[1][1]))
        check("options normal form", orig_parse_options_header, http.parse_options_header, oh2)

    # caller of parse_dict_header
    for cls in (http.ds.RequestCacheControl, http.ds.ResponseCacheControl):
        got = http.parse_cache_control_header(h, cls=cls)
        exp = orig_parse_dict_header(h) if h else {}
        n += 1
        if list(got.items()) != list(exp.items()):
            failures += 1
            print("MISMATCH cache-control", repr(h), dict(got), exp)

print(f"{n} comparisons, {failures} mismatches")
print("PASS" if failures == 0 else "FAIL")
sys.exit(0 if failures == 0 else 1)
