#!/usr/bin/env python
"""Differential check for C18 refactoring 3 (_ProxyLookup.__get__ / LocalProxy.__init__: try-else, conditional expressions, flipped conditions, reordered independent statements).

Run as:
    cd /tmp/wt3-C18 && PYTHONPATH=/tmp/wt3-C18/src /venv/bin/python /tmp/twin-C18/3/diff_check.py

The ORIGINAL src/werkzeug/local.py (unmodified tree, HEAD) is pasted below as
ORIG_SOURCE and executed as a second module next to the refactored
``werkzeug.local`` imported from the worktree.  Both are driven with the same
randomly generated programs of context-local operations over several execution
contexts and every result, raised exception (type and message), per-context
state and object-identity pattern (which stored dict/list objects are shared
between contexts, i.e. the copy-on-write behaviour) is compared.

Four drivers are used:
  * copied ``contextvars.Context`` objects (``copy_context`` / ``Context.run``),
  * real threads stepped in a deterministic interleaving,
  * asyncio tasks stepped in a deterministic interleaving,
  * free running threads (nondeterministic interleaving, own-context traces).

Prints PASS only if everything is identical, and only if a deliberately broken
copy of the original (a mutant of the code touched by the refactoring) IS
detected by the same harness.
"""
from __future__ import annotations

import asyncio
import contextvars
import copy
import queue
import random
import re
import sys
import threading
import types

ORIG_SOURCE = r'''from __future__ import annotations

import copy
import math
import operator
import typing as t
from contextvars import ContextVar
from functools import partial
from functools import update_wrapper
from operator import attrgetter

from .wsgi import ClosingIterator

if t.TYPE_CHECKING:
    from _typeshed.wsgi import StartResponse
    from _typeshed.wsgi import WSGIApplication
    from _typeshed.wsgi import WSGIEnvironment

T = t.TypeVar("T")
F = t.TypeVar("F", bound=t.Callable[..., t.Any])


def release_local(local: Local | LocalStack[t.Any]) -> None:
    """Release the data for the current context in a :class:`Local` or
    :class:`LocalStack` without using a :class:`LocalManager`.

    This should not be needed for modern use cases, and may be removed
    in the future.

    .. versionadded:: 0.6.1
    """
    local.__release_local__()


class Local:
    """Create a namespace of context-local data. This wraps a
    :class:`ContextVar` containing a :class:`dict` value.

    This may incur a performance penalty compared to using individual
    context vars, as it has to copy data to avoid mutating the dict
    between nested contexts.

    :param context_var: The :class:`~contextvars.ContextVar` to use as
        storage for this local. If not given, one will be created.
        Context vars not created at the global scope may interfere with
        garbage collection.

    .. versionchanged:: 2.0
        Uses ``ContextVar`` instead of a custom storage implementation.
    """

    __slots__ = ("__storage",)

    def __init__(self, context_var: ContextVar[dict[str, t.Any]] | None = None) -> None:
        if context_var is None:
            # A ContextVar not created at global scope interferes with
            # Python's garbage collection. However, a local only makes
            # sense defined at the global scope as well, in which case
            # the GC issue doesn't seem relevant.
            context_var = ContextVar(f"werkzeug.Local<{id(self)}>.storage")

        object.__setattr__(self, "_Local__storage", context_var)

    def __iter__(self) -> t.Iterator[tuple[str, t.Any]]:
        return iter(self.__storage.get({}).items())

    def __call__(
        self, name: str, *, unbound_message: str | None = None
    ) -> LocalProxy[t.Any]:
        """Create a :class:`LocalProxy` that access an attribute on this
        local namespace.

        :param name: Proxy this attribute.
        :param unbound_message: The error message that the proxy will
            show if the attribute isn't set.
        """
        return LocalProxy(self, name, unbound_message=unbound_message)

    def __release_local__(self) -> None:
        self.__storage.set({})

    def __getattr__(self, name: str) -> t.Any:
        values = self.__storage.get({})

        if name in values:
            return values[name]

        raise AttributeError(name)

    def __setattr__(self, name: str, value: t.Any) -> None:
        values = self.__storage.get({}).copy()
        values[name] = value
        self.__storage.set(values)

    def __delattr__(self, name: str) -> None:
        values = self.__storage.get({})

        if name in values:
            values = values.copy()
            del values[name]
            self.__storage.set(values)
        else:
            raise AttributeError(name)


class LocalStack(t.Generic[T]):
    """Create a stack of context-local data. This wraps a
    :class:`ContextVar` containing a :class:`list` value.

    This may incur a performance penalty compared to using individual
    context vars, as it has to copy data to avoid mutating the list
    between nested contexts.

    :param context_var: The :class:`~contextvars.ContextVar` to use as
        storage for this local. If not given, one will be created.
        Context vars not created at the global scope may interfere with
        garbage collection.

    .. versionchanged:: 2.0
        Uses ``ContextVar`` instead of a custom storage implementation.

    .. versionadded:: 0.6.1
    """

    __slots__ = ("_storage",)

    def __init__(self, context_var: ContextVar[list[T]] | None = None) -> None:
        if context_var is None:
            # A ContextVar not created at global scope interferes with
            # Python's garbage collection. However, a local only makes
            # sense defined at the global scope as well, in which case
            # the GC issue doesn't seem relevant.
            context_var = ContextVar(f"werkzeug.LocalStack<{id(self)}>.storage")

        self._storage = context_var

    def __release_local__(self) -> None:
        self._storage.set([])

    def push(self, obj: T) -> list[T]:
        """Add a new item to the top of the stack."""
        stack = self._storage.get([]).copy()
        stack.append(obj)
        self._storage.set(stack)
        return stack

    def pop(self) -> T | None:
        """Remove the top item from the stack and return it. If the
        stack is empty, return ``None``.
        """
        stack = self._storage.get([])

        if len(stack) == 0:
            return None

        rv = stack[-1]
        self._storage.set(stack[:-1])
        return rv

    @property
    def top(self) -> T | None:
        """The topmost item on the stack.  If the stack is empty,
        `None` is returned.
        """
        stack = self._storage.get([])

        if len(stack) == 0:
            return None

        return stack[-1]

    def __call__(
        self, name: str | None = None, *, unbound_message: str | None = None
    ) -> LocalProxy[t.Any]:
        """Create a :class:`LocalProxy` that accesses the top of this
        local stack.

        :param name: If given, the proxy access this attribute of the
            top item, rather than the item itself.
        :param unbound_message: The error message that the proxy will
            show if the stack is empty.
        """
        return LocalProxy(self, name, unbound_message=unbound_message)


class LocalManager:
    """Manage releasing the data for the current context in one or more
    :class:`Local` and :class:`LocalStack` objects.

    This should not be needed for modern use cases, and may be removed
    in the future.

    :param locals: A local or list of locals to manage.

    .. versionchanged:: 2.1
        The ``ident_func`` was removed.

    .. versionchanged:: 0.7
        The ``ident_func`` parameter was added.

    .. versionchanged:: 0.6.1
        The :func:`release_local` function can be used instead of a
        manager.
    """

    __slots__ = ("locals",)

    def __init__(
        self,
        locals: None
        | (Local | LocalStack[t.Any] | t.Iterable[Local | LocalStack[t.Any]]) = None,
    ) -> None:
        if locals is None:
            self.locals = []
        elif isinstance(locals, Local):
            self.locals = [locals]
        else:
            self.locals = list(locals)  # type: ignore[arg-type]

    def cleanup(self) -> None:
        """Release the data in the locals for this context. Call this at
        the end of each request or use :meth:`make_middleware`.
        """
        for local in self.locals:
            release_local(local)

    def make_middleware(self, app: WSGIApplication) -> WSGIApplication:
        """Wrap a WSGI application so that local data is released
        automatically after the response has been sent for a request.
        """

        def application(
            environ: WSGIEnvironment, start_response: StartResponse
        ) -> t.Iterable[bytes]:
            return ClosingIterator(app(environ, start_response), self.cleanup)

        return application

    def middleware(self, func: WSGIApplication) -> WSGIApplication:
        """Like :meth:`make_middleware` but used as a decorator on the
        WSGI application function.

        .. code-block:: python

            @manager.middleware
            def application(environ, start_response):
                ...
        """
        return update_wrapper(self.make_middleware(func), func)

    def __repr__(self) -> str:
        return f"<{type(self).__name__} storages: {len(self.locals)}>"


class _ProxyLookup:
    """Descriptor that handles proxied attribute lookup for
    :class:`LocalProxy`.

    :param f: The built-in function this attribute is accessed through.
        Instead of looking up the special method, the function call
        is redone on the object.
    :param fallback: Return this function if the proxy is unbound
        instead of raising a :exc:`RuntimeError`.
    :param is_attr: This proxied name is an attribute, not a function.
        Call the fallback immediately to get the value.
    :param class_value: Value to return when accessed from the
        ``LocalProxy`` class directly. Used for ``__doc__`` so building
        docs still works.
    """

    __slots__ = ("bind_f", "fallback", "is_attr", "class_value", "name")

    def __init__(
        self,
        f: t.Callable[..., t.Any] | None = None,
        fallback: t.Callable[[LocalProxy[t.Any]], t.Any] | None = None,
        class_value: t.Any | None = None,
        is_attr: bool = False,
    ) -> None:
        bind_f: t.Callable[[LocalProxy[t.Any], t.Any], t.Callable[..., t.Any]] | None

        if hasattr(f, "__get__"):
            # A Python function, can be turned into a bound method.

            def bind_f(
                instance: LocalProxy[t.Any], obj: t.Any
            ) -> t.Callable[..., t.Any]:
                return f.__get__(obj, type(obj))  # type: ignore

        elif f is not None:
            # A C function, use partial to bind the first argument.

            def bind_f(
                instance: LocalProxy[t.Any], obj: t.Any
            ) -> t.Callable[..., t.Any]:
                return partial(f, obj)

        else:
            # Use getattr, which will produce a bound method.
            bind_f = None

        self.bind_f = bind_f
        self.fallback = fallback
        self.class_value = class_value
        self.is_attr = is_attr

    def __set_name__(self, owner: LocalProxy[t.Any], name: str) -> None:
        self.name = name

    def __get__(self, instance: LocalProxy[t.Any], owner: type | None = None) -> t.Any:
        if instance is None:
            if self.class_value is not None:
                return self.class_value

            return self

        try:
            obj = instance._get_current_object()
        except RuntimeError:
            if self.fallback is None:
                raise

            fallback = self.fallback.__get__(instance, owner)

            if self.is_attr:
                # __class__ and __doc__ are attributes, not methods.
                # Call the fallback to get the value.
                return fallback()

            return fallback

        if self.bind_f is not None:
            return self.bind_f(instance, obj)

        return getattr(obj, self.name)

    def __repr__(self) -> str:
        return f"proxy {self.name}"

    def __call__(
        self, instance: LocalProxy[t.Any], *args: t.Any, **kwargs: t.Any
    ) -> t.Any:
        """Support calling unbound methods from the class. For example,
        this happens with ``copy.copy``, which does
        ``type(x).__copy__(x)``. ``type(x)`` can't be proxied, so it
        returns the proxy type and descriptor.
        """
        return self.__get__(instance, type(instance))(*args, **kwargs)


class _ProxyIOp(_ProxyLookup):
    """Look up an augmented assignment method on a proxied object. The
    method is wrapped to return the proxy instead of the object.
    """

    __slots__ = ()

    def __init__(
        self,
        f: t.Callable[..., t.Any] | None = None,
        fallback: t.Callable[[LocalProxy[t.Any]], t.Any] | None = None,
    ) -> None:
        super().__init__(f, fallback)

        def bind_f(instance: LocalProxy[t.Any], obj: t.Any) -> t.Callable[..., t.Any]:
            def i_op(self: t.Any, other: t.Any) -> LocalProxy[t.Any]:
                f(self, other)  # type: ignore
                return instance

            return i_op.__get__(obj, type(obj))  # type: ignore

        self.bind_f = bind_f


def _l_to_r_op(op: F) -> F:
    """Swap the argument order to turn an l-op into an r-op."""

    def r_op(obj: t.Any, other: t.Any) -> t.Any:
        return op(other, obj)

    return t.cast(F, r_op)


def _identity(o: T) -> T:
    return o


class LocalProxy(t.Generic[T]):
    """A proxy to the object bound to a context-local object. All
    operations on the proxy are forwarded to the bound object. If no
    object is bound, a ``RuntimeError`` is raised.

    :param local: The context-local object that provides the proxied
        object.
    :param name: Proxy this attribute from the proxied object.
    :param unbound_message: The error message to show if the
        context-local object is unbound.

    Proxy a :class:`~contextvars.ContextVar` to make it easier to
    access. Pass a name to proxy that attribute.

    .. code-block:: python

        _request_var = ContextVar("request")
        request = LocalProxy(_request_var)
        session = LocalProxy(_request_var, "session")

    Proxy an attribute on a :class:`Local` namespace by calling the
    local with the attribute name:

    .. code-block:: python

        data = Local()
        user = data("user")

    Proxy the top item on a :class:`LocalStack` by calling the local.
    Pass a name to proxy that attribute.

    .. code-block::

        app_stack = LocalStack()
        current_app = app_stack()
        g = app_stack("g")

    Pass a function to proxy the return value from that function. This
    was previously used to access attributes of local objects before
    that was supported directly.

    .. code-block:: python

        session = LocalProxy(lambda: request.session)

    ``__repr__`` and ``__class__`` are proxied, so ``repr(x)`` and
    ``isinstance(x, cls)`` will look like the proxied object. Use
    ``issubclass(type(x), LocalProxy)`` to check if an object is a
    proxy.

    .. code-block:: python

        repr(user)  # <User admin>
        isinstance(user, User)  # True
        issubclass(type(user), LocalProxy)  # True

    .. versionchanged:: 2.2.2
        ``__wrapped__`` is set when wrapping an object, not only when
        wrapping a function, to prevent doctest from failing.

    .. versionchanged:: 2.2
        Can proxy a ``ContextVar`` or ``LocalStack`` directly.

    .. versionchanged:: 2.2
        The ``name`` parameter can be used with any proxied object, not
        only ``Local``.

    .. versionchanged:: 2.2
        Added the ``unbound_message`` parameter.

    .. versionchanged:: 2.0
        Updated proxied attributes and methods to reflect the current
        data model.

    .. versionchanged:: 0.6.1
        The class can be instantiated with a callable.
    """

    __slots__ = ("__wrapped", "_get_current_object")

    _get_current_object: t.Callable[[], T]
    """Return the current object this proxy is bound to. If the proxy is
    unbound, this raises a ``RuntimeError``.

    This should be used if you need to pass the object to something that
    doesn't understand the proxy. It can also be useful for performance
    if you are accessing the object multiple times in a function, rather
    than going through the proxy multiple times.
    """

    def __init__(
        self,
        local: ContextVar[T] | Local | LocalStack[T] | t.Callable[[], T],
        name: str | None = None,
        *,
        unbound_message: str | None = None,
    ) -> None:
        if name is None:
            get_name = _identity
        else:
            get_name = attrgetter(name)  # type: ignore[assignment]

        if unbound_message is None:
            unbound_message = "object is not bound"

        if isinstance(local, Local):
            if name is None:
                raise TypeError("'name' is required when proxying a 'Local' object.")

            def _get_current_object() -> T:
                try:
                    return get_name(local)  # type: ignore[return-value]
                except AttributeError:
                    raise RuntimeError(unbound_message) from None

        elif isinstance(local, LocalStack):

            def _get_current_object() -> T:
                obj = local.top

                if obj is None:
                    raise RuntimeError(unbound_message)

                return get_name(obj)

        elif isinstance(local, ContextVar):

            def _get_current_object() -> T:
                try:
                    obj = local.get()
                except LookupError:
                    raise RuntimeError(unbound_message) from None

                return get_name(obj)

        elif callable(local):

            def _get_current_object() -> T:
                return get_name(local())

        else:
            raise TypeError(f"Don't know how to proxy '{type(local)}'.")

        object.__setattr__(self, "_LocalProxy__wrapped", local)
        object.__setattr__(self, "_get_current_object", _get_current_object)

    __doc__ = _ProxyLookup(  # type: ignore[assignment]
        class_value=__doc__, fallback=lambda self: type(self).__doc__, is_attr=True
    )
    __wrapped__ = _ProxyLookup(
        fallback=lambda self: self._LocalProxy__wrapped,  # type: ignore[attr-defined]
        is_attr=True,
    )
    # __del__ should only delete the proxy
    __repr__ = _ProxyLookup(  # type: ignore[assignment]
        repr, fallback=lambda self: f"<{type(self).__name__} unbound>"
    )
    __str__ = _ProxyLookup(str)  # type: ignore[assignment]
    __bytes__ = _ProxyLookup(bytes)
    __format__ = _ProxyLookup()  # type: ignore[assignment]
    __lt__ = _ProxyLookup(operator.lt)
    __le__ = _ProxyLookup(operator.le)
    __eq__ = _ProxyLookup(operator.eq)  # type: ignore[assignment]
    __ne__ = _ProxyLookup(operator.ne)  # type: ignore[assignment]
    __gt__ = _ProxyLookup(operator.gt)
    __ge__ = _ProxyLookup(operator.ge)
    __hash__ = _ProxyLookup(hash)  # type: ignore[assignment]
    __bool__ = _ProxyLookup(bool, fallback=lambda self: False)
    __getattr__ = _ProxyLookup(getattr)
    # __getattribute__ triggered through __getattr__
    __setattr__ = _ProxyLookup(setattr)  # type: ignore[assignment]
    __delattr__ = _ProxyLookup(delattr)  # type: ignore[assignment]
    __dir__ = _ProxyLookup(dir, fallback=lambda self: [])  # type: ignore[assignment]
    # __get__ (proxying descriptor not supported)
    # __set__ (descriptor)
    # __delete__ (descriptor)
    # __set_name__ (descriptor)
    # __objclass__ (descriptor)
    # __slots__ used by proxy itself
    # __dict__ (__getattr__)
    # __weakref__ (__getattr__)
    # __init_subclass__ (proxying metaclass not supported)
    # __prepare__ (metaclass)
    __class__ = _ProxyLookup(fallback=lambda self: type(self), is_attr=True)  # type: ignore[assignment]
    __instancecheck__ = _ProxyLookup(lambda self, other: isinstance(other, self))
    __subclasscheck__ = _ProxyLookup(lambda self, other: issubclass(other, self))
    # __class_getitem__ triggered through __getitem__
    __call__ = _ProxyLookup(lambda self, *args, **kwargs: self(*args, **kwargs))
    __len__ = _ProxyLookup(len)
    __length_hint__ = _ProxyLookup(operator.length_hint)
    __getitem__ = _ProxyLookup(operator.getitem)
    __setitem__ = _ProxyLookup(operator.setitem)
    __delitem__ = _ProxyLookup(operator.delitem)
    # __missing__ triggered through __getitem__
    __iter__ = _ProxyLookup(iter)
    __next__ = _ProxyLookup(next)
    __reversed__ = _ProxyLookup(reversed)
    __contains__ = _ProxyLookup(operator.contains)
    __add__ = _ProxyLookup(operator.add)
    __sub__ = _ProxyLookup(operator.sub)
    __mul__ = _ProxyLookup(operator.mul)
    __matmul__ = _ProxyLookup(operator.matmul)
    __truediv__ = _ProxyLookup(operator.truediv)
    __floordiv__ = _ProxyLookup(operator.floordiv)
    __mod__ = _ProxyLookup(operator.mod)
    __divmod__ = _ProxyLookup(divmod)
    __pow__ = _ProxyLookup(pow)
    __lshift__ = _ProxyLookup(operator.lshift)
    __rshift__ = _ProxyLookup(operator.rshift)
    __and__ = _ProxyLookup(operator.and_)
    __xor__ = _ProxyLookup(operator.xor)
    __or__ = _ProxyLookup(operator.or_)
    __radd__ = _ProxyLookup(_l_to_r_op(operator.add))
    __rsub__ = _ProxyLookup(_l_to_r_op(operator.sub))
    __rmul__ = _ProxyLookup(_l_to_r_op(operator.mul))
    __rmatmul__ = _ProxyLookup(_l_to_r_op(operator.matmul))
    __rtruediv__ = _ProxyLookup(_l_to_r_op(operator.truediv))
    __rfloordiv__ = _ProxyLookup(_l_to_r_op(operator.floordiv))
    __rmod__ = _ProxyLookup(_l_to_r_op(operator.mod))
    __rdivmod__ = _ProxyLookup(_l_to_r_op(divmod))
    __rpow__ = _ProxyLookup(_l_to_r_op(pow))
    __rlshift__ = _ProxyLookup(_l_to_r_op(operator.lshift))
    __rrshift__ = _ProxyLookup(_l_to_r_op(operator.rshift))
    __rand__ = _ProxyLookup(_l_to_r_op(operator.and_))
    __rxor__ = _ProxyLookup(_l_to_r_op(operator.xor))
    __ror__ = _ProxyLookup(_l_to_r_op(operator.or_))
    __iadd__ = _ProxyIOp(operator.iadd)
    __isub__ = _ProxyIOp(operator.isub)
    __imul__ = _ProxyIOp(operator.imul)
    __imatmul__ = _ProxyIOp(operator.imatmul)
    __itruediv__ = _ProxyIOp(operator.itruediv)
    __ifloordiv__ = _ProxyIOp(operator.ifloordiv)
    __imod__ = _ProxyIOp(operator.imod)
    __ipow__ = _ProxyIOp(operator.ipow)
    __ilshift__ = _ProxyIOp(operator.ilshift)
    __irshift__ = _ProxyIOp(operator.irshift)
    __iand__ = _ProxyIOp(operator.iand)
    __ixor__ = _ProxyIOp(operator.ixor)
    __ior__ = _ProxyIOp(operator.ior)
    __neg__ = _ProxyLookup(operator.neg)
    __pos__ = _ProxyLookup(operator.pos)
    __abs__ = _ProxyLookup(abs)
    __invert__ = _ProxyLookup(operator.invert)
    __complex__ = _ProxyLookup(complex)
    __int__ = _ProxyLookup(int)
    __float__ = _ProxyLookup(float)
    __index__ = _ProxyLookup(operator.index)
    __round__ = _ProxyLookup(round)
    __trunc__ = _ProxyLookup(math.trunc)
    __floor__ = _ProxyLookup(math.floor)
    __ceil__ = _ProxyLookup(math.ceil)
    __enter__ = _ProxyLookup()
    __exit__ = _ProxyLookup()
    __await__ = _ProxyLookup()
    __aiter__ = _ProxyLookup()
    __anext__ = _ProxyLookup()
    __aenter__ = _ProxyLookup()
    __aexit__ = _ProxyLookup()
    __copy__ = _ProxyLookup(copy.copy)
    __deepcopy__ = _ProxyLookup(copy.deepcopy)
    # __getnewargs_ex__ (pickle through proxy not supported)
    # __getnewargs__ (pickle)
    # __getstate__ (pickle)
    # __setstate__ (pickle)
    # __reduce__ (pickle)
    # __reduce_ex__ (pickle)
'''

# (old, new) textual mutation of the original used as a negative control.
MUTATION = (
    '                if obj is None:\n                    raise RuntimeError(unbound_message)\n',
    '                if not obj:\n                    raise RuntimeError(unbound_message)\n',
)

# relative weights of the operation kinds (focus of this refactoring)
WEIGHTS = {'cleanup': 1,
 'cls': 5,
 'cvset': 3,
 'del': 3,
 'fork': 3,
 'fresh': 1,
 'pop': 3,
 'proxy': 14,
 'push': 4,
 'rel_loc': 1,
 'rel_stk': 1,
 'set': 4}

N_CTX_PROGRAMS = 2000
N_THREAD_PROGRAMS = 120
N_ASYNC_PROGRAMS = 300
N_FREE_RUNS = 20


def load_source(name, source):
    mod = types.ModuleType(name)
    mod.__package__ = "werkzeug"
    mod.__file__ = f"<{name}>"
    sys.modules[name] = mod
    exec(compile(source, f"<{name}>", "exec"), mod.__dict__)
    return mod


# ---------------------------------------------------------------------------
# world: one set of context locals + proxies built from one implementation


class Thing:
    """A small object with attributes, callable, for attribute proxies."""

    def __init__(self, real):
        self.real = real
        self.items = [real]

    def __call__(self, x):
        return ("called", self.real, x)

    def __repr__(self):
        return f"Thing({self.real!r})"

    def __eq__(self, other):
        return isinstance(other, Thing) and other.real == self.real

    def __hash__(self):
        return hash(("Thing", self.real))


MISSING = object()
_ADDR = re.compile(r"0x[0-9a-fA-F]+")


class World:
    def __init__(self, M, custom_var):
        self.M = M
        if custom_var:
            self.loc_var = contextvars.ContextVar("loc")
            self.stk_var = contextvars.ContextVar("stk")
            self.loc = M.Local(self.loc_var)
            self.stk = M.LocalStack(self.stk_var)
        else:
            self.loc = M.Local()
            self.stk = M.LocalStack()
            self.loc_var = object.__getattribute__(self.loc, "_Local__storage")
            self.stk_var = self.stk._storage
        self.cv = contextvars.ContextVar("cv")
        self.mgr = M.LocalManager([self.loc, self.stk])
        self.mgr1 = M.LocalManager(self.loc)
        loc, stk, cv = self.loc, self.stk, self.cv
        self.func = lambda: loc.a
        self.proxies = [
            (loc("a"), loc),
            (loc("b", unbound_message="no b here"), loc),
            (M.LocalProxy(loc, "c"), loc),
            (stk(), stk),
            (stk("real", unbound_message="empty stack"), stk),
            (M.LocalProxy(cv), cv),
            (M.LocalProxy(cv, "real", unbound_message="cv unset"), cv),
            (M.LocalProxy(self.func), self.func),
            (M.LocalProxy(self.func, "real"), self.func),
        ]
        # identity registry: object id -> small int, keeps objects alive
        self._ids = {}
        self._keep = []

    def ident(self, obj):
        if obj is None:
            return None
        k = id(obj)
        if k not in self._ids:
            self._ids[k] = len(self._ids)
            self._keep.append(obj)
        return self._ids[k]


def norm(w, x, depth=0):
    M = w.M
    t = type(x)
    if t is M.LocalProxy:
        return "<LocalProxy>"
    if t is M._ProxyLookup or t is M._ProxyIOp:
        return ("descr", t.__name__, repr(x))
    if t in (list, tuple) and depth < 3:
        return (t.__name__, [norm(w, i, depth + 1) for i in x])
    if t is dict and depth < 3:
        return ("dict", [(k, norm(w, v, depth + 1)) for k, v in x.items()])
    if isinstance(x, types.MethodType):
        return ("method", x.__func__.__name__, norm(w, x.__self__, depth + 1))
    if isinstance(x, (types.FunctionType, types.BuiltinFunctionType)):
        return ("func", getattr(x, "__name__", "?"))
    if t.__name__ == "partial":
        return ("partial", getattr(x.func, "__name__", "?"),
                [norm(w, a, depth + 1) for a in x.args])
    if t.__name__ in ("list_iterator", "dict_itemiterator", "list_reverseiterator"):
        return (t.__name__, [norm(w, i, depth + 1) for i in x])
    if t is type:
        if x is M.LocalProxy:
            return "<class LocalProxy>"
        return ("type", x.__name__)
    return (t.__name__, _ADDR.sub("0x?", repr(x)))


def guarded(w, fn):
    try:
        return ("ok", norm(w, fn()))
    except Exception as e:  # noqa: BLE001
        return ("exc", type(e).__name__, _ADDR.sub("0x?", str(e)), type(e.__cause__).__name__,
                type(e.__context__).__name__, e.__suppress_context__)


# proxy actions -------------------------------------------------------------


def _iadd(p, v):
    q = p
    q += v
    return ("same proxy", q is p)


def _class_call(w, p):
    return type.__getattribute__(w.M.LocalProxy, "__copy__")(p)


PROXY_ACTIONS = [
    ("repr", lambda w, p, t: repr(p)),
    ("bool", lambda w, p, t: bool(p)),
    ("not", lambda w, p, t: not p),
    ("str", lambda w, p, t: str(p)),
    ("gco", lambda w, p, t: p._get_current_object()),
    ("gco_ident", lambda w, p, t: p._get_current_object() is p._get_current_object()),
    ("add", lambda w, p, t: p + 1),
    ("radd", lambda w, p, t: 1 + p),
    ("mul", lambda w, p, t: p * 2),
    ("len", lambda w, p, t: len(p)),
    ("dirlen", lambda w, p, t: len(dir(p)) > 0),
    ("class", lambda w, p, t: p.__class__),
    ("isinst_int", lambda w, p, t: isinstance(p, int)),
    ("isinst_thing", lambda w, p, t: isinstance(p, Thing)),
    ("doc", lambda w, p, t: (p.__doc__ or "")[:30]),
    ("wrapped", lambda w, p, t: p.__wrapped__ is t),
    ("real", lambda w, p, t: p.real),
    ("items", lambda w, p, t: p.items),
    ("missing", lambda w, p, t: p.no_such_attribute),
    ("setattr", lambda w, p, t: setattr(p, "extra", 5)),
    ("delattr", lambda w, p, t: delattr(p, "extra")),
    ("eq", lambda w, p, t: p == p._get_current_object()),
    ("eq1", lambda w, p, t: p == 1),
    ("ne", lambda w, p, t: p != "x"),
    ("lt", lambda w, p, t: p < 2),
    ("hash", lambda w, p, t: hash(p) == hash(p._get_current_object())),
    ("getitem", lambda w, p, t: p[0]),
    ("setitem", lambda w, p, t: p.__setitem__(0, "S")),
    ("contains", lambda w, p, t: 1 in p),
    ("iter", lambda w, p, t: list(iter(p))),
    ("reversed", lambda w, p, t: list(reversed(p))),
    ("call", lambda w, p, t: p(3)),
    ("iadd_list", lambda w, p, t: _iadd(p, [9])),
    ("iadd_int", lambda w, p, t: _iadd(p, 1)),
    ("copy", lambda w, p, t: copy.copy(p)),
    ("deepcopy", lambda w, p, t: copy.deepcopy(p)),
    ("class_call", lambda w, p, t: _class_call(w, p)),
    ("descr_call", lambda w, p, t: w.M.LocalProxy.__dict__["__repr__"](p)),
    ("descr_get_none_owner", lambda w, p, t: w.M.LocalProxy.__dict__["__bool__"].__get__(p)()),
    ("descr_bound", lambda w, p, t: w.M.LocalProxy.__dict__["__len__"].__get__(p, None)),
    ("descr_attr", lambda w, p, t: w.M.LocalProxy.__dict__["__format__"].__get__(p, type(p))),
    ("format", lambda w, p, t: format(p, "")),
    ("int", lambda w, p, t: int(p)),
    ("index", lambda w, p, t: [10, 11, 12, 13][p]),
    ("neg", lambda w, p, t: -p),
    ("abs", lambda w, p, t: abs(p)),
    ("enter", lambda w, p, t: p.__enter__),
    ("bytes", lambda w, p, t: bytes(p)),
]

CLASS_ACTIONS = [
    ("cls_repr", lambda w: w.M.LocalProxy.__repr__),
    ("cls_bool", lambda w: w.M.LocalProxy.__bool__),
    ("cls_iadd", lambda w: w.M.LocalProxy.__iadd__),
    ("cls_doc", lambda w: w.M.LocalProxy.__doc__[:40]),
    ("cls_wrapped", lambda w: w.M.LocalProxy.__wrapped__),
    ("cls_class", lambda w: w.M.LocalProxy.__class__),
    ("cls_descr_get", lambda w: w.M.LocalProxy.__dict__["__doc__"].__get__(None, w.M.LocalProxy)[:40]),
    ("cls_descr_get2", lambda w: w.M.LocalProxy.__dict__["__repr__"].__get__(None, None)),
    ("new_local_noname", lambda w: w.M.LocalProxy(w.loc)),
    ("new_local_noname_msg", lambda w: w.M.LocalProxy(w.loc, unbound_message="m")),
    ("new_bad_target", lambda w: w.M.LocalProxy(5)),
    ("new_bad_target_name", lambda w: w.M.LocalProxy(5, "x")),
    ("new_bad_name", lambda w: w.M.LocalProxy(w.loc, 5)),
    ("new_bad_name_stack", lambda w: w.M.LocalProxy(w.stk, 5)),
    ("new_bad_name_bad_target", lambda w: w.M.LocalProxy(None, 5)),
    ("new_dotted", lambda w: w.M.LocalProxy(w.stk, "real.real")._get_current_object()),
    ("new_dotted_loc", lambda w: w.M.LocalProxy(w.loc, "a.real")._get_current_object()),
    ("new_loc_call_kw", lambda w: repr(w.loc("a", unbound_message="zz"))),
    ("new_stk_call", lambda w: bool(w.stk("items"))),
    ("new_cv_default", lambda w: w.M.LocalProxy(contextvars.ContextVar("d", default=7)) + 1),
    ("new_func_raises_rt", lambda w: repr(w.M.LocalProxy(_raise_rt))),
    ("new_func_raises_rt_bool", lambda w: bool(w.M.LocalProxy(_raise_rt, "x"))),
    ("new_func_raises_rt_str", lambda w: str(w.M.LocalProxy(_raise_rt))),
    ("new_func_raises_other", lambda w: repr(w.M.LocalProxy(_raise_ke))),
    ("new_proxy_of_proxy", lambda w: w.M.LocalProxy(w.proxies[0][0], "real")._get_current_object()),
    ("mgr_repr", lambda w: (repr(w.mgr), repr(w.mgr1), repr(w.M.LocalManager()))),
    ("mgr_iterable", lambda w: len(w.M.LocalManager(iter([w.loc, w.stk])).locals)),
    ("mgr_stack_single", lambda w: w.M.LocalManager(w.stk).locals),
]


def _raise_rt():
    raise RuntimeError("from func")


def _raise_ke():
    raise KeyError("from func")


def _middleware_roundtrip(w):
    seen = []

    def app(environ, start_response):
        w.loc.a = "in-request"
        w.stk.push("req")
        seen.append((w.loc.a, w.stk.top))
        return [b"x"]

    wrapped = w.mgr.make_middleware(app)
    it = wrapped({}, None)
    body = list(it)
    before = (getattr(w.loc, "a", MISSING) is not MISSING, w.stk.top)
    it.close()
    after = (getattr(w.loc, "a", MISSING) is not MISSING, w.stk.top)
    return (body, seen, before, after)


NAMES = ["a", "b", "c", "d"]


def gen_value(r):
    k = r.randrange(10)
    if k == 0:
        return None
    if k == 1:
        return 0
    if k == 2:
        return r.randint(-3, 3)
    if k == 3:
        return r.choice(["x", "yy", ""])
    if k == 4:
        return [r.randint(0, 2) for _ in range(r.randint(0, 3))]
    if k == 5:
        return complex(r.randint(0, 2), r.randint(0, 2))
    if k == 6:
        return Thing(r.randint(0, 3))
    if k == 7:
        return Thing(Thing(r.randint(0, 3)))
    if k == 8:
        return (1, 2)
    return {"k": r.randint(0, 2)}


OP_KINDS = [
    "set", "del", "get", "iter", "rel_loc", "rel_stk", "cleanup", "cleanup1",
    "release_fn_loc", "release_fn_stk", "push", "pop", "top", "cvset",
    "proxy", "cls", "fork", "fresh", "middleware",
]


def gen_program(r, n_ops, allow_fork=True):
    kinds = [k for k in OP_KINDS if allow_fork or k not in ("fork", "fresh")]
    weights = [WEIGHTS.get(k, 1) for k in kinds]
    prog = []
    nctx = 1
    for _ in range(n_ops):
        kind = r.choices(kinds, weights)[0]
        ctx = r.randrange(nctx)
        if kind in ("fork", "fresh"):
            if nctx >= 6:
                continue
            nctx += 1
            prog.append((kind, ctx))
        elif kind == "set":
            prog.append((kind, ctx, r.choice(NAMES), gen_value(r)))
        elif kind in ("del", "get"):
            prog.append((kind, ctx, r.choice(NAMES)))
        elif kind in ("push", "cvset"):
            prog.append((kind, ctx, gen_value(r)))
        elif kind == "proxy":
            prog.append((kind, ctx, r.randrange(9), r.randrange(len(PROXY_ACTIONS))))
        elif kind == "cls":
            prog.append((kind, ctx, r.randrange(len(CLASS_ACTIONS))))
        else:
            prog.append((kind, ctx))
    return prog


def do_op(w, op):
    """Executed inside the target context. Returns a normalised result."""
    kind = op[0]
    if kind == "set":
        v = copy.deepcopy(op[3])
        return guarded(w, lambda: setattr(w.loc, op[2], v))
    if kind == "del":
        return guarded(w, lambda: delattr(w.loc, op[2]))
    if kind == "get":
        return guarded(w, lambda: getattr(w.loc, op[2]))
    if kind == "iter":
        return guarded(w, lambda: list(w.loc))
    if kind == "rel_loc":
        return guarded(w, lambda: w.loc.__release_local__())
    if kind == "rel_stk":
        return guarded(w, lambda: w.stk.__release_local__())
    if kind == "cleanup":
        return guarded(w, lambda: w.mgr.cleanup())
    if kind == "cleanup1":
        return guarded(w, lambda: w.mgr1.cleanup())
    if kind == "release_fn_loc":
        return guarded(w, lambda: w.M.release_local(w.loc))
    if kind == "release_fn_stk":
        return guarded(w, lambda: w.M.release_local(w.stk))
    if kind == "push":
        v = copy.deepcopy(op[2])

        def push():
            before = w.stk_var.get(None)
            before_copy = None if before is None else list(before)
            rv = w.stk.push(v)
            now = w.stk_var.get(None)
            return (rv, rv is now, rv is not before,
                    before is None or list(before) == before_copy)

        return guarded(w, push)
    if kind == "pop":

        def pop():
            before = w.stk_var.get(None)
            before_copy = None if before is None else list(before)
            rv = w.stk.pop()
            now = w.stk_var.get(None)
            return (rv, now is before,
                    before is None or list(before) == before_copy,
                    before is not None and len(before) > 0 and rv is before[-1])

        return guarded(w, pop)
    if kind == "top":
        return guarded(w, lambda: w.stk.top)
    if kind == "cvset":
        v = copy.deepcopy(op[2])
        return guarded(w, lambda: w.cv.set(v) and None)
    if kind == "proxy":
        p, target = w.proxies[op[2]]
        name, act = PROXY_ACTIONS[op[3]]
        return (name, guarded(w, lambda: act(w, p, target)))
    if kind == "cls":
        name, act = CLASS_ACTIONS[op[2]]
        return (name, guarded(w, lambda: act(w)))
    if kind == "middleware":
        return guarded(w, lambda: _middleware_roundtrip(w))
    raise AssertionError(kind)


def dump(w):
    """Executed inside a context: the complete visible state."""
    d = w.loc_var.get(None)
    s = w.stk_var.get(None)
    c = w.cv.get(MISSING)
    return (
        None if d is None else norm(w, d),
        None if s is None else norm(w, s),
        "MISSING" if c is MISSING else norm(w, c),
        w.ident(d),
        w.ident(s),
        [guarded(w, lambda p=p: repr(p)) for p, _ in w.proxies],
        [guarded(w, lambda p=p: bool(p)) for p, _ in w.proxies],
    )


# ---------------------------------------------------------------------------
# executors


class CtxExec:
    def __init__(self):
        self.ctxs = [contextvars.Context()]

    def run(self, i, fn):
        return self.ctxs[i].run(fn)

    def fork(self, i):
        self.ctxs.append(self.ctxs[i].run(contextvars.copy_context))

    def fresh(self, i):
        self.ctxs.append(contextvars.Context())

    @property
    def n(self):
        return len(self.ctxs)

    def close(self):
        pass


def _thread_worker(inbox, outbox):
    while True:
        fn = inbox.get()
        if fn is None:
            return
        try:
            outbox.put(("ok", fn()))
        except BaseException as e:  # noqa: BLE001
            outbox.put(("err", e))


class ThreadExec:
    def __init__(self):
        self.workers = []
        self._spawn(copy_ctx=False)

    def _spawn(self, copy_ctx):
        inbox, outbox = queue.Queue(), queue.Queue()
        if copy_ctx:
            ctx = contextvars.copy_context()
            th = threading.Thread(target=ctx.run, args=(_thread_worker, inbox, outbox), daemon=True)
        else:
            th = threading.Thread(target=_thread_worker, args=(inbox, outbox), daemon=True)
        th.start()
        self.workers.append((th, inbox, outbox))

    def run(self, i, fn):
        _, inbox, outbox = self.workers[i]
        inbox.put(fn)
        tag, val = outbox.get(timeout=30)
        if tag == "err":
            raise val
        return val

    def fork(self, i):
        # the new thread is started from inside worker i with a copy of its context
        self.run(i, lambda: self._spawn(copy_ctx=True))

    def fresh(self, i):
        # a plain new thread: starts with an empty context
        self.run(i, lambda: self._spawn(copy_ctx=False))

    @property
    def n(self):
        return len(self.workers)

    def close(self):
        for th, inbox, _ in self.workers:
            inbox.put(None)
        for th, _, _ in self.workers:
            th.join(timeout=30)


class AsyncExec:
    def __init__(self):
        self.loop = asyncio.new_event_loop()
        self.inboxes = []
        self.tasks = []
        self.loop.run_until_complete(self._start())

    async def _worker(self, inbox):
        while True:
            fn, fut = await inbox.get()
            if fn is None:
                fut.set_result(None)
                return
            await asyncio.sleep(0)
            try:
                res = fn()
            except BaseException as e:  # noqa: BLE001
                fut.set_exception(e)
            else:
                await asyncio.sleep(0)
                fut.set_result(res)

    def _spawn(self, context=None):
        inbox = asyncio.Queue()
        self.inboxes.append(inbox)
        # create_task copies the *current* context unless one is given
        self.tasks.append(self.loop.create_task(self._worker(inbox), context=context))

    async def _start(self):
        self._spawn(context=contextvars.Context())

    async def _send(self, i, fn):
        fut = self.loop.create_future()
        await self.inboxes[i].put((fn, fut))
        return await fut

    def run(self, i, fn):
        return self.loop.run_until_complete(self._send(i, fn))

    def fork(self, i):
        self.run(i, lambda: self._spawn())

    def fresh(self, i):
        self.run(i, lambda: self._spawn(context=contextvars.Context()))

    @property
    def n(self):
        return len(self.inboxes)

    def close(self):
        for i in range(self.n):
            self.loop.run_until_complete(self._send(i, None))
        self.loop.run_until_complete(asyncio.gather(*self.tasks))
        self.loop.close()


def run_program(M, prog, exec_cls, custom_var):
    w = World(M, custom_var)
    ex = exec_cls()
    trace = []
    try:
        for op in prog:
            if op[0] == "fork":
                ex.fork(op[1])
                res = "forked"
            elif op[0] == "fresh":
                ex.fresh(op[1])
                res = "fresh"
            else:
                res = ex.run(op[1], lambda: do_op(w, op))
            state = [ex.run(i, lambda: dump(w)) for i in range(ex.n)]
            trace.append((op[0], res, state))
    finally:
        ex.close()
    return trace


def first_diff(ta, tb):
    for i, (a, b) in enumerate(zip(ta, tb)):
        if a != b:
            return i, a, b
    if len(ta) != len(tb):
        return min(len(ta), len(tb)), None, None
    return None


def compare(A, B, seed0, n_programs, n_ops, exec_cls, verbose=True):
    """Return (number of compared ops, first mismatch or None)."""
    total = 0
    for k in range(n_programs):
        r = random.Random(seed0 + k)
        prog = gen_program(r, n_ops)
        custom = bool(k % 2)
        ta = run_program(A, prog, exec_cls, custom)
        tb = run_program(B, prog, exec_cls, custom)
        total += len(prog)
        d = first_diff(ta, tb)
        if d is not None:
            if verbose:
                i, a, b = d
                print(f"MISMATCH {exec_cls.__name__} seed={seed0 + k} op#{i}: {prog[i]!r}")
                print("  orig:", a)
                print("  new :", b)
            return total, d
    return total, None


# free running threads -------------------------------------------------------


def free_run(M, seed, n_threads=8, n_ops=150):
    """Every thread hammers the same Local / LocalStack / proxies with its own
    program; with isolation each thread's trace depends only on its program."""
    w = World(M, False)
    progs = []
    for i in range(n_threads):
        r = random.Random(seed * 1000 + i)
        prog = [
            op for op in gen_program(r, n_ops, allow_fork=False)
            if op[0] not in ("cls", "middleware")
            # only immutable payloads so that threads share no mutable values
            and not (op[0] in ("set", "push", "cvset")
                     and not isinstance(op[-1], (int, str, complex, tuple, type(None))))
        ]
        progs.append(prog)
    traces = [None] * n_threads
    barrier = threading.Barrier(n_threads)

    def body(i):
        barrier.wait()
        out = []
        for op in progs[i]:
            out.append(do_op(w, op))
            d = w.loc_var.get(None)
            s = w.stk_var.get(None)
            out.append((None if d is None else sorted(d.items(), key=repr).__repr__(),
                        None if s is None else repr(s)))
        traces[i] = out

    ths = [threading.Thread(target=body, args=(i,)) for i in range(n_threads)]
    old = sys.getswitchinterval()
    sys.setswitchinterval(1e-6)
    try:
        for t in ths:
            t.start()
        for t in ths:
            t.join()
    finally:
        sys.setswitchinterval(old)
    return traces


def main():
    import werkzeug.local as NEW

    ORIG = load_source("werkzeug._c18_orig_local", ORIG_SOURCE)

    with open(NEW.__file__) as f:
        new_source = f.read()
    print("refactored module:", NEW.__file__)
    print("refactored source differs from pasted original:", new_source != ORIG_SOURCE)
    ok = new_source != ORIG_SOURCE
    if not ok:
        print("  (patch is not applied - comparing the original with itself)")

    # harness sanity: original against a second copy of itself must agree
    ORIG2 = load_source("werkzeug._c18_orig_local_2", ORIG_SOURCE)
    n, d = compare(ORIG, ORIG2, 10_000, 50, 40, CtxExec)
    print(f"self-comparison of the original ({n} ops):", "identical" if d is None else "DIFFERENT")
    ok &= d is None

    for label, ex, seed0, nprog, nops in [
        ("copied contexts", CtxExec, 0, N_CTX_PROGRAMS, 40),
        ("stepped threads", ThreadExec, 100_000, N_THREAD_PROGRAMS, 30),
        ("stepped asyncio tasks", AsyncExec, 200_000, N_ASYNC_PROGRAMS, 30),
    ]:
        n, d = compare(ORIG, NEW, seed0, nprog, nops, ex)
        print(f"{label}: {nprog} programs, {n} ops:", "identical" if d is None else "DIFFERENT")
        ok &= d is None

    free_ok = True
    for seed in range(N_FREE_RUNS):
        if free_run(ORIG, seed) != free_run(NEW, seed):
            free_ok = False
            print("MISMATCH in free running threads, seed", seed)
            break
    print(f"free running threads: {N_FREE_RUNS} runs x 8 threads x 150 ops:",
          "identical" if free_ok else "DIFFERENT")
    ok &= free_ok

    # negative control: a mutant of the touched code must be detected
    old, new = MUTATION
    assert ORIG_SOURCE.count(old) == 1, "mutation anchor not found exactly once"
    MUT = load_source("werkzeug._c18_mutant_local", ORIG_SOURCE.replace(old, new))
    n, d = compare(ORIG, MUT, 0, 300, 40, CtxExec, verbose=False)
    print(f"negative control (mutant of original) detected after {n} ops:", d is not None)
    ok &= d is not None

    print("PASS" if ok else "FAIL")
    return 0 if ok else 1


if __name__ == "__main__":
    sys.exit(main())
