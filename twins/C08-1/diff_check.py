"""Differential check for refactoring 1 (C08).

Headers._del_key (loop -> comprehension) and Headers.update (the duplicated
"list/tuple/set -> setlist, else -> set" dispatch extracted into the private
helper Headers._set_value_or_list).

The ORIGINAL implementations are pasted below and mounted on a subclass of the
worktree's Headers; both classes are driven through identical random operation
histories and every return value, raised exception type and the complete
internal pair list is compared after every step.

Run: cd /tmp/wt3-C08 && PYTHONPATH=/tmp/wt3-C08/src /venv/bin/python /tmp/twin-C08/1/diff_check.py
"""

from __future__ import annotations

import collections.abc as cabc
import random
import sys

import werkzeug
from werkzeug.datastructures import Headers
from werkzeug.datastructures import ImmutableMultiDict
from werkzeug.datastructures import MultiDict

assert werkzeug.__file__.startswith("/tmp/wt3-C08/"), werkzeug.__file__


# --------------------------------------------------------------------------
# ORIGINAL code (verbatim from the unmodified tree)
# --------------------------------------------------------------------------
class OrigHeaders(Headers):
    def _del_key(self, key):
        key = key.lower()
        new = []

        for k, v in self._list:
            if k.lower() != key:
                new.append((k, v))

        self._list[:] = new

    def update(self, arg=None, /, **kwargs):
        if arg is not None:
            if isinstance(arg, (Headers, MultiDict)):
                for key in arg.keys():
                    self.setlist(key, arg.getlist(key))
            elif isinstance(arg, cabc.Mapping):
                for key, value in arg.items():
                    if isinstance(value, (list, tuple, set)):
                        self.setlist(key, value)
                    else:
                        self.set(key, value)
            else:
                for key, value in arg:
                    self.set(key, value)

        for key, value in kwargs.items():
            if isinstance(value, (list, tuple, set)):
                self.setlist(key, value)
            else:
                self.set(key, value)


# --------------------------------------------------------------------------
# input generation
# --------------------------------------------------------------------------
BASE_KEYS = ["a", "b", "content-type", "x-y", "ß", "İd", "ǆ", "Σς", ""]


def rkey(r):
    k = r.choice(BASE_KEYS)
    return r.choice([k, k.upper(), k.title(), k.lower(), k.swapcase()])


def rvalue(r):
    c = r.random()
    if c < 0.6:
        return r.choice(["1", "v", "text/plain", "", "É", "x, y"])
    if c < 0.75:
        return r.randrange(5)
    if c < 0.8:
        return None
    if c < 0.85:
        return "bad\nvalue"
    if c < 0.9:
        return b"bytes"
    return 1.5


def rmulti(r):
    n = r.randrange(4)
    vals = [rvalue(r) for _ in range(n)]
    kind = r.randrange(4)
    if kind == 0:
        return vals
    if kind == 1:
        return tuple(vals)
    if kind == 2:
        try:
            return set(vals)
        except TypeError:
            return vals
    return rvalue(r)


def rpairs(r):
    return [(rkey(r), rvalue(r)) for _ in range(r.randrange(5))]


class Map(cabc.Mapping):
    """A Mapping that is neither dict nor MultiDict."""

    def __init__(self, d):
        self.d = d

    def __getitem__(self, k):
        return self.d[k]

    def __iter__(self):
        return iter(self.d)

    def __len__(self):
        return len(self.d)


def rarg(r):
    """Return a zero-arg factory producing a fresh, equal update() argument."""
    kind = r.randrange(12)
    pairs = rpairs(r)
    if kind == 0:
        return lambda: None
    if kind == 1:
        return lambda: list(pairs)
    if kind == 2:
        return lambda: iter(pairs)
    if kind == 3:
        return lambda: tuple(pairs)
    if kind == 4:
        d = {rkey(r): rmulti(r) for _ in range(r.randrange(4))}
        return lambda: dict(d)
    if kind == 5:
        d = {rkey(r): rmulti(r) for _ in range(r.randrange(4))}
        return lambda: Map(dict(d))
    if kind == 6:
        safe = [(k, v) for k, v in pairs if v != "bad\nvalue"]
        return lambda: Headers(safe)
    if kind == 7:
        return lambda: MultiDict(pairs)
    if kind == 8:
        return lambda: ImmutableMultiDict(pairs)
    if kind == 9:
        # malformed: not pairs / not iterable / non-str keys
        bad = r.choice([5, [1, 2], [("a",)], [(1, "x")], {1: "x"}, "ab", ["ab", "cd"]])
        return lambda: bad
    if kind == 10:
        d = {rkey(r): frozenset([rvalue(r)]) for _ in range(2)}
        return lambda: dict(d)
    safe = [(k, v) for k, v in pairs if v != "bad\nvalue"]
    return lambda: OrigHeaders(safe)  # a Headers subclass instance


def rkwargs(r):
    if r.random() < 0.6:
        return {}
    return {r.choice(["a", "B", "x_y", "Content_Type"]): rmulti(r) for _ in range(r.randrange(3))}


def outcome(f):
    try:
        return ("ok", f())
    except BaseException as e:  # noqa: BLE001
        return ("exc", type(e))


def norm(x):
    if isinstance(x, Headers):
        return ("Headers", list(x._list))
    return x


def run_case(seed):
    r = random.Random(seed)
    init = [(k, str(v)) for k, v in rpairs(r) + rpairs(r) if v != "bad\nvalue"]
    new = Headers(init)
    old = OrigHeaders(init)
    checks = 0

    for _step in range(r.randrange(1, 12)):
        op = r.randrange(9)
        if op == 0:
            mk, kw = rarg(r), rkwargs(r)
            fn = lambda h: h.update(mk(), **kw)  # noqa: E731
        elif op == 1:
            mk = rarg(r)
            fn = lambda h: norm(h | mk())  # noqa: E731
        elif op == 2:
            mk = rarg(r)

            def fn(h, mk=mk):
                h |= mk()
                return norm(h)
        elif op == 3:
            k = r.choice([rkey(r), rkey(r), 3, None])
            fn = lambda h: h.remove(k)  # noqa: E731
        elif op == 4:
            k = r.choice([rkey(r), rkey(r), 0, -1, 7, slice(0, 2), slice(None, None, 2)])

            def fn(h, k=k):
                del h[k]
        elif op == 5:
            k = r.choice([rkey(r), rkey(r), None, 0, 9])
            d = r.choice(["dflt", None])
            if r.random() < 0.5:
                fn = lambda h: h.pop(k, d)  # noqa: E731
            else:
                fn = lambda h: h.pop(k)  # noqa: E731
        elif op == 6:
            k, v = rkey(r), rmulti(r)
            fn = lambda h: h.setlist(k, v if isinstance(v, (list, tuple, set)) else [v])  # noqa: E731
        elif op == 7:
            k, v = rkey(r), rmulti(r)
            fn = lambda h: h.update({k: v}, **{"x_y": v})  # noqa: E731
        else:
            k = rkey(r)
            fn = lambda h: h._del_key(k)  # noqa: E731

        a = outcome(lambda: fn(new))
        b = outcome(lambda: fn(old))
        checks += 1
        if a != b:
            return checks, f"seed {seed}: outcome differs: {a!r} != {b!r}"
        if new._list != old._list:
            return checks, f"seed {seed}: state differs: {new._list!r} != {old._list!r}"
        if [type(x) for x in new._list] != [type(x) for x in old._list]:
            return checks, f"seed {seed}: item types differ"
        if str(new) != str(old) or new.to_wsgi_list() != old.to_wsgi_list():
            return checks, f"seed {seed}: reads differ"

    return checks, None


def main():
    total = 0
    for seed in range(6000):
        n, err = run_case(seed)
        total += n
        if err:
            print("FAIL", err)
            return 1
    print(f"compared {total} operations over 6000 histories")
    print("PASS")
    return 0


if __name__ == "__main__":
    sys.exit(main())
