"""Differential check for refactoring 1 (parse_range_header).

Run: cd /tmp/wt3-C07 && PYTHONPATH=/tmp/wt3-C07/src /venv/bin/python /tmp/twin-C07/1/diff_check.py
"""
import itertools
import random

from werkzeug import datastructures as ds
from werkzeug._internal import _plain_int
from werkzeug.http import parse_range_header as new_parse_range_header


def orig_parse_range_header(value, make_inclusive=True):
    if not value or "=" not in value:
        return None

    ranges = []
    last_end = 0
    units, rng = value.split("=", 1)
    units = units.strip().lower()

    for item in rng.split(","):
        item = item.strip()
        if "-" not in item:
            return None
        if item.startswith("-"):
            if last_end < 0:
                return None
            try:
                begin = _plain_int(item)
            except ValueError:
                return None
            end = None
            last_end = -1
        elif "-" in item:
            begin_str, end_str = item.split("-", 1)
            begin_str = begin_str.strip()
            end_str = end_str.strip()

            try:
                begin = _plain_int(begin_str)
            except ValueError:
                return None

            if begin < last_end or last_end < 0:
                return None
            if end_str:
                if end_str.startswith("-"):
                    # _plain_int accepts a sign, a position does not have one
                    return None

                try:
                    end = _plain_int(end_str) + 1
                except ValueError:
                    return None

                if begin >= end:
                    return None
            else:
                end = None
            last_end = end if end is not None else -1
        ranges.append((begin, end))

    return ds.Range(units, ranges)


def run(f, v):
    try:
        r = f(v)
    except BaseException as e:  # noqa: B036
        return ("EXC", type(e), str(e))
    if r is None:
        return ("NONE",)
    return ("RANGE", type(r), r.units, list(r.ranges))


ATOMS = [
    "", " ", "\t", "-", "--", "=", "==", ",", ",,", "0", "1", "5", "9", "10", "99",
    "100", "0-", "-0", "-5", "5-", "0-0", "0-9", "10-19", "5-3", "3-5", "-1-", "1--2",
    "+1", "1_0", "١", "²", "a", "x-y", "bytes", "Bytes", "BYTES ", " bytes",
    "items", "bytes=", "bytes=0-", "bytes=-5", "bytes=0-9,20-29", "bytes=0-9,5-29",
    "bytes=0-,5-6", "bytes=-5,0-1", "bytes=-5,-6", "bytes=0-9,-5", " - ", " -5", "5 -",
    "5 - 9", "1 0-20", "\x00", "\n", "\r\n", ";", "9999999999999999999999",
    "-9999999999999999999999", "0x10", "1e3", "1.5", "−" "5", "１",
]
ALPHABET = list("0123456789-=, \tbytesBx+_١\x00;\n") + ["--", "=-", ",-", "-,"]


def gen(rng):
    # exhaustive small combinations of atoms
    for a in ATOMS:
        yield a
    for a, b in itertools.product(ATOMS, repeat=2):
        yield a + b
        yield a + "=" + b
        yield "bytes=" + a + "," + b
    # random strings from alphabet
    for _ in range(40000):
        n = rng.randint(0, 14)
        yield "".join(rng.choice(ALPHABET) for _ in range(n))
    # structured: unit = list of range-specs
    for _ in range(40000):
        parts = []
        for _ in range(rng.randint(0, 5)):
            kind = rng.randint(0, 6)
            a = str(rng.randint(0, 30))
            b = str(rng.randint(0, 30))
            ws = rng.choice(["", " ", "\t", "  "])
            if kind == 0:
                parts.append(f"{ws}{a}-{b}{ws}")
            elif kind == 1:
                parts.append(f"{a}{ws}-{ws}")
            elif kind == 2:
                parts.append(f"{ws}-{b}")
            elif kind == 3:
                parts.append(f"{a}{ws}-{ws}{b}")
            elif kind == 4:
                parts.append(rng.choice(ATOMS))
            elif kind == 5:
                parts.append(f"{a}-{b}-{a}")
            else:
                parts.append(f"{a}")
        unit = rng.choice(["bytes", "Bytes ", " items", "", "a=b", "Ünit"])
        yield unit + rng.choice(["=", " = ", "==", ""]) + ",".join(parts)


def gen_ascending(rng):
    # mostly valid, ascending multi-range headers with occasional perturbation
    for _ in range(20000):
        pos = 0
        parts = []
        for _ in range(rng.randint(1, 5)):
            a = pos + rng.randint(0, 5)
            b = a + rng.randint(-1, 6)
            ws = rng.choice(["", "", " ", "\t"])
            k = rng.randint(0, 9)
            if k == 0:
                parts.append(f"{a}-")
            elif k == 1:
                parts.append(f"-{rng.randint(0, 9)}")
            else:
                parts.append(f"{ws}{a}{ws}-{ws}{b}{ws}")
            pos = b + rng.randint(0, 2)
        yield rng.choice(["bytes=", "BYTES =", "=", "x=y="]) + ",".join(parts)


def main():
    rng = random.Random(707)
    n = 0
    bad = 0
    outcomes = {"NONE": 0, "RANGE": 0, "EXC": 0}
    for v in itertools.chain([None], gen(rng), gen_ascending(rng)):
        a = run(orig_parse_range_header, v)
        b = run(new_parse_range_header, v)
        n += 1
        outcomes[a[0]] += 1
        if a != b:
            bad += 1
            if bad <= 10:
                print("MISMATCH", repr(v), a, b)
    print(f"inputs={n} outcomes={outcomes} mismatches={bad}")
    print("PASS" if bad == 0 and outcomes["RANGE"] > 1000 else "FAIL")


if __name__ == "__main__":
    main()
