"""Differential check: refactored werkzeug.http.parse_cookie and
werkzeug.sansio.http.parse_cookie vs. the original implementations."""
import random
import re
import sys
import typing as t

from werkzeug import datastructures as ds
from werkzeug.http import parse_cookie as new_http_parse_cookie
from werkzeug.sansio.http import parse_cookie as new_sansio_parse_cookie

_cookie_re = re.compile(
    r"""
    ([^=;]*)
    (?:\s*=\s*
      (
        "(?:[^\\"]|\\.)*"
      |
        .*?
      )
    )?
    \s*;\s*
    """,
    flags=re.ASCII | re.VERBOSE,
)
_cookie_unslash_re = re.compile(rb"\\([0-3][0-7]{2}|.)")


def _cookie_unslash_replace(m):
    v = m.group(1)

    if len(v) == 1:
        return v

    return int(v, 8).to_bytes(1, "big")


def old_sansio_parse_cookie(cookie=None, cls=None):
    if cls is None:
        cls = t.cast("type[ds.MultiDict[str, str]]", ds.MultiDict)

    if not cookie:
        return cls()

    cookie = f"{cookie};"
    out = []

    for ck, cv in _cookie_re.findall(cookie):
        ck = ck.strip()
        cv = cv.strip()

        if not ck:
            continue

        if len(cv) >= 2 and cv[0] == cv[-1] == '"':
            # Work with bytes here, since a UTF-8 character could be multiple bytes.
            cv = _cookie_unslash_re.sub(
                _cookie_unslash_replace, cv[1:-1].encode()
            ).decode(errors="replace")

        out.append((ck, cv))

    return cls(out)


def old_http_parse_cookie(header, cls=None):
    if isinstance(header, dict):
        cookie = header.get("HTTP_COOKIE")
    else:
        cookie = header

    if cookie:
        cookie = cookie.encode("latin1").decode(errors="replace")

    return old_sansio_parse_cookie(cookie=cookie, cls=cls)


def run(f, *a, **kw):
    try:
        r = f(*a, **kw)
    except BaseException as e:  # noqa: B036
        return ("exc", type(e), str(e))
    return ("ok", type(r), list(r.items(multi=True)) if isinstance(r, ds.MultiDict) else list(r.items()))


rnd = random.Random(23)
ATOMS = [
    '"', '"', '\\', '\\\\', '\\"', '""', ';', ';', '; ', ' ;', '=', '=', ' = ', ' ', '\t',
    'a', 'b', 'session', 'id', 'x y', '\\073', '\\054', '\\343\\201\\202', '\\377', '\\400',
    '\\0', '\\07', '\\n', '\n', '\r\n', ',', 'é', '€', '\xa0', '\xe3\x81\x82', '\xff', '\x80',
    '\x00', '\x1c', 'ſ', ' ', '\ud800', '"a;b"', '"a\\"b"', '"unterminated', 'k="v"',
    'k=v', '=v', 'k', 'k=', '"k"=v', '%20', '"\\', "'",
]
LATIN1_ATOMS = [a for a in ATOMS if all(ord(c) < 256 for c in a)]


def gen(atoms):
    k = rnd.random()
    if k < 0.5:
        return "".join(rnd.choice(atoms) for _ in range(rnd.randint(0, 12)))
    if k < 0.9:
        out = []
        for _ in range(rnd.randint(0, 5)):
            key = rnd.choice(["a", " b ", "", "sess ion", "k", "k", "é", '"q"'])
            c = rnd.random()
            if c < 0.15:
                out.append(key)
                continue
            if c < 0.5:
                val = "".join(rnd.choice(['a', ' ', '=', '"', ',', 'é', '\\']) for _ in range(rnd.randint(0, 5)))
            else:
                body = "".join(
                    rnd.choice(['a', ' ', ';', '\\', '\\\\', '\\"', '"', '\\073', '\\303\\251', '\\3', '=', 'é', '\xc3\xa9'])
                    for _ in range(rnd.randint(0, 8))
                )
                val = '"' + body + rnd.choice(['"', '"', '"', '', '\\'])
            out.append(key + rnd.choice(["=", " = ", "= "]) + val + rnd.choice(["", " ", "x"]))
        return rnd.choice([";", "; ", " ;", ";;"]).join(out)
    return "".join(rnd.choice('ab"\\;= 0137') for _ in range(rnd.randint(0, 20)))


bad = 0
count = 0


def compare(label, o, n, c):
    global bad, count
    count += 1
    if o != n:
        bad += 1
        if bad < 10:
            print("MISMATCH", label, repr(c), o, n)


fixed = [None, "", ";", "a", "a=", "=b", "a=b", 'a="b"', 'a="', 'a=""', 'a="\\"', 'a="\\073"; b=c',
         'a=b; a=c', ' a = "b c" ; d', 'a="b";c="d', 'a="\\343\\201\\202"']

# sansio.http.parse_cookie: any str (including non latin-1 and lone surrogates)
for c in fixed + [gen(ATOMS) for _ in range(40000)]:
    compare("sansio", run(old_sansio_parse_cookie, c), run(new_sansio_parse_cookie, c), c)
    compare("sansio-kw", run(old_sansio_parse_cookie, cookie=c, cls=dict),
            run(new_sansio_parse_cookie, cookie=c, cls=dict), c)

# http.parse_cookie: str header (latin-1 as delivered by WSGI, plus some that are not),
# environ dicts, None, odd types
for i in range(40000):
    c = gen(LATIN1_ATOMS if i % 4 else ATOMS)
    compare("http-str", run(old_http_parse_cookie, c), run(new_http_parse_cookie, c), c)
    env = {"HTTP_COOKIE": c, "PATH_INFO": "/"}
    compare("http-env", run(old_http_parse_cookie, env), run(new_http_parse_cookie, env), c)
    compare("http-env-cls", run(old_http_parse_cookie, env, cls=ds.ImmutableMultiDict),
            run(new_http_parse_cookie, env, cls=ds.ImmutableMultiDict), c)

for c in fixed + [{}, {"HTTP_COOKIE": None}, {"HTTP_COOKIE": ""}, {"HTTP_COOKIE": b"a=b"}, b"a=b", 0, 5, ["a=b"], (), ds.MultiDict()]:
    compare("http-misc", run(old_http_parse_cookie, c), run(new_http_parse_cookie, c), c)
    compare("http-misc-dict", run(old_http_parse_cookie, c, dict), run(new_http_parse_cookie, c, dict), c)

print("comparisons", count)
print("PASS" if not bad else f"FAIL ({bad})")
sys.exit(1 if bad else 0)
