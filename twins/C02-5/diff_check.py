"""Differential check for refactoring 2 (test.stream_encode_multipart).

Compares the refactored werkzeug.test.stream_encode_multipart (imported from the
worktree) against a pasted copy of the ORIGINAL implementation on generated
form/file mappings; also checks EnvironBuilder -> Request.form/files round trip.
Run: cd /tmp/wt9-C02 && PYTHONPATH=/tmp/wt9-C02/src /venv/bin/python /tmp/twin5-C02/2/diff_check.py
"""
from __future__ import annotations

import mimetypes
import random
import sys
import typing as t
from io import BytesIO
from random import random as _random
from tempfile import TemporaryFile
from time import time

import werkzeug
from werkzeug.datastructures import FileStorage
from werkzeug.datastructures import Headers
from werkzeug.datastructures import MultiDict
from werkzeug.sansio.multipart import Data
from werkzeug.sansio.multipart import Epilogue
from werkzeug.sansio.multipart import Field
from werkzeug.sansio.multipart import File
from werkzeug.sansio.multipart import MultipartEncoder
from werkzeug.sansio.multipart import Preamble
from werkzeug.test import _iter_data
from werkzeug.test import EnvironBuilder
from werkzeug.test import encode_multipart
from werkzeug.test import stream_encode_multipart as new_sem
from werkzeug.wrappers import Request

assert werkzeug.__file__.startswith("/tmp/wt9-C02/"), werkzeug.__file__


# ---------------------------------------------------------------- ORIGINAL
def orig_sem(data, use_tempfile=True, threshold=1024 * 500, boundary=None):
    if boundary is None:
        boundary = f"---------------WerkzeugFormPart_{time()}{_random()}"

    stream: t.IO[bytes] = BytesIO()
    total_length = 0
    on_disk = False
    write_binary: t.Callable[[bytes], int]

    if use_tempfile:

        def write_binary(s: bytes) -> int:
            nonlocal stream, total_length, on_disk

            if on_disk:
                return stream.write(s)
            else:
                length = len(s)

                if length + total_length <= threshold:
                    stream.write(s)
                else:
                    new_stream = t.cast(t.IO[bytes], TemporaryFile("wb+"))
                    new_stream.write(stream.getvalue())  # type: ignore
                    new_stream.write(s)
                    stream = new_stream
                    on_disk = True

                total_length += length
                return length

    else:
        write_binary = stream.write

    encoder = MultipartEncoder(boundary.encode())
    write_binary(encoder.send_event(Preamble(data=b"")))
    for key, value in _iter_data(data):
        reader = getattr(value, "read", None)
        if reader is not None:
            filename = getattr(value, "filename", getattr(value, "name", None))
            content_type = getattr(value, "content_type", None)
            if content_type is None:
                content_type = (
                    filename
                    and mimetypes.guess_type(filename)[0]
                    or "application/octet-stream"
                )
            headers = value.headers
            headers.update([("Content-Type", content_type)])
            if filename is None:
                write_binary(encoder.send_event(Field(name=key, headers=headers)))
            else:
                write_binary(
                    encoder.send_event(
                        File(name=key, filename=filename, headers=headers)
                    )
                )
            while True:
                chunk = reader(16384)

                if not chunk:
                    write_binary(encoder.send_event(Data(data=chunk, more_data=False)))
                    break

                write_binary(encoder.send_event(Data(data=chunk, more_data=True)))
        else:
            if not isinstance(value, str):
                value = str(value)
            write_binary(encoder.send_event(Field(name=key, headers=Headers())))
            write_binary(encoder.send_event(Data(data=value.encode(), more_data=False)))

    write_binary(encoder.send_event(Epilogue(data=b"")))

    length = stream.tell()
    stream.seek(0)
    return stream, length, boundary


# ---------------------------------------------------------------- generators
class Obj:
    """file-like object with configurable attributes"""

    def __init__(self, content, chunk_cap, attrs, end_value=b"", log=None):
        self._buf = content
        self._pos = 0
        self._cap = chunk_cap
        self._end = end_value
        self.calls = []
        for k, v in attrs.items():
            setattr(self, k, v)

    def read(self, n=-1):
        self.calls.append(n)
        if self._pos >= len(self._buf):
            return self._end
        m = n if self._cap is None else min(n, self._cap)
        out = self._buf[self._pos : self._pos + m]
        self._pos += m
        return out


UNI = "aZ09 _-.;=*'%/,:é€ßжш中\U0001f600​\x7f\t"  # domain: no quote, backslash, CR, LF
EXTS = ["", ".txt", ".png", ".json", ".tar.gz", ".html", ".unknownext", ".PDF", "."]
BOUNDARIES = ["b", "bound", "----x", "-----------WerkzeugFormPart_1.0", "AaB03x" * 5]


def text(r, lo=0, hi=8, alpha=UNI):
    return "".join(r.choice(alpha) for _ in range(r.randint(lo, hi)))


def payload(r, boundary):
    c = r.random()
    if c < 0.1:
        return b""
    if c < 0.2:
        return bytes(r.getrandbits(8) for _ in range(r.randint(16000, 40000)))
    b = boundary.encode()
    atoms = [b"\r", b"\n", b"\r\n", b"--", b"-", b"--" + b, b"\r\n--" + b[:-1], b"\r\n--" + b,
             b"\r\n--" + b + b"--", b"a", b"\x00", b"\xff", b" ", b"\t"]
    return b"".join(r.choice(atoms) for _ in range(r.randint(0, 10)))


def describe(r):
    """Return a picklable-ish description; build() makes fresh objects from it."""
    boundary = r.choice(BOUNDARIES) if r.random() < 0.9 else text(r, 1, 6, "abc-_'")
    items = []
    for _ in range(r.randint(0, 5)):
        key = text(r, 0, 6)
        kind = r.choice(["str", "str", "int", "none", "bytes", "list", "fs", "fs", "fs", "obj", "obj", "bytesio", "float"])
        if kind == "str":
            v = ("str", text(r, 0, 10, UNI + '"\\\r\n'))
        elif kind == "int":
            v = ("int", r.randint(-5, 10**6))
        elif kind == "float":
            v = ("float", r.random())
        elif kind == "none":
            v = ("none",)
        elif kind == "bytes":
            v = ("bytes", payload(r, boundary)[:20])
        elif kind == "list":
            v = ("list", [("str", text(r, 0, 5)) if r.random() < 0.6 else ("fs", payload(r, boundary), text(r, 0, 5) + r.choice(EXTS), None, None) for _ in range(r.randint(0, 3))])
        elif kind == "fs":
            fn = r.choice([None, "", text(r, 0, 6) + r.choice(EXTS), text(r, 1, 6) + r.choice(EXTS)])
            ct = r.choice([None, None, "", "text/plain", "application/x-foo; charset=utf-8", "image/png"])
            hdrs = r.choice([None, None, [("X-Extra", "1")], [("Content-Type", "a/b"), ("X-Y", "é")], [("Content-Disposition", "zzz")]])
            v = ("fs", payload(r, boundary), fn, ct, hdrs)
        elif kind == "obj":
            attrs = {}
            if r.random() < 0.85:
                attrs["headers"] = ("H", r.choice([[], [("X-A", "b")], [("content-type", "q/r")]]))
            c = r.random()
            if c < 0.3:
                attrs["name"] = r.choice([text(r, 0, 6) + r.choice(EXTS), "", None, 3])
            elif c < 0.6:
                attrs["filename"] = r.choice([text(r, 0, 6) + r.choice(EXTS), "", None])
            elif c < 0.7:
                attrs["filename"] = text(r, 1, 4) + ".txt"
                attrs["name"] = "other.png"
            if r.random() < 0.4:
                attrs["content_type"] = r.choice([None, "", "text/x", "application/json"])
            cap = r.choice([None, None, 1, 3, 100, 16384])
            endv = r.choice([b"", b"", b"", None, ""])
            pl = payload(r, boundary)
            if cap in (1, 3):
                pl = pl[:50]
            if r.random() < 0.05:
                pl = pl.decode("latin-1")  # str chunks -> TypeError expected in both
            v = ("obj", pl, cap, attrs, endv)
        else:
            v = ("bytesio", payload(r, boundary)[:30])
        items.append((key, v))
    container = r.choice(["dict", "multidict", "multidict"])
    use_tempfile = r.random() < 0.7
    threshold = r.choice([1024 * 500, 0, 10, 100, 1000, 20000])
    return dict(boundary=boundary, items=items, container=container, use_tempfile=use_tempfile, threshold=threshold)


def build_value(v, made):
    k = v[0]
    if k in ("str", "int", "float", "bytes"):
        return v[1]
    if k == "none":
        return None
    if k == "list":
        return [build_value(x, made) for x in v[1]]
    if k == "fs":
        _, pl, fn, ct, hdrs = v
        fs = FileStorage(BytesIO(pl), filename=fn, content_type=ct, headers=Headers(hdrs) if hdrs is not None else None)
        made.append(fs)
        return fs
    if k == "obj":
        _, pl, cap, attrs, endv = v
        attrs = dict(attrs)
        if "headers" in attrs:
            attrs["headers"] = Headers(attrs["headers"][1])
        o = Obj(pl, cap, attrs, endv)
        made.append(o)
        return o
    if k == "bytesio":
        return BytesIO(v[1])
    raise AssertionError(k)


def build(desc):
    made = []
    if desc["container"] == "dict":
        d = {}
        for key, v in desc["items"]:
            d[key] = build_value(v, made)
    else:
        d = MultiDict()
        for key, v in desc["items"]:
            val = build_value(v, made)
            if isinstance(val, list):
                for x in val:
                    d.add(key, x)
            else:
                d.add(key, val)
    return d, made


def run(fn, desc):
    data, made = build(desc)
    try:
        stream, length, boundary = fn(data, use_tempfile=desc["use_tempfile"], threshold=desc["threshold"], boundary=desc["boundary"])
        pos = stream.tell()
        body = stream.read()
        res = ("ok", type(stream).__name__, length, boundary, pos, body)
        stream.close()
    except Exception as e:  # noqa: B902
        res = ("exc", type(e).__name__, str(e))
    # side effects on inputs: header mutation and read-call sequences
    side = []
    for m in made:
        h = getattr(m, "headers", None)
        side.append(list(h) if h is not None else None)
        side.append(getattr(m, "calls", None))
        if isinstance(m, FileStorage):
            side.append(m.stream.tell())
    return res, side


rng = random.Random(20260503)
N = 6000
bad = 0
ok = exc = 0
multi_chunk = 0
for i in range(N):
    desc = describe(rng)
    a = run(orig_sem, desc)
    b = run(new_sem, desc)
    if a[0][0] == "ok":
        ok += 1
    else:
        exc += 1
    if any(isinstance(c, list) and len(c) > 2 for c in a[1]):
        multi_chunk += 1
    if a != b:
        bad += 1
        if bad < 10:
            print("MISMATCH", desc, a[0][:5], b[0][:5])

# ---- default boundary path (random): just check shape equality of the format
s, l, bnd = new_sem({"a": "b"})
assert bnd.startswith("---------------WerkzeugFormPart_") and l == len(s.read())

# ---- end to end: EnvironBuilder -> Request.form / Request.files, original vs refactored
import werkzeug.test as wtest


def via_builder(fn, mk, bnd):
    wtest.stream_encode_multipart = lambda data: fn(data, boundary=bnd)
    try:
        builder = EnvironBuilder(method="POST", data=mk())
        env = builder.get_environ()
        req = Request(env)
        out = (
            env["CONTENT_TYPE"],
            env["CONTENT_LENGTH"],
            list(req.form.items(multi=True)),
            [(k, f.read(), f.filename, f.content_type, list(f.headers)) for k, f in req.files.items(multi=True)],
        )
        builder.close()
        return out
    except Exception as e:  # noqa: B902
        return ("exc", type(e).__name__)
    finally:
        wtest.stream_encode_multipart = new_sem


e2e = 0
e2e_identity = 0
for i in range(1500):
    bnd = rng.choice(BOUNDARIES)
    fields = [(text(rng, 0, 6), text(rng, 0, 10, UNI + "\r\n\"\\")) for _ in range(rng.randint(0, 4))]
    files = [(text(rng, 0, 6), payload(rng, bnd)[:300], text(rng, 1, 6) + rng.choice(EXTS), rng.choice([None, "text/plain", "application/x-foo"])) for _ in range(rng.randint(1, 3))]
    order = [("f", x) for x in fields] + [("u", x) for x in files]
    rng.shuffle(order)

    def mk():
        md = MultiDict()
        for kind, x in order:
            if kind == "f":
                md.add(x[0], x[1])
            else:
                md.add(x[0], FileStorage(BytesIO(x[1]), filename=x[2], content_type=x[3]))
        return md

    s1, l1, _ = orig_sem(mk(), boundary=bnd)
    b1 = s1.read()
    bnd2, b2 = encode_multipart(mk(), boundary=bnd)
    if b1 != b2 or l1 != len(b2) or bnd2 != bnd:
        bad += 1
        print("E2E BODY MISMATCH", order)
    a = via_builder(orig_sem, mk, bnd)
    b = via_builder(new_sem, mk, bnd)
    if a != b:
        bad += 1
        print("E2E PARSE MISMATCH", order, a, b)
    if a[0] != "exc" and a[2] == [x for k, x in order if k == "f"]:
        e2e_identity += 1
    e2e += 1

print(f"compared {N} mappings (ok={ok}, exc={exc}, multi-chunk={multi_chunk}), {e2e} end-to-end ({e2e_identity} with fields identical to input), mismatches={bad}")
print("PASS" if bad == 0 else "FAIL")
sys.exit(0 if bad == 0 else 1)
