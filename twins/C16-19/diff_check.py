"""Differential check for refactoring 1 (C16): _DictAccessorProperty.__get__/__set__.

Compares the worktree's _DictAccessorProperty against a pasted copy of the
ORIGINAL implementation on generated inputs, including the order of side
effects (lookup / dump_func / load_func calls) and raised exception types.
Also compares real Response header properties built on either base class.
"""
import random
import typing as t
from datetime import datetime, timedelta, timezone

from werkzeug import http
from werkzeug._internal import _DictAccessorProperty as New
from werkzeug.datastructures import Headers, HeaderSet
from werkzeug.sansio.response import Response


class Orig:
    read_only = False

    def __init__(self, name, default=None, load_func=None, dump_func=None,
                 read_only=None, doc=None):
        self.name = name
        self.default = default
        self.load_func = load_func
        self.dump_func = dump_func
        if read_only is not None:
            self.read_only = read_only
        self.__doc__ = doc

    def lookup(self, instance):
        raise NotImplementedError

    def __get__(self, instance, owner):
        if instance is None:
            return self

        storage = self.lookup(instance)

        if self.name not in storage:
            return self.default  # type: ignore

        value = storage[self.name]

        if self.load_func is not None:
            try:
                return self.load_func(value)
            except (ValueError, TypeError):
                return self.default  # type: ignore

        return value  # type: ignore

    def __set__(self, instance, value):
        if self.read_only:
            raise AttributeError("read only property")

        if self.dump_func is not None:
            self.lookup(instance)[self.name] = self.dump_func(value)
        else:
            self.lookup(instance)[self.name] = value

    def __delete__(self, instance):
        if self.read_only:
            raise AttributeError("read only property")

        self.lookup(instance).pop(self.name, None)

    def __repr__(self):
        return f"<{type(self).__name__} {self.name}>"


class Boom(Exception):
    pass


def make_funcs(log):
    def rec(name, f):
        def wrapper(v):
            log.append((name, repr(v)))
            return f(v)
        return wrapper

    def raise_(exc):
        def f(v):
            raise exc("x")
        return f

    loads = {
        "none": None,
        "int": rec("load", int),
        "date": rec("load", http.parse_date),
        "set": rec("load", http.parse_set_header),
        "age": rec("load", http.parse_age),
        "ve": rec("load", raise_(ValueError)),
        "te": rec("load", raise_(TypeError)),
        "ke": rec("load", raise_(KeyError)),
        "boom": rec("load", raise_(Boom)),
        "uni": rec("load", raise_(UnicodeDecodeError.__new__)),
    }
    dumps = {
        "none": None,
        "str": rec("dump", str),
        "date": rec("dump", http.http_date),
        "hdr": rec("dump", http.dump_header),
        "age": rec("dump", http.dump_age),
        "ve": rec("dump", raise_(ValueError)),
        "boom": rec("dump", raise_(Boom)),
    }
    return loads, dumps


class LoggedDict(dict):
    log: list

    def __contains__(self, k):
        self.log.append(("contains", k))
        return dict.__contains__(self, k)

    def __getitem__(self, k):
        self.log.append(("getitem", k))
        return dict.__getitem__(self, k)

    def __setitem__(self, k, v):
        self.log.append(("setitem", k, repr(v)))
        dict.__setitem__(self, k, v)

    def pop(self, *a):
        self.log.append(("pop",) + tuple(map(repr, a)))
        return dict.pop(self, *a)


def build(base, log, kind, name, default, load, dump, read_only, broken_lookup):
    class Prop(base):
        def lookup(self, inst):
            log.append(("lookup",))
            if broken_lookup:
                raise Boom("lookup")
            return inst.storage

    class Holder:
        prop = Prop(name, default, load, dump, read_only, "doc")

        def __init__(self, storage):
            self.storage = storage

    return Holder


def snapshot(storage):
    if isinstance(storage, Headers):
        return list(storage)
    return sorted((k, repr(v)) for k, v in dict.items(storage))


VALUES = [
    0, 1, -5, 3.7, "", "abc", "12", " 42 ", "+3", "١٢", "a, b", '"q", x', None, True,
    b"bytes", ["a", "b"], ("x",), {"k": "v"}, HeaderSet(["A", "b"]),
    datetime(2020, 1, 2, 3, 4, 5, 678, tzinfo=timezone.utc),
    datetime(2020, 1, 2, 3, 4, 5),
    timedelta(seconds=90), "Thu, 02 Jan 2020 03:04:05 GMT", "x\ny", "é", object,
]
NAMES = ["Age", "age", "X-Thing", "Content-Length", "Retry-After", "wsgi.thing"]


def run(base, rng):
    out = []
    log: list = []
    loads, dumps = make_funcs(log)
    kind = rng.choice(["dict", "headers"])
    name = rng.choice(NAMES)
    default = rng.choice([None, 0, "dflt", ()])
    lk = rng.choice(list(loads))
    dk = rng.choice(list(dumps))
    read_only = rng.choice([None, None, False, True])
    broken = rng.random() < 0.05
    Holder = build(base, log, kind, name, default, loads[lk], dumps[dk], read_only, broken)
    if kind == "dict":
        storage = LoggedDict()
        storage.log = log
    else:
        storage = Headers()
    # pre-seed
    for _ in range(rng.randrange(3)):
        k = rng.choice(NAMES + [name.upper(), name.lower()])
        v = rng.choice([v for v in VALUES if isinstance(v, str) and "\n" not in v])
        if kind == "dict":
            dict.__setitem__(storage, k, v)
        else:
            storage.add(k, v)
    h = Holder(storage)
    out.append(("cfg", kind, name, repr(default), lk, dk, read_only, broken))
    out.append(("cls", type(Holder.prop).__mro__[1].__name__ in ("Orig", "_DictAccessorProperty"),
                Holder.prop.name, Holder.prop.read_only, Holder.prop.__doc__))
    for _ in range(rng.randrange(1, 8)):
        op = rng.choice(["get", "get", "set", "set", "del"])
        del log[:]
        try:
            if op == "get":
                r = h.prop
                res = ("ok", type(r).__name__, repr(r) if r is not object else "object")
            elif op == "set":
                v = rng.choice(VALUES)
                h.prop = v
                res = ("ok", repr(v) if v is not object else "object")
            else:
                del h.prop
                res = ("ok",)
        except BaseException as e:  # noqa: B036
            res = ("exc", type(e).__name__, str(e))
        out.append((op, res, list(log), snapshot(storage)))
    return out


class OrigHeaderProp(Orig):
    def lookup(self, obj):
        return obj.headers


def response_pair():
    """A Response subclass whose header_property attributes are rebuilt on Orig."""
    from werkzeug.utils import header_property

    ns = {}
    names = []
    for klass in Response.__mro__:
        for attr, val in vars(klass).items():
            if isinstance(val, header_property) and attr not in ns:
                ns[attr] = OrigHeaderProp(val.name, val.default, val.load_func,
                                          val.dump_func, val.read_only, val.__doc__)
                names.append(attr)
    return type("OrigResponse", (Response,), ns), names


def run_response(cls, names, rng):
    out = []
    r = cls()
    for _ in range(rng.randrange(1, 10)):
        attr = rng.choice(names)
        op = rng.choice(["get", "set", "set", "del", "raw"])
        try:
            if op == "get":
                res = repr(getattr(r, attr))
            elif op == "set":
                v = rng.choice(VALUES)
                setattr(r, attr, v)
                res = repr(getattr(r, attr))
            elif op == "del":
                delattr(r, attr)
                res = repr(getattr(r, attr))
            else:
                hname = getattr(cls, attr).name
                r.headers[hname] = rng.choice(
                    [v for v in VALUES if isinstance(v, str) and "\n" not in v])
                res = repr(getattr(r, attr))
        except BaseException as e:  # noqa: B036
            res = ("exc", type(e).__name__)
        out.append((attr, op, res, list(r.headers)))
    return out


def main():
    n = 0
    for seed in range(6000):
        a = run(Orig, random.Random(seed))
        b = run(New, random.Random(seed))
        if a != b:
            print("FAIL generic seed", seed)
            for x, y in zip(a, b):
                if x != y:
                    print(" orig", x)
                    print(" new ", y)
            return
        n += len(a)

    # class-level access returns the descriptor itself
    class P(New):
        def lookup(self, inst):
            return {}

    class H:
        p = P("x")

    assert H.p is H.__dict__["p"]

    OrigResponse, names = response_pair()
    for seed in range(4000):
        a = run_response(OrigResponse, names, random.Random(seed))
        b = run_response(Response, names, random.Random(seed))
        if a != b:
            print("FAIL response seed", seed)
            for x, y in zip(a, b):
                if x != y:
                    print(" orig", x)
                    print(" new ", y)
            return
        n += len(a)
    print(f"PASS ({n} compared steps, {len(names)} response header properties)")


if __name__ == "__main__":
    main()
