"""Differential check for refactoring 2 (CombinedMultiDict.get / getlist /
items).

Run: cd /tmp/wt13-C08 && PYTHONPATH=/tmp/wt13-C08/src /venv/bin/python /tmp/twin8-C08/2/diff_check.py

The ORIGINAL bodies of the three touched methods are pasted below and mounted
on a subclass of the worktree's CombinedMultiDict.  Random stacks of wrapped
dicts are built (and mutated afterwards, the view is read-through) and every
read is compared between the refactored class and the original one: return
values, raised exception types, iteration order, hashes, pickles and copies.
"""

from __future__ import annotations

import copy
import pickle
import random
import sys

from werkzeug.datastructures import CombinedMultiDict
from werkzeug.datastructures import ImmutableMultiDict
from werkzeug.datastructures import MultiDict


class OrigCombined(CombinedMultiDict):
    # ---- original code, verbatim -------------------------------------
    def get(self, key, default=None, type=None):
        for d in self.dicts:
            if key in d:
                if type is not None:
                    try:
                        return type(d[key])
                    except (ValueError, TypeError):
                        continue
                return d[key]
        return default

    def getlist(self, key, type=None):
        rv = []
        for d in self.dicts:
            rv.extend(d.getlist(key, type))  # type: ignore[arg-type]
        return rv

    def items(self, multi=False):
        found = set()
        for d in self.dicts:
            for key, value in d.items(multi):
                if multi:
                    yield key, value
                elif key not in found:
                    found.add(key)
                    yield key, value

    # ------------------------------------------------------------------


KEYS = ["a", "b", "c", "d", "A", "", 1, 1.0, True, None, ("t", 1), "zz"]
UNHASHABLE_KEYS = [[1], {"a": 1}]
VALUES = ["1", "2", "x", "", "3.5", "-7", 0, 1, 2.5, None, "abc", ("t",), b"4"]


def conv_keyerror(v):
    raise KeyError(v)


def conv_picky(v):
    if v in ("1", 1):
        raise ValueError(v)
    if v in ("2", None):
        raise TypeError(v)
    return ("ok", v)


TYPES = [None, None, int, float, str, str.upper, conv_picky, conv_keyerror, len]
MULTI = [False, True, 0, 1, "", "yes", None]


def rpairs(r):
    return [(r.choice(KEYS), r.choice(VALUES)) for _ in range(r.randrange(0, 6))]


def build(r, cls, spec):
    """spec is a list of (kind, pairs) so that both stacks get equal, but
    separate, wrapped dicts."""
    dicts = []
    for kind, pairs in spec:
        if kind == "multi":
            dicts.append(MultiDict(pairs))
        elif kind == "immutable":
            dicts.append(ImmutableMultiDict(pairs))
        elif kind == "emptylist":
            md = MultiDict(pairs)
            # a key whose value list is empty (possible through setlist)
            md.setlist("a", [])
            dicts.append(md)
        elif kind == "nested":
            dicts.append(cls([MultiDict(pairs[:2]), MultiDict(pairs[2:])]))
        else:
            raise AssertionError(kind)
    return cls(dicts)


def rspec(r):
    n = r.choice([0, 1, 1, 2, 2, 3, 4])
    return [
        (r.choice(["multi", "multi", "immutable", "emptylist", "nested"]), rpairs(r))
        for _ in range(n)
    ]


def outcome(f):
    try:
        rv = f()
    except Exception as e:  # noqa: BLE001
        # the harness subclass name is the only permitted difference
        return ("exc", type(e), repr(e.args).replace("OrigCombined", "CombinedMultiDict"))
    return ("ok", rv)


def norm(x):
    """Replace the harness subclass by its base so reprs compare equal."""
    return repr(x).replace("OrigCombined", "CombinedMultiDict")


def snapshot(c, r_seed):
    r = random.Random(r_seed)
    out = []
    allkeys = KEYS + UNHASHABLE_KEYS
    for _ in range(12):
        key = r.choice(allkeys)
        typ = r.choice(TYPES)
        default = r.choice([None, "dflt", 0])
        out.append(outcome(lambda: c.get(key, default, typ)))
        out.append(outcome(lambda: c.get(key, type=typ)))
        out.append(outcome(lambda: c.getlist(key, typ)))
        out.append(outcome(lambda: c.getlist(key)))
        out.append(outcome(lambda: key in c))
        out.append(outcome(lambda: c[key]))
        out.append(outcome(lambda: c.__contains__(key)))
    for multi in MULTI:
        out.append(outcome(lambda: list(c.items(multi))))
    out.append(outcome(lambda: list(c.items())))
    out.append(outcome(lambda: list(c.values())))
    out.append(outcome(lambda: sorted(map(repr, c.keys()))))
    out.append(outcome(lambda: len(c)))
    out.append(outcome(lambda: [(k, list(v)) for k, v in c.lists()]))
    out.append(outcome(lambda: [list(v) for v in c.listvalues()]))
    out.append(outcome(lambda: c.to_dict()))
    out.append(outcome(lambda: c.to_dict(flat=False)))
    out.append(outcome(lambda: (type(c.copy()), list(c.copy().items(multi=True)))))
    out.append(outcome(lambda: hash(c)))
    out.append(outcome(lambda: norm(c)))
    out.append(outcome(lambda: norm(pickle.loads(pickle.dumps(c)))))
    out.append(outcome(lambda: list(copy.deepcopy(c).items(multi=True))))
    out.append(outcome(lambda: c == dict(c.lists())))
    # generator laziness: partially consumed iterators
    it = c.items()
    out.append(outcome(lambda: next(it)))
    out.append(outcome(lambda: next(it)))
    # mutators stay blocked and leave the view unchanged
    for f in (
        lambda: c.add("a", 1),
        lambda: c.setlist("a", [1]),
        lambda: c.pop("a"),
        lambda: c.update({"a": 1}),
        lambda: c.__setitem__("a", 1),
        lambda: c.clear(),
    ):
        out.append(outcome(f))
    out.append(outcome(lambda: list(c.items(multi=True))))
    return out


def mutate_wrapped(c, r_seed):
    """The view is read-through: change the wrapped dicts afterwards."""
    r = random.Random(r_seed)
    for d in c.dicts:
        if type(d) is not MultiDict:
            continue
        action = r.randrange(4)
        if action == 0:
            d.add(r.choice(KEYS), r.choice(VALUES))
        elif action == 1:
            d.poplist(r.choice(KEYS))
        elif action == 2:
            d.setlist(r.choice(KEYS), [r.choice(VALUES) for _ in range(r.randrange(0, 3))])


def main():
    r = random.Random(80802)
    n = 0
    for i in range(4000):
        spec = rspec(r)
        new = build(r, CombinedMultiDict, spec)
        old = build(r, OrigCombined, spec)
        seed = r.random()
        for phase in range(2):
            a = snapshot(new, seed)
            b = snapshot(old, seed)
            n += len(a)
            if a != b:
                for x, y in zip(a, b):
                    if x != y:
                        print("FAIL", i, phase, spec, x, y)
                        break
                sys.exit(1)
            mseed = r.random()
            mutate_wrapped(new, mseed)
            mutate_wrapped(old, mseed)
    print(f"{n} observations compared")
    print("PASS")


if __name__ == "__main__":
    main()
