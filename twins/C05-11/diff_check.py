"""Differential check for refactoring 2
(Response.get_app_iter and wsgi.ClosingIterator.__init__).

Run: cd /tmp/wt10-C05 && PYTHONPATH=/tmp/wt10-C05/src /venv/bin/python /tmp/twin6-C05/2/diff_check.py
"""
import random
import sys
import typing as t
from functools import partial

from werkzeug.wrappers import Response
from werkzeug.wsgi import ClosingIterator


# ---- ORIGINAL implementations (copied from the unmodified tree) ----
class OrigClosingIterator:
    def __init__(self, iterable, callbacks=None) -> None:
        iterator = iter(iterable)
        self._next = t.cast(t.Callable[[], bytes], partial(next, iterator))
        if callbacks is None:
            callbacks = []
        elif callable(callbacks):
            callbacks = [callbacks]
        else:
            callbacks = list(callbacks)
        iterable_close = getattr(iterable, "close", None)
        if iterable_close:
            callbacks.insert(0, iterable_close)
        self._callbacks = callbacks

    def __iter__(self):
        return self

    def __next__(self) -> bytes:
        return self._next()

    def close(self) -> None:
        for callback in self._callbacks:
            callback()


def orig_get_app_iter(self, environ):
    status = self.status_code
    if (
        environ["REQUEST_METHOD"] == "HEAD"
        or 100 <= status < 200
        or status in (204, 304)
    ):
        iterable: t.Iterable[bytes] = ()
    elif self.direct_passthrough:
        return self.response  # type: ignore
    else:
        iterable = self.iter_encoded()
    return OrigClosingIterator(iterable, self.close)


CI_NAMES = {"OrigClosingIterator": "CI", "ClosingIterator": "CI"}


# ---------------------------------------------------------------- helpers
class Body:
    """Iterable with a logging close()."""

    def __init__(self, log, chunks, close_kind):
        self.log = log
        self.chunks = chunks
        if close_kind == "none_attr":
            self.close = None
        elif close_kind == "zero":
            self.close = 0
        elif close_kind == "raises":
            self.close = self._close_raises
        elif close_kind == "ok":
            self.close = self._close

    def _close(self):
        self.log.append("body.close")

    def _close_raises(self):
        self.log.append("body.close!")
        raise RuntimeError("boom")

    def __iter__(self):
        self.log.append("body.iter")
        return iter(self.chunks)


class FalsyCallableClose:
    def __init__(self, log):
        self.log = log

    def __bool__(self):
        self.log.append("close.bool")
        return False

    def __call__(self):
        self.log.append("falsy.close")


class CallableIterable:
    """Both callable and iterable: must be treated as a single callback."""

    def __init__(self, log):
        self.log = log

    def __call__(self):
        self.log.append("ci.call")

    def __iter__(self):
        self.log.append("ci.iter")
        return iter([])


def gen_body(log, chunks):
    try:
        for c in chunks:
            yield c
    finally:
        log.append("gen.finalised")


def make_cb(log, name, raises=False):
    def cb():
        log.append(name)
        if raises:
            raise KeyError(name)

    return cb


def make_chunks(rng):
    return [rng.choice([b"", b"a", b"bc", "ä", "xyz", b"\r\n"]) for _ in range(rng.randrange(5))]


def make_iterable(rng, log, spec):
    kind, chunks = spec
    if kind == "list":
        return list(chunks)
    if kind == "tuple":
        return tuple(chunks)
    if kind == "gen":
        return gen_body(log, chunks)
    if kind == "iter":
        return iter(chunks)
    if kind == "noniter":
        return 42
    if kind == "falsyclose":
        b = Body(log, chunks, "no")
        b.close = FalsyCallableClose(log)
        return b
    return Body(log, chunks, kind)


ITER_KINDS = ["list", "tuple", "gen", "iter", "noniter", "falsyclose", "ok", "none_attr", "zero", "raises", "no"]
CB_KINDS = ["none", "func", "list", "tuple", "gen", "empty", "int", "callable_iterable", "raising_list", "str"]


def make_callbacks(log, kind, ncb):
    if kind == "none":
        return None
    if kind == "func":
        return make_cb(log, "cb0")
    if kind == "list":
        return [make_cb(log, f"cb{i}") for i in range(ncb)]
    if kind == "tuple":
        return tuple(make_cb(log, f"cb{i}") for i in range(ncb))
    if kind == "gen":
        return (make_cb(log, f"cb{i}") for i in range(ncb))
    if kind == "empty":
        return []
    if kind == "int":
        return 7
    if kind == "callable_iterable":
        return CallableIterable(log)
    if kind == "raising_list":
        return [make_cb(log, "cb0"), make_cb(log, "cbX", raises=True), make_cb(log, "cb2")]
    if kind == "str":
        return "ab"  # iterable of non-callables -> TypeError on close()
    raise AssertionError(kind)


def drive(obj, log, nclose):
    """Consume obj like a WSGI server and close it nclose times."""
    out = []
    try:
        out.append(("iter_is_self", iter(obj) is obj))
        n = 0
        for chunk in obj:
            out.append(chunk)
            n += 1
        out.append(("next_after_end", _try(lambda: next(obj))))
    except Exception as e:  # noqa: BLE001
        out.append(("iter-exc", type(e).__name__, str(e)))
    for _ in range(nclose):
        if hasattr(obj, "close"):
            out.append(("close", _try(obj.close)))
    return out


def _try(f):
    try:
        return ("ok", f())
    except BaseException as e:  # noqa: BLE001
        return ("exc", type(e).__name__, str(e))


# ------------------------------------------------------- ClosingIterator
def run_ci(cls, spec, cbkind, ncb, nclose, rng_seed):
    log = []
    rng = random.Random(rng_seed)
    iterable = make_iterable(rng, log, spec)
    callbacks = make_callbacks(log, cbkind, ncb)
    orig_cb_list = callbacks if isinstance(callbacks, list) else None
    orig_cb_len = len(orig_cb_list) if orig_cb_list is not None else None
    try:
        ci = cls(iterable, callbacks)
    except Exception as e:  # noqa: BLE001
        return ("ctor-exc", type(e).__name__, str(e)), list(log)
    res = [len(ci._callbacks), type(ci._callbacks).__name__]
    # caller's list must not be mutated / aliased
    if orig_cb_list is not None:
        res.append(("caller_list_len_unchanged", len(orig_cb_list) == orig_cb_len))
        res.append(("aliased", ci._callbacks is orig_cb_list))
    res.append(drive(ci, log, nclose))
    return res, list(log)


# ------------------------------------------------------------- get_app_iter
STATUSES = [0, 99, 100, 101, 150, 199, 200, 201, 203, 204, 205, 206, 301, 302, 304, 305, 404, 500,
            "204 NC", "304", "100 Continue", "200 OK", "teapot"]
METHODS = ["GET", "HEAD", "POST", "head", "OPTIONS", None]


def run_app_iter(func, case):
    log = []
    rng = random.Random(case["seed"])
    body = make_iterable(rng, log, case["spec"])
    try:
        r = Response(body, status=case["status"])
    except Exception as e:  # noqa: BLE001
        return ("resp-ctor-exc", type(e).__name__), list(log)
    r.direct_passthrough = case["passthrough"]
    for i in range(case["n_on_close"]):
        r.call_on_close(make_cb(log, f"on_close{i}"))
    environ = {} if case["method"] is None else {"REQUEST_METHOD": case["method"]}
    try:
        it = func(r, environ)
    except Exception as e:  # noqa: BLE001
        return ("exc", type(e).__name__, str(e)), list(log)
    res = [CI_NAMES.get(type(it).__name__, type(it).__name__), it is r.response]
    if type(it).__name__ in CI_NAMES:
        res.append(len(it._callbacks))
    res.append(drive(it, log, case["nclose"]))
    return res, list(log)


def main():
    rng = random.Random(50502)
    bad = 0
    n1 = n2 = 0

    # exhaustive-ish sweep for ClosingIterator
    for ik in ITER_KINDS:
        for ck in CB_KINDS:
            for ncb in (0, 1, 3):
                for nclose in (0, 1, 2):
                    for _ in range(2):
                        spec = (ik, make_chunks(rng))
                        seed = rng.randrange(1 << 30)
                        a = run_ci(OrigClosingIterator, spec, ck, ncb, nclose, seed)
                        b = run_ci(ClosingIterator, spec, ck, ncb, nclose, seed)
                        n1 += 1
                        if a != b:
                            bad += 1
                            if bad <= 5:
                                print("MISMATCH CI", spec, ck, ncb, nclose, a, b, sep="\n  ")

    for _ in range(6000):
        case = dict(
            spec=(rng.choice(ITER_KINDS), make_chunks(rng)),
            status=rng.choice(STATUSES),
            method=rng.choice(METHODS),
            passthrough=rng.random() < 0.4,
            n_on_close=rng.randrange(3),
            nclose=rng.randrange(3),
            seed=rng.randrange(1 << 30),
        )
        a = run_app_iter(orig_get_app_iter, case)
        b = run_app_iter(Response.get_app_iter, case)
        n2 += 1
        if a != b:
            bad += 1
            if bad <= 5:
                print("MISMATCH app_iter", case, a, b, sep="\n  ")

    print(f"closing_iterator_cases={n1} get_app_iter_cases={n2} mismatches={bad}")
    if bad == 0:
        print("PASS")
    else:
        print("FAIL")
        sys.exit(1)


if __name__ == "__main__":
    main()
