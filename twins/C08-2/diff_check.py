"""Differential check for refactoring 2 (C08).

HeaderSet: the five copies of "if self.on_update is not None:
self.on_update(self)" (remove, update, clear, __delitem__, __setitem__) are
replaced by calls to a new private helper HeaderSet._notify_update, and the
body of the update() loop is turned into an early ``continue``.

The ORIGINAL method bodies are pasted below and mounted on a subclass of the
worktree's HeaderSet.  Both classes are driven through identical random
operation histories; after every step we compare the return value / raised
exception type, the parallel list + lowercase set, every read accessor, and
the full log of on_update callbacks (count and the state seen by the callback).

Run: cd /tmp/wt3-C08 && PYTHONPATH=/tmp/wt3-C08/src /venv/bin/python /tmp/twin-C08/2/diff_check.py
"""

from __future__ import annotations

import random
import sys

import werkzeug
from werkzeug.datastructures import HeaderSet

assert werkzeug.__file__.startswith("/tmp/wt3-C08/"), werkzeug.__file__


# --------------------------------------------------------------------------
# ORIGINAL code (verbatim from the unmodified tree)
# --------------------------------------------------------------------------
class OrigHeaderSet(HeaderSet):
    def remove(self, header):
        key = header.lower()
        if key not in self._set:
            raise KeyError(header)
        self._set.remove(key)
        for idx, item in enumerate(self._headers):
            if item.lower() == key:
                del self._headers[idx]
                break
        if self.on_update is not None:
            self.on_update(self)

    def update(self, iterable):
        inserted_any = False
        for header in iterable:
            key = header.lower()
            if key not in self._set:
                self._headers.append(header)
                self._set.add(key)
                inserted_any = True
        if inserted_any and self.on_update is not None:
            self.on_update(self)

    def clear(self):
        self._set.clear()
        self._headers.clear()

        if self.on_update is not None:
            self.on_update(self)

    def __delitem__(self, idx):
        rv = self._headers.pop(idx)
        self._set.remove(rv.lower())
        if self.on_update is not None:
            self.on_update(self)

    def __setitem__(self, idx, value):
        old = self._headers[idx]
        self._set.remove(old.lower())
        self._headers[idx] = value
        self._set.add(value.lower())
        if self.on_update is not None:
            self.on_update(self)


# --------------------------------------------------------------------------
BASE = ["foo", "bar", "accept-encoding", "ß", "İx", "ǆ", "Σς", "", "a b", 'q"t']


def ritem(r):
    k = r.choice(BASE)
    return r.choice([k, k.upper(), k.title(), k.lower(), k.swapcase()])


def ritems(r):
    items = [ritem(r) for _ in range(r.randrange(5))]
    if r.random() < 0.1:
        items.insert(r.randrange(len(items) + 1), r.choice([None, 3, b"x"]))
    return items


class Boom(Exception):
    pass


def make_cb(r, log):
    kind = r.randrange(5)
    if kind == 0:
        return None

    if kind == 1:
        def cb(hs):
            log.append(("raise", list(hs._headers), sorted(hs._set, key=repr)))
            raise Boom()

        return cb

    def cb(hs):
        log.append(("cb", list(hs._headers), sorted(hs._set, key=repr), len(hs), bool(hs)))

    return cb


def outcome(f):
    try:
        return ("ok", f())
    except BaseException as e:  # noqa: BLE001
        return ("exc", type(e))


def norm(x):
    if isinstance(x, HeaderSet):
        return ("HeaderSet", list(x._headers), sorted(x._set, key=repr))
    return x


def reads(hs, probes):
    out = [
        list(hs._headers),
        sorted(hs._set, key=repr),
        len(hs),
        bool(hs),
        list(hs),
        outcome(hs.as_set),
        outcome(lambda: hs.as_set(True)),
        outcome(hs.to_header),
        outcome(lambda: str(hs)),
        repr(hs).replace("OrigHeaderSet", "HeaderSet"),
    ]
    for p in probes:
        out.append((p in hs, outcome(lambda: hs.find(p)), outcome(lambda: hs.index(p))))
    for i in (0, -1, 2, 10):
        out.append(outcome(lambda: hs[i]))
    return out


def run_case(seed):
    r = random.Random(seed)
    log_new, log_old = [], []
    init = [x for x in ritems(r) if isinstance(x, str)]
    new = HeaderSet(init, make_cb(random.Random(seed + 1), log_new))
    old = OrigHeaderSet(init, make_cb(random.Random(seed + 1), log_old))
    checks = 0

    for step in range(r.randrange(1, 14)):
        op = r.randrange(14)
        if op == 0:
            x = ritem(r)
            fn = lambda h: h.add(x)  # noqa: E731
        elif op == 1:
            x = r.choice([ritem(r), ritem(r), None, 5])
            fn = lambda h: h.remove(x)  # noqa: E731
        elif op == 2:
            x = r.choice([ritem(r), ritem(r), None])
            fn = lambda h: h.discard(x)  # noqa: E731
        elif op == 3:
            xs = ritems(r)
            mode = r.randrange(4)
            if mode == 0:
                fn = lambda h: h.update(list(xs))  # noqa: E731
            elif mode == 1:
                fn = lambda h: h.update(iter(xs))  # noqa: E731
            elif mode == 2:
                fn = lambda h: h.update(tuple(xs))  # noqa: E731
            else:
                bad = r.choice([None, 5, "abc"])
                fn = lambda h: h.update(bad)  # noqa: E731
        elif op == 4:
            fn = lambda h: h.clear()  # noqa: E731
        elif op == 5:
            i = r.choice([0, -1, 1, 2, 9, slice(0, 2), "x"])

            def fn(h, i=i):
                del h[i]
        elif op == 6:
            i = r.choice([0, -1, 1, 2, 9, slice(0, 1)])
            v = r.choice([ritem(r), ritem(r), None])

            def fn(h, i=i, v=v):
                h[i] = v
        elif op == 7:
            fn = lambda h: h.pop()  # MutableSet mixin -> discard -> remove  # noqa: E731
        elif op == 8:
            xs = [x for x in ritems(r) if isinstance(x, str)]

            def fn(h, xs=xs):
                h |= set(xs)  # mixin __ior__ -> add -> update
                return norm(h)
        elif op == 9:
            xs = [x for x in ritems(r) if isinstance(x, str)]

            def fn(h, xs=xs):
                h -= set(xs)  # mixin __isub__ -> discard -> remove
                return norm(h)
        elif op == 10:
            xs = [x for x in ritems(r) if isinstance(x, str)]

            def fn(h, xs=xs):
                h ^= set(xs)
                return norm(h)
        elif op == 11:
            xs = [x for x in ritems(r) if isinstance(x, str)]

            def fn(h, xs=xs):
                h &= set(xs)
                return norm(h)
        elif op == 12:
            # swap the callback during the history (incl. to / from None)
            s = r.randrange(10**6)

            def fn(h, s=s):
                log = log_new if h is new else log_old
                h.on_update = make_cb(random.Random(s), log)
        else:
            xs = [x for x in ritems(r) if isinstance(x, str)]
            fn = lambda h: (h == set(xs), h <= set(xs), h.isdisjoint(xs))  # noqa: E731

        a = outcome(lambda: fn(new))
        b = outcome(lambda: fn(old))
        checks += 1
        if a != b:
            return checks, f"seed {seed} step {step}: outcome differs: {a!r} != {b!r}"
        probes = [ritem(r) for _ in range(3)]
        ra, rb = reads(new, probes), reads(old, probes)
        if ra != rb:
            return checks, f"seed {seed} step {step}: reads differ:\n {ra!r}\n {rb!r}"
        if log_new != log_old:
            return checks, f"seed {seed} step {step}: callback logs differ:\n {log_new!r}\n {log_old!r}"

    return checks, None


def main():
    total = 0
    for seed in range(6000):
        n, err = run_case(seed)
        total += n
        if err:
            print("FAIL", err)
            return 1
    print(f"compared {total} operations over 6000 histories")
    print("PASS")
    return 0


if __name__ == "__main__":
    sys.exit(main())
