"""Differential check for refactoring 1 (Headers._del_key / setlist / update).

OrigHeaders overrides the three touched methods with the ORIGINAL code; the
same random operation sequences are run on Headers (refactored, from the
worktree) and OrigHeaders and all results / exception types / final states
must agree.
"""
import collections.abc as cabc
import random
import re

from werkzeug.datastructures import Headers
from werkzeug.datastructures import ImmutableMultiDict
from werkzeug.datastructures import MultiDict


class OrigHeaders(Headers):
    def _del_key(self, key):
        key = key.lower()
        new = []

        for k, v in self._list:
            if k.lower() != key:
                new.append((k, v))

        self._list[:] = new

    def setlist(self, key, values):
        if values:
            values_iter = iter(values)
            self.set(key, next(values_iter))

            for value in values_iter:
                self.add(key, value)
        else:
            self.remove(key)

    def update(self, arg=None, /, **kwargs):
        if arg is not None:
            if isinstance(arg, (Headers, MultiDict)):
                for key in arg.keys():
                    self.setlist(key, arg.getlist(key))
            elif isinstance(arg, cabc.Mapping):
                for key, value in arg.items():
                    if isinstance(value, (list, tuple, set)):
                        self.setlist(key, value)
                    else:
                        self.set(key, value)
            else:
                for key, value in arg:
                    self.set(key, value)

        for key, value in kwargs.items():
            if isinstance(value, (list, tuple, set)):
                self.setlist(key, value)
            else:
                self.set(key, value)


KEYS = ["a", "A", "b", "B", "Content-Type", "content-type", "x_y", "X_Y", "c"]
VALS = ["1", "2", "v", "", 3, 4.5, b"by", "bad\nvalue", None]


def rkey(r):
    return r.choice(KEYS)


def rval(r):
    return r.choice(VALS)


def rvals(r):
    kind = r.randrange(7)
    n = r.randrange(0, 4)
    items = [rval(r) for _ in range(n)]
    if kind == 0:
        return items
    if kind == 1:
        return tuple(items)
    if kind == 2:
        return set(i for i in items)
    if kind == 3:
        return iter(items)  # always truthy, may be empty -> StopIteration
    if kind == 4:
        return (x for x in items)
    if kind == 5:
        return frozenset(items)
    return "".join(str(i) for i in items if isinstance(i, str))


def rarg(r):
    kind = r.randrange(9)
    n = r.randrange(0, 4)
    pairs = [(rkey(r), rval(r)) for _ in range(n)]
    if kind == 0:
        return None
    if kind == 1:
        return Headers([(k, v) for k, v in pairs if isinstance(v, str) and "\n" not in v])
    if kind == 2:
        return MultiDict(pairs)
    if kind == 3:
        return ImmutableMultiDict(pairs)
    if kind == 4:
        return {rkey(r): (rvals(r) if r.random() < 0.6 else rval(r)) for _ in range(n)}
    if kind == 5:
        return pairs
    if kind == 6:
        return iter(pairs)
    if kind == 7:
        return [(rkey(r), rval(r), 1)] + pairs  # bad shape
    return 5  # not iterable


def rkwargs(r):
    return {
        r.choice(["a", "A", "x_y", "b", "c"]): (rvals(r) if r.random() < 0.5 else rval(r))
        for _ in range(r.randrange(0, 3))
    }


def make_ops(r):
    ops = []
    for _ in range(r.randrange(1, 10)):
        c = r.randrange(12)
        if c == 0:
            ops.append(("add", (rkey(r), rval(r)), {}))
        elif c == 1:
            ops.append(("set", (rkey(r), rval(r)), {}))
        elif c == 2:
            ops.append(("setlist", (rkey(r), ("VALS", r.random())), {}))
        elif c == 3:
            ops.append(("update", (("ARG", r.random()),), ("KW", r.random())))
        elif c == 4:
            ops.append(("remove", (rkey(r),), {}))
        elif c == 5:
            ops.append(("__delitem__", (r.choice([rkey(r), 0, -1, slice(0, 2), 7]),), {}))
        elif c == 6:
            ops.append(("pop", (r.choice([rkey(r), None, 0, 9]),), {}))
        elif c == 7:
            ops.append(("pop", (rkey(r), "dflt"), {}))
        elif c == 8:
            ops.append(("setlistdefault", (rkey(r), ("VALS", r.random())), {}))
        elif c == 9:
            ops.append(("__setitem__", (rkey(r), rval(r)), {}))
        elif c == 10:
            ops.append(("_del_key", (r.choice(KEYS + [5]),), {}))
        else:
            ops.append(("extend", (("ARG", r.random()),), {}))
    return ops


def materialise(x):
    if isinstance(x, tuple) and len(x) == 2 and x[0] == "VALS":
        return rvals(random.Random(x[1]))
    if isinstance(x, tuple) and len(x) == 2 and x[0] == "ARG":
        return rarg(random.Random(x[1]))
    return x


def run(cls, init, ops):
    h = cls(init)
    trace = []
    for name, args, kw in ops:
        args = tuple(materialise(a) for a in args)
        if isinstance(kw, tuple):
            kw = rkwargs(random.Random(kw[1]))
        try:
            rv = getattr(h, name)(*args, **kw)
            trace.append(("ok", repr(rv)))
        except Exception as e:  # noqa: B902
            trace.append(("exc", type(e).__name__))
        trace.append(list(h._list))
    trace.append((h.to_wsgi_list(), str(h), [h.getlist(k) for k in KEYS]))
    return trace


def main():
    r = random.Random(8108)
    n = 0
    for _ in range(6000):
        init = [
            (rkey(r), r.choice(["1", "2", "v", ""])) for _ in range(r.randrange(0, 6))
        ]
        ops = make_ops(r)
        # object addresses in reprs of generators/iterators differ per run
        a = re.sub(r"0x[0-9a-f]+", "0x", repr(run(Headers, init, ops)))
        b = re.sub(r"0x[0-9a-f]+", "0x", repr(run(OrigHeaders, init, ops)))
        if a != b:
            print("FAIL", init, ops)
            print(a)
            print(b)
            return
        n += 1
    print(f"PASS ({n} sequences)")


if __name__ == "__main__":
    main()
