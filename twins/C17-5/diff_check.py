"""Differential check for refactoring 2 (Accept.best_match / Accept._best_single_match).

Runs the refactored methods from the worktree, then swaps in pasted copies of the
ORIGINAL methods on the Accept class and compares results (values and exception
types) on generated (header, offers, default) triples for all Accept families.
"""
from __future__ import annotations

import random
import sys

from werkzeug import datastructures as ds
from werkzeug.datastructures.accept import Accept
from werkzeug.http import parse_accept_header


def orig__best_single_match(self, match):
    for client_item, quality in self:
        if self._value_matches(match, client_item):
            # self is sorted by specificity descending, we can exit
            return client_item, quality
    return None


def orig_best_match(self, matches, default=None):
    result = default
    best_quality = -1
    best_specificity = (-1,)
    for server_item in matches:
        match = self._best_single_match(server_item)
        if not match:
            continue
        client_item, quality = match
        specificity = self._specificity(client_item)
        if quality <= 0 or quality < best_quality:
            continue
        # better quality or same quality but more specific => better match
        if quality > best_quality or specificity > best_specificity:
            result = server_item
            best_quality = quality
            best_specificity = specificity
    return result


NEW = {
    "best_match": Accept.__dict__["best_match"],
    "_best_single_match": Accept.__dict__["_best_single_match"],
}
ORIG = {"best_match": orig_best_match, "_best_single_match": orig__best_single_match}


def install(impl):
    for k, v in impl.items():
        setattr(Accept, k, v)


MIME = [
    "text/html", "text/*", "*/*", "application/json", "application/*", "text/plain",
    "text/html;level=1", "text/html; level=2", "TEXT/HTML", "image/png", "image/*",
    "*/html", "*", "text", "text/html;level=1;a=b", "text/html;a=b;level=1",
    "application/xhtml+xml", "application/xml",
]
LANG = [
    "en", "en-US", "en_US", "en-GB", "EN-us", "de", "de-DE", "de_AT", "fr", "fr-CA",
    "*", "zh-Hant-TW", "zh-Hant", "zh", "es-419", "es", "fil", "fil-PH",
]
CHARSET = [
    "utf-8", "UTF8", "utf_8", "iso-8859-1", "latin1", "latin-1", "ascii", "us-ascii",
    "*", "utf-16", "unknown-cs", "Unknown-CS", "cp1252", "windows-1252",
]
PLAIN = ["gzip", "GZIP", "deflate", "br", "identity", "*", "compress", "zstd", "x-gzip"]

FAMILIES = [
    (ds.MIMEAccept, MIME),
    (ds.LanguageAccept, LANG),
    (ds.CharsetAccept, CHARSET),
    (ds.Accept, PLAIN),
    (ds.Accept, MIME),
    (ds.Accept, LANG),
]
QS = ["1", "0", "0.5", "0.5", "0.8", "0.3", "1.0", "0.0", "0.001", "0.999", "2", "-1", "x"]
RAWQ = [1, 0, 0.5, 0.5, 0.8, 0.3, 1.0, 0.0, -1, -0.5, 2, 1.5, float("nan"), float("inf"), True, False]


def gen_case(rng):
    cls, pool = rng.choice(FAMILIES)
    n = rng.choice([0, 1, 1, 2, 2, 3, 3, 4, 5, 6])
    mode = rng.random()
    if mode < 0.7:
        parts = []
        for _ in range(n):
            v = rng.choice(pool)
            r = rng.random()
            if r < 0.3:
                parts.append(v)
            else:
                parts.append(f"{v};q={rng.choice(QS)}")
        header = ", ".join(parts)
        build = ("header", header, cls)
    else:
        pairs = [(rng.choice(pool), rng.choice(RAWQ)) for _ in range(n)]
        if rng.random() < 0.1:
            pairs = None
        build = ("pairs", pairs, cls)
    k = rng.choice([0, 1, 1, 2, 2, 3, 3, 4, 5])
    offers = [rng.choice(pool) for _ in range(k)]
    if rng.random() < 0.15 and offers:
        # an offer the application should not pass (exercise ValueError paths)
        offers[rng.randrange(len(offers))] = rng.choice(["text", "*/html", "", "*", "en-", "-"])
    kind = rng.choice(["list", "list", "list", "tuple", "iter"])
    default = rng.choice([None, None, "DEFAULT", "", "text/plain"])
    use_default = rng.random() < 0.5
    return build, offers, kind, default, use_default


def make(build):
    how, data, cls = build
    if how == "header":
        return parse_accept_header(data, cls)
    return cls(data)


def shape(offers, kind):
    if kind == "tuple":
        return tuple(offers)
    if kind == "iter":
        return iter(offers)
    return list(offers)


def run(case):
    build, offers, kind, default, use_default = case
    out = []
    try:
        acc = make(build)
    except BaseException as e:  # noqa: B036
        return [("BUILD-EXC", type(e))]
    out.append(("items", repr(list(list.__iter__(acc)))))
    try:
        if use_default:
            r = acc.best_match(shape(offers, kind), default)
        else:
            r = acc.best_match(shape(offers, kind))
        out.append(("best_match", repr(r), type(r)))
    except BaseException as e:  # noqa: B036
        out.append(("best_match-EXC", type(e)))
    for o in offers[:3]:
        try:
            m = acc._best_single_match(o)
            out.append(("single", repr(m), type(m)))
        except BaseException as e:  # noqa: B036
            out.append(("single-EXC", type(e)))
    return out


def main():
    rng = random.Random(170402)
    cases = [gen_case(rng) for _ in range(30000)]
    install(NEW)
    new_res = [run(c) for c in cases]
    install(ORIG)
    assert Accept.best_match is orig_best_match
    orig_res = [run(c) for c in cases]
    install(NEW)
    bad = 0
    chosen = sum(1 for r in orig_res if any(x[0] == "best_match" and x[1] != "None" for x in r))
    exc = sum(1 for r in orig_res if any(x[0].endswith("EXC") for x in r))
    for c, a, b in zip(cases, orig_res, new_res):
        if a != b:
            bad += 1
            if bad <= 10:
                print("MISMATCH", c, a, b)
    print(f"compared {len(cases)} cases ({chosen} with a non-None choice, {exc} raising), mismatches: {bad}")
    if bad:
        print("FAIL")
        sys.exit(1)
    print("PASS")


if __name__ == "__main__":
    main()
