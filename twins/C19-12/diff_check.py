"""Differential check for refactoring 3 (WSGIRequestHandler.run_wsgi:
write / start_response).

Run: cd /tmp/wt10-C19 && PYTHONPATH=/tmp/wt10-C19/src /venv/bin/python /tmp/twin6-C19/3/diff_check.py

The original run_wsgi is pasted below (only the relative import of
DebugTraceback was made absolute). Both versions are driven through a handler
with an in-memory wfile that records every write()/flush() call, so that the
exact byte sequence *and* call sequence are compared.
"""

from __future__ import annotations

import http.client
import io
import random
import selectors
import sys
import typing as t

from werkzeug.exceptions import InternalServerError
from werkzeug.serving import connection_dropped_errors
from werkzeug.serving import WSGIRequestHandler


def orig_run_wsgi(self) -> None:  # verbatim copy from the unmodified tree
    if self.headers.get("Expect", "").lower().strip() == "100-continue":
        self.wfile.write(b"HTTP/1.1 100 Continue\r\n\r\n")

    self.environ = environ = self.make_environ()
    status_set: str | None = None
    headers_set: list[tuple[str, str]] | None = None
    status_sent: str | None = None
    headers_sent: list[tuple[str, str]] | None = None
    chunk_response: bool = False

    def write(data: bytes) -> None:
        nonlocal status_sent, headers_sent, chunk_response
        assert status_set is not None, "write() before start_response"
        assert headers_set is not None, "write() before start_response"
        if status_sent is None:
            status_sent = status_set
            headers_sent = headers_set
            try:
                code_str, msg = status_sent.split(None, 1)
            except ValueError:
                code_str, msg = status_sent, ""
            code = int(code_str)
            self.send_response(code, msg)
            header_keys = set()
            for key, value in headers_sent:
                self.send_header(key, value)
                header_keys.add(key.lower())

            # Use chunked transfer encoding if there is no content
            # length. Do not use for 1xx and 204 responses. 304
            # responses and HEAD requests are also excluded, which
            # is the more conservative behavior and matches other
            # parts of the code.
            # https://httpwg.org/specs/rfc7230.html#rfc.section.3.3.1
            if (
                not (
                    "content-length" in header_keys
                    or environ["REQUEST_METHOD"] == "HEAD"
                    or (100 <= code < 200)
                    or code in {204, 304}
                )
                and self.protocol_version >= "HTTP/1.1"
            ):
                chunk_response = True
                self.send_header("Transfer-Encoding", "chunked")

            # Always close the connection. This disables HTTP/1.1
            # keep-alive connections. They aren't handled well by
            # Python's http.server because it doesn't know how to
            # drain the stream before the next request line.
            self.send_header("Connection", "close")
            self.end_headers()

        assert isinstance(data, bytes), "applications must write bytes"

        if data:
            if chunk_response:
                self.wfile.write(hex(len(data))[2:].encode())
                self.wfile.write(b"\r\n")

            self.wfile.write(data)

            if chunk_response:
                self.wfile.write(b"\r\n")

        self.wfile.flush()

    def start_response(status, headers, exc_info=None):  # type: ignore
        nonlocal status_set, headers_set
        if exc_info:
            try:
                if headers_sent:
                    raise exc_info[1].with_traceback(exc_info[2])
            finally:
                exc_info = None
        elif headers_set:
            raise AssertionError("Headers already set")
        status_set = status
        headers_set = headers
        return write

    def execute(app) -> None:  # type: ignore
        application_iter = app(environ, start_response)
        try:
            for data in application_iter:
                write(data)
            if not headers_sent:
                write(b"")
            if chunk_response:
                self.wfile.write(b"0\r\n\r\n")
        finally:
            # Check for any remaining data in the read socket, and discard it. This
            # will read past request.max_content_length, but lets the client see a
            # 413 response instead of a connection reset failure. If we supported
            # keep-alive connections, this naive approach would break by reading the
            # next request line. Since we know that write (above) closes every
            # connection we can read everything.
            selector = selectors.DefaultSelector()
            selector.register(self.connection, selectors.EVENT_READ)
            total_size = 0
            total_reads = 0

            # A timeout of 0 tends to fail because a client needs a small amount of
            # time to continue sending its data.
            while selector.select(timeout=0.01):
                # Only read 10MB into memory at a time.
                data = self.rfile.read(10_000_000)
                total_size += len(data)
                total_reads += 1

                # Stop reading on no data, >=10GB, or 1000 reads. If a client sends
                # more than that, they'll get a connection reset failure.
                if not data or total_size >= 10_000_000_000 or total_reads > 1000:
                    break

            selector.close()

            if hasattr(application_iter, "close"):
                application_iter.close()

    try:
        execute(self.server.app)
    except connection_dropped_errors as e:
        self.connection_dropped(e, environ)
    except Exception as e:
        if self.server.passthrough_errors:
            raise

        if status_sent is not None and chunk_response:
            self.close_connection = True

        try:
            # if we haven't yet sent the headers but they are set
            # we roll back to be able to set them again.
            if status_sent is None:
                status_set = None
                headers_set = None
            execute(InternalServerError())
        except Exception:
            pass

        from werkzeug.debug.tbtools import DebugTraceback

        msg = DebugTraceback(e).render_traceback_text()
        self.server.log("error", f"Error on request:\n{msg}")


# ---------------------------------------------------------------------------
# harness


class FakeSelector:
    """Stands in for selectors.DefaultSelector: "readable" while the fake
    connection's rfile still has unread bytes."""

    def __init__(self) -> None:
        self.conn: t.Any = None

    def register(self, conn: t.Any, events: int) -> None:
        self.conn = conn
        conn.events.append("register")

    def select(self, timeout: float | None = None) -> list[t.Any]:
        rfile = self.conn.rfile
        return [1] if rfile.tell() < len(rfile.getvalue()) else []

    def close(self) -> None:
        self.conn.events.append("close")


selectors.DefaultSelector = FakeSelector  # type: ignore[misc,assignment]


class FakeConn:
    def __init__(self, rfile: io.BytesIO) -> None:
        self.rfile = rfile
        self.events: list[str] = []


class RecordingWFile:
    def __init__(self, fail_after: int | None, fail_exc: type[Exception]) -> None:
        self.calls: list[t.Any] = []
        self.fail_after = fail_after
        self.fail_exc = fail_exc

    def write(self, data: bytes) -> int:
        if self.fail_after is not None:
            if self.fail_after <= 0:
                self.calls.append(("fail", bytes(data)))
                raise self.fail_exc("boom")
            self.fail_after -= 1
        self.calls.append(("write", bytes(data)))
        return len(data)

    def flush(self) -> None:
        self.calls.append(("flush",))


class FakeServer:
    ssl_context = None
    multithread = False
    multiprocess = False
    server_address = ("127.0.0.1", 5000)
    _server_version = "Werkzeug/test"

    def __init__(self, app: t.Any, passthrough_errors: bool) -> None:
        self.app = app
        self.passthrough_errors = passthrough_errors
        self.logged: list[t.Any] = []

    def log(self, type: str, message: str, *args: t.Any) -> None:
        # Tracebacks mention file names / line numbers, which differ between the
        # pasted copy and the module; keep the stable part only.
        last = message.rstrip().rsplit("\n", 1)[-1]
        self.logged.append((type, message.split("\n", 1)[0], last, args))


class HarnessMixin:
    def log_request(self, code: t.Any = "-", size: t.Any = "-") -> None:
        self.request_log.append((code, size))  # type: ignore[attr-defined]

    def date_time_string(self, timestamp: t.Any = None) -> str:
        return "Thu, 01 Jan 2026 00:00:00 GMT"

    def connection_dropped(self, error: BaseException, environ: t.Any = None) -> None:
        self.dropped.append(  # type: ignore[attr-defined]
            (type(error), str(error), environ is self.environ)  # type: ignore
        )


class NewHandler(HarnessMixin, WSGIRequestHandler):
    pass


class OrigHandler(HarnessMixin, WSGIRequestHandler):
    run_wsgi = orig_run_wsgi


assert NewHandler.run_wsgi is WSGIRequestHandler.run_wsgi
assert OrigHandler.run_wsgi is not WSGIRequestHandler.run_wsgi


class AppError(Exception):
    pass


class ClosingIter:
    def __init__(self, it: t.Iterator[t.Any], log: list[str]) -> None:
        self.it = it
        self.log = log

    def __iter__(self) -> ClosingIter:
        return self

    def __next__(self) -> t.Any:
        return next(self.it)

    def close(self) -> None:
        self.log.append("iter.close")


STATUSES = [
    "200 OK",
    "200 OK",
    "200 OK",
    "201 Created",
    "204 No Content",
    "304 Not Modified",
    "100 Continue",
    "101 Switching Protocols",
    "199 Custom",
    "99 Low",
    "200",
    "204",
    "  200   Spaced  Out ",
    "200\tTabbed",
    "404 Not Found",
    "500 Internal Server Error",
    "205 Reset Content",
    "303 See Other",
    "305 Use Proxy",
    "600 Beyond",
    "abc Nope",
    "",
    "20x",
    "+204 Signed",
    "0204 Padded",
]
CL_NAMES = ["Content-Length", "content-length", "CONTENT-LENGTH", "Content-length"]
OTHER_HEADERS = [
    ("Content-Type", "text/plain"),
    ("X-Thing", "1"),
    ("Set-Cookie", "a=b"),
    ("Set-Cookie", "c=d"),
    ("Transfer-Encoding", "identity"),
    ("Content-Length-X", "5"),
    ("X-Content-Length", "5"),
    ("Connection", "keep-alive"),
    ("X-Caf\xe9", "caf\xe9"),
]
BODY_PIECES: list[t.Any] = [
    b"",
    b"a",
    b"hello",
    b"\r\n",
    b"0\r\n\r\n",
    b"x" * 9,
    b"x" * 10,
    b"x" * 15,
    b"x" * 16,
    b"x" * 17,
    b"y" * 255,
    b"y" * 256,
    b"z" * 4096,
    b"z" * 70000,
    bytes(range(256)),
]


def make_case(rng: random.Random, i: int) -> dict[str, t.Any]:
    headers: list[t.Any] = [
        rng.choice(OTHER_HEADERS) for _ in range(rng.choice([0, 1, 2, 3]))
    ]
    body = [rng.choice(BODY_PIECES) for _ in range(rng.choice([0, 1, 1, 2, 3, 5]))]
    if rng.random() < 0.35:
        headers.insert(
            rng.randrange(len(headers) + 1),
            (rng.choice(CL_NAMES), str(sum(len(b) for b in body))),
        )
    if rng.random() < 0.03:
        headers.append((5, "non-str header name"))
    if rng.random() < 0.03:
        headers.append(("X-Only-One",))
    if rng.random() < 0.04:
        body.insert(rng.randrange(len(body) + 1), "not bytes")
    if rng.random() < 0.02:
        body.insert(rng.randrange(len(body) + 1), bytearray(b"bytearray"))
    return {
        "i": i,
        "method": rng.choice(["GET", "GET", "POST", "HEAD", "HEAD", "head", "PUT"]),
        "protocol_version": rng.choice(["HTTP/1.1", "HTTP/1.1", "HTTP/1.0", "HTTP/2"]),
        "request_version": rng.choice(["HTTP/1.1", "HTTP/1.1", "HTTP/1.0", "HTTP/0.9"]),
        "expect": rng.choice([None, None, None, "100-continue", " 100-Continue ", "x"]),
        "status": rng.choice(STATUSES),
        "headers": headers,
        "body": body,
        "mode": rng.choice(
            [
                "iter",
                "iter",
                "iter",
                "list",
                "write",
                "write+iter",
                "no_start",
                "late_start",
                "double_start",
                "exc_info_early",
                "exc_info_late",
                "exc_info_falsy",
                "raise_before",
                "raise_after_start",
                "raise_mid",
                "raise_conn",
                "raise_conn_mid",
                "raise_timeout",
                "mutate_method",
                "delete_method",
            ]
        ),
        "closing": rng.random() < 0.5,
        "passthrough": rng.random() < 0.15,
        "fail_after": rng.choice([None] * 8 + [0, 1, 2, 3, 5, 8]),
        "fail_exc": rng.choice(
            [ConnectionResetError, BrokenPipeError, OSError, ValueError, TimeoutError]
        ),
        "leftover": rng.choice([b"", b"", b"unread request body" * 3]),
    }


def make_app(case: dict[str, t.Any], events: list[str]) -> t.Any:
    mode = case["mode"]
    status = case["status"]
    headers = case["headers"]
    body = case["body"]

    def wrap(gen: t.Iterable[t.Any]) -> t.Any:
        if case["closing"]:
            return ClosingIter(iter(gen), events)
        return gen

    def app(environ: dict[str, t.Any], start_response: t.Any) -> t.Any:
        events.append("app")
        if mode == "mutate_method":
            environ["REQUEST_METHOD"] = "HEAD"
        elif mode == "delete_method":
            del environ["REQUEST_METHOD"]

        if mode == "raise_before":
            raise AppError("before start_response")
        if mode == "raise_conn":
            raise ConnectionAbortedError("client went away")
        if mode == "raise_timeout":
            raise TimeoutError("timed out")
        if mode == "no_start":
            return wrap(list(body))

        if mode == "late_start":

            def late() -> t.Iterator[t.Any]:
                start_response(status, list(headers))
                yield from body

            return wrap(late())

        write = start_response(status, list(headers))

        if mode == "double_start":
            start_response("200 OK", [("X-Second", "1")])
        elif mode == "exc_info_early":
            try:
                raise AppError("early")
            except AppError:
                write = start_response(
                    "500 Oops", [("X-Err", "1"), ("Content-Length", "0")], sys.exc_info()
                )
        elif mode == "exc_info_falsy":
            write = start_response("202 Accepted", [("X-Falsy", "1")], ())
        elif mode == "raise_after_start":
            raise AppError("after start_response")

        if mode == "list":
            return wrap(list(body))

        if mode in ("write", "write+iter"):
            for piece in body:
                write(piece)
            if mode == "write":
                return wrap([])
            return wrap(list(reversed(body)))

        def gen() -> t.Iterator[t.Any]:
            for n, piece in enumerate(body):
                if n == 1 and mode == "raise_mid":
                    raise AppError("mid iteration")
                if n == 1 and mode == "raise_conn_mid":
                    raise ConnectionResetError("mid iteration")
                if n == 1 and mode == "exc_info_late":
                    try:
                        raise AppError("late")
                    except AppError:
                        start_response("500 Oops", [("X-Err", "1")], sys.exc_info())
                yield piece
            events.append("gen.done")

        return wrap(gen())

    return app


def run(cls: type, case: dict[str, t.Any]) -> t.Any:
    events: list[str] = []
    h = cls.__new__(cls)
    h.server = FakeServer(make_app(case, events), case["passthrough"])
    h.path = "/p%20q?x=1"
    h.command = case["method"]
    h.request_version = case["request_version"]
    h.protocol_version = case["protocol_version"]
    h.client_address = ("10.0.0.1", 4321)
    h.rfile = io.BytesIO(case["leftover"])
    h.connection = FakeConn(h.rfile)
    h.wfile = RecordingWFile(case["fail_after"], case["fail_exc"])
    h.close_connection = "unset"
    h.request_log = []
    h.dropped = []
    raw = b""
    if case["expect"] is not None:
        raw += b"Expect: " + case["expect"].encode() + b"\r\n"
    h.headers = http.client.parse_headers(io.BytesIO(raw + b"\r\n"))

    try:
        h.run_wsgi()
        outcome: t.Any = ("returned",)
    except BaseException as e:
        outcome = ("raised", type(e), str(e))

    return {
        "outcome": outcome,
        "wfile": h.wfile.calls,
        "bytes": b"".join(c[1] for c in h.wfile.calls if c[0] == "write"),
        "headers_buffer": list(getattr(h, "_headers_buffer", ["<none>"])),
        "events": events,
        "conn_events": h.connection.events,
        "rfile_pos": h.rfile.tell(),
        "logged": h.server.logged,
        "request_log": h.request_log,
        "dropped": h.dropped,
        "close_connection": h.close_connection,
    }


def main() -> None:
    rng = random.Random(19003)
    total = 6000
    n_chunked = n_err = 0
    for i in range(total):
        case = make_case(rng, i)
        a = run(OrigHandler, case)
        b = run(NewHandler, case)
        if a != b:
            print("FAIL", case)
            for k in a:
                if a[k] != b[k]:
                    print(" ", k, "\n   orig:", a[k], "\n   new: ", b[k])
            raise SystemExit(1)
        if b"Transfer-Encoding: chunked\r\n" in a["bytes"]:
            n_chunked += 1
        if a["logged"] or a["outcome"][0] == "raised" or a["dropped"]:
            n_err += 1

    # Systematic sweep over the chunked-framing decision.
    sweep = 0
    for status in STATUSES:
        for method in ["GET", "HEAD", "POST", "head"]:
            for proto in ["HTTP/1.1", "HTTP/1.0", "HTTP/2", "HTTP/0.9"]:
                for cl in [None, *CL_NAMES, "X-Content-Length"]:
                    for body in ([], [b""], [b"abc"], [b"abc", b"", b"d" * 20]):
                        for mode in ["iter", "write", "mutate_method"]:
                            case = make_case(rng, -1)
                            case.update(
                                method=method,
                                protocol_version=proto,
                                request_version="HTTP/1.1",
                                status=status,
                                headers=[("X-A", "1")]
                                + ([(cl, "3")] if cl is not None else []),
                                body=list(body),
                                mode=mode,
                                fail_after=None,
                                passthrough=False,
                            )
                            a = run(OrigHandler, case)
                            b = run(NewHandler, case)
                            if a != b:
                                print("FAIL sweep", case)
                                raise SystemExit(1)
                            sweep += 1

    print(
        f"PASS ({total} random cases: {n_chunked} chunked, {n_err} error paths;"
        f" {sweep} sweep cases)"
    )


if __name__ == "__main__":
    main()
