"""Differential check for refactoring 2 (C10).

Compares the refactored formparser.MultiPartParser.parse (with the extracted
_add_field_size helper) from the worktree against a verbatim copy of the
ORIGINAL parse() on generated multipart bodies, buffer sizes and limits.

Run: cd /tmp/wt6-C10 && PYTHONPATH=/tmp/wt6-C10/src /venv/bin/python /tmp/twin4-C10/2/diff_check.py
"""
from __future__ import annotations

import io
import random
import sys
import typing as t

from werkzeug import formparser as F
from werkzeug.datastructures import FileStorage
from werkzeug.datastructures import MultiDict
from werkzeug.exceptions import RequestEntityTooLarge
from werkzeug.formparser import _chunk_iter
from werkzeug.formparser import MultiPartParser
from werkzeug.sansio.multipart import Data
from werkzeug.sansio.multipart import Epilogue
from werkzeug.sansio.multipart import Field
from werkzeug.sansio.multipart import File
from werkzeug.sansio.multipart import MultipartDecoder
from werkzeug.sansio.multipart import NeedData

assert F.__file__.startswith("/tmp/wt6-C10/"), F.__file__
assert hasattr(MultiPartParser, "_add_field_size"), "refactoring 2 not applied"


class OriginalParser(MultiPartParser):
    """parse() pasted from the unmodified tree."""

    def parse(
        self, stream: t.IO[bytes], boundary: bytes, content_length: int | None
    ) -> tuple[MultiDict[str, str], MultiDict[str, FileStorage]]:
        current_part: Field | File
        field_size: int | None = None
        container: t.IO[bytes] | list[bytes]
        _write: t.Callable[[bytes], t.Any]

        parser = MultipartDecoder(
            boundary,
            max_form_memory_size=self.max_form_memory_size,
            max_parts=self.max_form_parts,
        )

        fields = []
        files = []

        for data in _chunk_iter(stream.read, self.buffer_size):
            parser.receive_data(data)
            event = parser.next_event()
            while not isinstance(event, (Epilogue, NeedData)):
                if isinstance(event, Field):
                    current_part = event
                    field_size = 0
                    container = []
                    _write = container.append
                elif isinstance(event, File):
                    current_part = event
                    field_size = None
                    container = self.start_file_streaming(event, content_length)
                    _write = container.write
                elif isinstance(event, Data):
                    if self.max_form_memory_size is not None and field_size is not None:
                        # Ensure that accumulated data events do not exceed limit.
                        # Also checked within single event in MultipartDecoder.
                        field_size += len(event.data)

                        if field_size > self.max_form_memory_size:
                            raise RequestEntityTooLarge()

                    _write(event.data)
                    if not event.more_data:
                        if isinstance(current_part, Field):
                            value = b"".join(container).decode(
                                self.get_part_charset(current_part.headers), "replace"
                            )
                            fields.append((current_part.name, value))
                        else:
                            container = t.cast(t.IO[bytes], container)
                            container.seek(0)
                            files.append(
                                (
                                    current_part.name,
                                    FileStorage(
                                        container,
                                        current_part.filename,
                                        current_part.name,
                                        headers=current_part.headers,
                                    ),
                                )
                            )

                event = parser.next_event()

        return self.cls(fields), self.cls(files)


NLS = [b"\r\n", b"\r\n", b"\r\n", b"\n", b"\r"]
ALPHA = b"abcdefghijklmnopqrstuvwxyz0123456789 \r\n-=;:\"\t\xc3\xa9"


def rand_bytes(rng: random.Random, n: int) -> bytes:
    return bytes(rng.choice(ALPHA) for _ in range(n))


def gen_body(rng: random.Random) -> tuple[bytes, bytes]:
    boundary = rng.choice(
        [b"b", b"boundary", b"----WebKitFormBoundaryAbC123", b"a.b+c", b"xx--yy"]
    )
    nl = rng.choice(NLS)
    out = bytearray()
    if rng.random() < 0.3:
        out += rand_bytes(rng, rng.randrange(0, 30))
        if rng.random() < 0.7:
            out += nl
    nparts = rng.choice([0, 0, 1, 1, 2, 3, 4, 5, 7, 12])
    for i in range(nparts):
        out += b"--" + boundary
        if rng.random() < 0.1:
            out += b"  \t"
        out += nl
        kind = rng.random()
        name = rng.choice(["a", "field", "f%d" % i, "n\xe9", ""])
        if kind < 0.08:
            # missing content-disposition
            out += b"Content-Type: text/plain" + nl
        elif kind < 0.55:
            out += ('Content-Disposition: form-data; name="%s"' % name).encode() + nl
            if rng.random() < 0.3:
                out += b"Content-Type: text/plain; charset=" + rng.choice(
                    [b"utf-8", b"iso-8859-1", b"ascii", b"bogus"]
                ) + nl
        elif kind < 0.6:
            out += ("Content-Disposition: form-data").encode() + nl
        elif kind < 0.65:
            # header continuation
            out += (
                'Content-Disposition: form-data;%s name="%s"'
                % (nl.decode() + " ", name)
            ).encode() + nl
        else:
            fn = rng.choice(["x.txt", "", "a b.bin", "\xe9.png"])
            out += (
                'Content-Disposition: form-data; name="%s"; filename="%s"'
                % (name, fn)
            ).encode() + nl
            if rng.random() < 0.6:
                out += b"Content-Type: application/octet-stream" + nl
            if rng.random() < 0.2:
                out += b"Content-Length: " + rng.choice([b"3", b"x", b"-1"]) + nl
        if rng.random() < 0.04:
            # no blank line: malformed
            pass
        else:
            out += nl
        size = rng.choice([0, 0, 1, 3, 10, 25, 60, 150, 400])
        out += rand_bytes(rng, size)
        if rng.random() < 0.05:
            # embed something boundary-like
            out += b"\r\n--" + boundary[: max(1, len(boundary) // 2)]
        out += nl
    r = rng.random()
    if r < 0.8:
        out += b"--" + boundary + b"--"
        if rng.random() < 0.8:
            out += nl
        if rng.random() < 0.2:
            out += rand_bytes(rng, rng.randrange(0, 20))
    elif r < 0.9:
        out += b"--" + boundary + nl  # dangling part start
    # else: no terminator
    body = bytes(out)
    if rng.random() < 0.1 and body:
        body = body[: rng.randrange(len(body))]  # truncation
    if rng.random() < 0.03:
        body = rand_bytes(rng, rng.randrange(0, 300))  # undelimited input
    return boundary, body


class RecordingStream:
    """Stream that records every read() call and may return short reads."""

    def __init__(self, body: bytes, short: int | None) -> None:
        self._io = io.BytesIO(body)
        self.short = short
        self.calls: list[tuple[int, int]] = []

    def read(self, size: int = -1) -> bytes:
        if self.short is not None and size > self.short:
            data = self._io.read(self.short)
        else:
            data = self._io.read(size)
        self.calls.append((size, len(data)))
        return data


def run(cls, body, boundary, mfms, mp, buffer_size, short, content_length):
    factory_calls: list = []
    containers: list[io.BytesIO] = []

    def factory(total_content_length, content_type, filename, content_length=None):
        factory_calls.append(
            (total_content_length, content_type, filename, content_length)
        )
        c = io.BytesIO()
        containers.append(c)
        return c

    stream = RecordingStream(body, short)
    p = cls(
        stream_factory=factory,
        max_form_memory_size=mfms,
        buffer_size=buffer_size,
        max_form_parts=mp,
    )
    try:
        form, files = p.parse(stream, boundary, content_length)
    except Exception as e:  # noqa: BLE001
        out: tuple = ("exc", type(e), e.args)
    else:
        out = (
            "ok",
            type(form),
            list(form.items(multi=True)),
            [
                (
                    k,
                    v.filename,
                    v.name,
                    list(v.headers),
                    v.stream.tell(),
                    v.stream.getvalue(),
                )
                for k, v in files.items(multi=True)
            ],
        )
    return (
        out,
        stream.calls,
        factory_calls,
        [c.getvalue() for c in containers],
    )


def main() -> int:
    rng = random.Random(0xC10_2)
    n = ok = 0
    exc_counts: dict[str, int] = {}
    for _ in range(8000):
        boundary, body = gen_body(rng)
        if rng.random() < 0.15:
            # make one big field so that the *accumulated* check (not the
            # per-receive buffer check) is the one that fires
            big = rand_bytes(rng, rng.choice([300, 700, 1500])).replace(b"-", b"_")
            body = (
                b"--" + boundary + b"\r\n"
                b'Content-Disposition: form-data; name="big"\r\n\r\n'
                + big
                + b"\r\n"
                + body
            )
        mfms = rng.choice([None, None, 0, 1, 5, 20, 50, 64, 100, 200, 500, 1000, 10_000])
        mp = rng.choice([None, None, 0, 1, 2, 3, 5, 11, 1000])
        buffer_size = rng.choice([1, 2, 3, 7, 16, 33, 64, 200, 1024, 64 * 1024])
        short = rng.choice([None, None, 1, 5, 50])
        content_length = rng.choice([None, len(body), 0, 12345])
        a = run(OriginalParser, body, boundary, mfms, mp, buffer_size, short, content_length)
        b = run(MultiPartParser, body, boundary, mfms, mp, buffer_size, short, content_length)
        n += 1
        if a[0][0] == "ok":
            ok += 1
        else:
            exc_counts[a[0][1].__name__] = exc_counts.get(a[0][1].__name__, 0) + 1
        if a != b:
            print("FAIL: divergence", boundary, body, mfms, mp, buffer_size, short)
            print(" orig:", a[0])
            print(" new :", b[0])
            return 1

    # Direct grid check of the extracted guard against the original inline code.
    for mf in [None, *range(0, 14)]:
        for fs in [None, *range(0, 14)]:
            for ln in range(0, 14):
                chunk = b"z" * ln

                def orig(field_size=fs):
                    if mf is not None and field_size is not None:
                        field_size += len(chunk)
                        if field_size > mf:
                            raise RequestEntityTooLarge()
                    return field_size

                res = []
                for fn in (orig, lambda: MultiPartParser(max_form_memory_size=mf)._add_field_size(fs, chunk)):
                    try:
                        res.append(("ok", fn()))
                    except Exception as e:  # noqa: BLE001
                        res.append(("exc", type(e), e.args))
                n += 1
                if res[0] != res[1]:
                    print("FAIL guard grid", mf, fs, ln, res)
                    return 1

    print(f"compared {n} cases; {ok} successful parses; exceptions in original: {exc_counts}")
    print("PASS")
    return 0


if __name__ == "__main__":
    sys.exit(main())
