"""Differential check for refactoring 1 (MapAdapter._partial_build / build).

The ORIGINAL implementations of ``MapAdapter._partial_build`` and the body of
``MapAdapter.build`` are pasted below into ``OrigMapAdapter``; every bound
adapter of the "orig" variant gets that class, every adapter of the "new"
variant uses the (refactored) class from the worktree.  Both are driven with
the same few thousand generated maps / values / adapter configurations and
all outputs and raised exception types (and messages) must be identical.

Run:  cd /tmp/wt10-C04 && PYTHONPATH=/tmp/wt10-C04/src /venv/bin/python /tmp/twin6-C04/1/diff_check.py
"""
from __future__ import annotations

import typing as t

from werkzeug.datastructures import MultiDict
from werkzeug.routing import BuildError
from werkzeug.routing import MapAdapter
from werkzeug.routing import Rule


class OrigMapAdapter(MapAdapter):
    def _partial_build(
        self,
        endpoint: t.Any,
        values: t.Mapping[str, t.Any],
        method: str | None,
        append_unknown: bool,
    ) -> tuple[str, str, bool] | None:
        # in case the method is none, try with the default method first
        if method is None:
            rv = self._partial_build(
                endpoint, values, self.default_method, append_unknown
            )
            if rv is not None:
                return rv

        # Default method did not match or a specific method is passed.
        # Check all for first match with matching host. If no matching
        # host is found, go with first result.
        first_match = None

        for rule in self.map._rules_by_endpoint.get(endpoint, ()):
            if rule.suitable_for(values, method):
                build_rv = rule.build(values, append_unknown)

                if build_rv is not None:
                    rv = (build_rv[0], build_rv[1], rule.websocket)
                    if self.map.host_matching:
                        if rv[0] == self.server_name:
                            return rv
                        elif first_match is None:
                            first_match = rv
                    else:
                        return rv

        return first_match

    def build(
        self,
        endpoint: t.Any,
        values: t.Mapping[str, t.Any] | None = None,
        method: str | None = None,
        force_external: bool = False,
        append_unknown: bool = True,
        url_scheme: str | None = None,
    ) -> str:
        self.map.update()

        if values:
            if isinstance(values, MultiDict):
                values = {
                    k: (v[0] if len(v) == 1 else v)
                    for k, v in dict.items(values)
                    if len(v) != 0
                }
            else:  # plain dict
                values = {k: v for k, v in values.items() if v is not None}
        else:
            values = {}

        rv = self._partial_build(endpoint, values, method, append_unknown)
        if rv is None:
            raise BuildError(endpoint, values, method, self)

        domain_part, path, websocket = rv
        host = self.get_host(domain_part)

        if url_scheme is None:
            url_scheme = self.url_scheme

        # Always build WebSocket routes with the scheme (browsers
        # require full URLs). If bound to a WebSocket, ensure that HTTP
        # routes are built with an HTTP scheme.
        secure = url_scheme in {"https", "wss"}

        if websocket:
            force_external = True
            url_scheme = "wss" if secure else "ws"
        elif url_scheme:
            url_scheme = "https" if secure else "http"

        # shortcut this.
        if not force_external and (
            (self.map.host_matching and host == self.server_name)
            or (not self.map.host_matching and domain_part == self.subdomain)
        ):
            return f"{self.script_name.rstrip('/')}/{path.lstrip('/')}"

        scheme = f"{url_scheme}:" if url_scheme else ""
        return f"{scheme}//{host}{self.script_name[:-1]}/{path.lstrip('/')}"


def extra_rule_check(rule):
    return None


VARIANTS = {
    "new": {"rule_cls": Rule, "converters": None, "adapter_cls": None},
    "orig": {"rule_cls": Rule, "converters": None, "adapter_cls": OrigMapAdapter},
}

# --------------------------------------------------------------------------
# Common differential harness.  `VARIANTS` (defined above) maps a variant name
# ("new" / "orig") to a dict with the keys
#   rule_cls      - the Rule class to instantiate
#   converters    - extra converters passed to Map(converters=...) or None
#   adapter_cls   - class to swap onto the bound MapAdapter or None
# --------------------------------------------------------------------------
import copy
import random
import sys
import uuid as _uuid
from urllib.parse import unquote, urlsplit

from werkzeug.datastructures import MultiDict
from werkzeug.exceptions import HTTPException
from werkzeug.routing import Map, Subdomain, Submount
from werkzeug.routing import RequestRedirect

SERVER = "example.com"
TEXT_ALPHABET = (
    "abcxyzABC019"
    " ;?#%&=+@:,!$'()*~-._"
    "äöü€日本\U0001f600"
)

CONVERTERS = [
    ("default", "<{n}>"),
    ("string", "<string:{n}>"),
    ("string_len", "<string(length=3):{n}>"),
    ("string_minmax", "<string(minlength=2, maxlength=5):{n}>"),
    ("int", "<int:{n}>"),
    ("int_signed", "<int(signed=True):{n}>"),
    ("int_fixed", "<int(fixed_digits=4):{n}>"),
    ("int_fixed_signed", "<int(fixed_digits=3, signed=True):{n}>"),
    ("int_minmax", "<int(min=5, max=500):{n}>"),
    ("float", "<float:{n}>"),
    ("float_signed", "<float(signed=True):{n}>"),
    ("float_minmax", "<float(min=0.5, max=100.0):{n}>"),
    ("any", "<any(foo, bar, \"a b\", \"x;y\", \"q?#%\", \"über\"):{n}>"),
    ("uuid", "<uuid:{n}>"),
    ("path", "<path:{n}>"),
]
ANY_ITEMS = ["foo", "bar", "a b", "x;y", "q?#%", "über"]


def rand_text(rnd, lo=1, hi=8, slash=False):
    alphabet = TEXT_ALPHABET + ("/" if slash else "")
    return "".join(rnd.choice(alphabet) for _ in range(rnd.randint(lo, hi)))


def rand_float(rnd):
    c = rnd.random()
    if c < 0.5:
        return round(rnd.uniform(0, 1000), rnd.randint(1, 6))
    if c < 0.7:
        return float(rnd.randint(0, 1000))
    if c < 0.8:
        return rnd.uniform(0.5, 100.0)
    if c < 0.9:
        return rnd.choice([1e-7, 1e22, 1.5e300, 0.0, 0.1 + 0.2])
    return rnd.choice([float("nan"), float("inf"), -float("inf"), -0.0])


def gen_value(rnd, kind):
    """Mostly values from the converter's canonical domain, sometimes junk."""
    junk = rnd.random() < 0.12
    if junk:
        return rnd.choice(
            [
                None,
                "",
                "abc",
                "12",
                "-5",
                "1.5",
                -3,
                3.25,
                True,
                [1, 2],
                ["foo"],
                (),
                {"a": 1},
                b"bytes",
                "a/b",
                "/lead",
                "trail/",
                _uuid.UUID(int=rnd.getrandbits(128)),
                str(_uuid.UUID(int=rnd.getrandbits(128))),
                object,
                10**30,
                1e30,
                float("nan"),
            ]
        )
    if kind in ("default", "string"):
        return rand_text(rnd)
    if kind == "string_len":
        return rand_text(rnd, 3, 3) if rnd.random() < 0.8 else rand_text(rnd, 1, 6)
    if kind == "string_minmax":
        return rand_text(rnd, 2, 5) if rnd.random() < 0.8 else rand_text(rnd, 1, 9)
    if kind == "int":
        return rnd.choice([0, 1, 7, 42, 1234, 99999, rnd.randint(0, 10**12)])
    if kind in ("int_signed", "int_fixed_signed"):
        return rnd.choice([0, -1, 5, -42, rnd.randint(-(10**6), 10**6)])
    if kind == "int_fixed":
        return rnd.choice([0, 1, 12, 123, 1234, 12345, rnd.randint(0, 9999)])
    if kind == "int_minmax":
        return rnd.choice([4, 5, 6, 499, 500, 501, rnd.randint(0, 600)])
    if kind == "float":
        return abs(rand_float(rnd))
    if kind == "float_signed":
        return rand_float(rnd) * rnd.choice([1, -1])
    if kind == "float_minmax":
        return rnd.choice([0.5, 0.25, 100.0, 100.5, rnd.uniform(0, 120)])
    if kind == "any":
        return rnd.choice(ANY_ITEMS) if rnd.random() < 0.85 else rand_text(rnd)
    if kind == "uuid":
        u = _uuid.UUID(int=rnd.getrandbits(128))
        return u if rnd.random() < 0.8 else str(u).upper()
    if kind == "path":
        segs = [rand_text(rnd, 1, 5) for _ in range(rnd.randint(1, 4))]
        return "/".join(segs)
    raise AssertionError(kind)


def gen_map_spec(rnd):
    """A picklable description of a map; instantiated once per variant."""
    host_matching = rnd.random() < 0.3
    rules = []
    n_rules = rnd.randint(2, 7)
    for i in range(n_rules):
        lit = f"r{i}"
        n_parts = rnd.randint(0, 3)
        kinds = []
        have_path = False
        for _ in range(n_parts):
            kind, _tmpl = rnd.choice(CONVERTERS)
            if kind == "path":
                if have_path:
                    kind = "string"
                have_path = True
            kinds.append(kind)
        tmpl = dict(CONVERTERS)
        names = [f"v{j}" for j in range(len(kinds))]
        segs = [lit]
        for name, kind in zip(names, kinds):
            piece = tmpl[kind].format(n=name)
            style = rnd.random()
            if style < 0.7:
                segs.append(piece)
            elif style < 0.85:
                segs.append(f"p-{piece}")
            else:
                segs.append(f"{piece}.ext")
        path = "/" + "/".join(segs)
        if rnd.random() < 0.3:
            path += "/"
        if rnd.random() < 0.1:
            path = path.replace("/r", "/sp ace;é/r", 1)
        spec = {
            "path": path,
            "endpoint": f"e{i}",
            "args": dict(zip(names, kinds)),
            "kw": {},
            "wrap": None,
        }
        kw = spec["kw"]
        if rnd.random() < 0.25:
            kw["methods"] = rnd.choice([["GET"], ["POST"], ["GET", "POST"], ["PUT"]])
        if rnd.random() < 0.1:
            kw["websocket"] = True
            kw.pop("methods", None)
        if rnd.random() < 0.1:
            kw["build_only"] = True
        if rnd.random() < 0.15:
            kw["strict_slashes"] = False
        if rnd.random() < 0.1:
            kw["merge_slashes"] = False
        # defaults: for an argument in the rule (the "silly case") or extra
        if rnd.random() < 0.25:
            d = {}
            if names and rnd.random() < 0.6:
                j = rnd.randrange(len(names))
                d[names[j]] = gen_domain_value(rnd, kinds[j])
            if rnd.random() < 0.6:
                d["extra"] = rnd.choice([1, "x", 2.5])
            if d:
                kw["defaults"] = d
        if host_matching:
            c = rnd.random()
            if c < 0.4:
                kw["host"] = SERVER
            elif c < 0.6:
                kw["host"] = "api." + SERVER
            elif c < 0.8:
                kw["host"] = "<tenant>." + SERVER
                spec["args"]["tenant"] = "hostlabel"
            else:
                kw["host"] = "<any(a, b):tenant>.other.test"
                spec["args"]["tenant"] = "hostany"
        else:
            c = rnd.random()
            if c < 0.15:
                kw["subdomain"] = "api"
            elif c < 0.3:
                kw["subdomain"] = "<sub>"
                spec["args"]["sub"] = "hostlabel"
            elif c < 0.4:
                spec["wrap"] = ("Subdomain", rnd.choice(["api", "www", "<sub>"]))
                if spec["wrap"][1] == "<sub>":
                    spec["args"]["sub"] = "hostlabel"
        if spec["wrap"] is None and rnd.random() < 0.15:
            spec["wrap"] = ("Submount", rnd.choice(["/mnt", "/a/b", "/m ü"]))
        rules.append(spec)

        # sibling rule for the same endpoint: shorter URL with defaults
        if names and rnd.random() < 0.3:
            sib = copy.deepcopy(spec)
            last = names[-1]
            if last not in sib["kw"].get("defaults", {}):
                sib["path"] = f"/{lit}s" + "".join(
                    f"/{tmpl[k].format(n=n)}" for n, k in zip(names[:-1], kinds[:-1])
                )
                sib["kw"].setdefault("defaults", {})
                sib["kw"]["defaults"] = dict(sib["kw"]["defaults"])
                sib["kw"]["defaults"][last] = gen_domain_value(rnd, kinds[-1])
                if rnd.random() < 0.3:
                    sib["kw"]["alias"] = True
                rules.insert(rnd.randrange(len(rules) + 1), sib)
        # sibling with different method
        if rnd.random() < 0.15:
            sib = copy.deepcopy(spec)
            sib["path"] = sib["path"].replace(f"/{lit}", f"/{lit}m", 1)
            sib["kw"]["methods"] = ["POST"]
            sib["kw"].pop("websocket", None)
            rules.append(sib)

    map_kw = {"host_matching": host_matching}
    if rnd.random() < 0.3:
        map_kw["sort_parameters"] = True
    if rnd.random() < 0.15:
        map_kw["redirect_defaults"] = False
    if not host_matching and rnd.random() < 0.3:
        map_kw["default_subdomain"] = rnd.choice(["www", "api"])
    return {"rules": rules, "map_kw": map_kw}


def gen_domain_value(rnd, kind):
    for _ in range(50):
        v = gen_value(rnd, kind)
        if kind in ("int", "int_fixed", "int_minmax") and not (
            type(v) is int and 0 <= v
        ):
            continue
        if kind.startswith("int") and type(v) is not int:
            continue
        if kind.startswith("float") and (type(v) is not float or v != v):
            continue
        if kind == "any" and v not in ANY_ITEMS:
            continue
        if kind in ("default", "string", "string_len", "string_minmax", "path"):
            if not isinstance(v, str) or not v:
                continue
        if kind == "uuid" and not isinstance(v, (_uuid.UUID, str)):
            continue
        return v
    return {"int": 1, "float": 1.5}.get(kind[:5].rstrip("_"), "x")


def build_map(spec, variant):
    rule_cls = variant["rule_cls"]
    factories = []
    for r in spec["rules"]:
        rule = rule_cls(r["path"], endpoint=r["endpoint"], **copy.deepcopy(r["kw"]))
        if r["wrap"] is None:
            factories.append(rule)
        elif r["wrap"][0] == "Subdomain":
            factories.append(Subdomain(r["wrap"][1], [rule]))
        else:
            factories.append(Submount(r["wrap"][1], [rule]))
    kw = dict(spec["map_kw"])
    if variant.get("converters"):
        kw["converters"] = variant["converters"]
    return Map(factories, **kw)


def bind(m, variant, server_name, script_name, subdomain, url_scheme):
    adapter = m.bind(
        server_name,
        script_name=script_name,
        subdomain=subdomain,
        url_scheme=url_scheme,
    )
    if variant.get("adapter_cls") is not None:
        adapter.__class__ = variant["adapter_cls"]
    return adapter


def outcome(func, *args, **kwargs):
    try:
        return ("ok", func(*args, **kwargs))
    except RequestRedirect as e:
        return ("redirect", type(e).__name__, e.new_url, e.code)
    except HTTPException as e:
        return ("http", type(e).__name__, getattr(e, "valid_methods", None))
    except Exception as e:  # noqa: B902
        return ("exc", type(e).__name__, str(e))


def gen_values(rnd, spec_rule):
    values = {}
    for name, kind in spec_rule["args"].items():
        if rnd.random() < 0.06:
            continue  # missing argument
        if kind == "hostlabel":
            values[name] = rnd.choice(["www", "api", "t1", "x-y", "ü", "a b"])
        elif kind == "hostany":
            values[name] = rnd.choice(["a", "b", "c"])
        else:
            values[name] = gen_value(rnd, kind)
    for k, v in spec_rule["kw"].get("defaults", {}).items():
        c = rnd.random()
        if c < 0.3:
            values[k] = v
        elif c < 0.4:
            values[k] = gen_value(rnd, spec_rule["args"].get(k, "string"))
    if rnd.random() < 0.4:
        for _ in range(rnd.randint(1, 3)):
            key = rnd.choice(["q", "page", "z k", "ü", "a&b", "extra"])
            values[key] = rnd.choice(
                [
                    "x",
                    rand_text(rnd),
                    5,
                    2.5,
                    None,
                    ["a", "b"],
                    [],
                    ("t", 1),
                    [None, "n"],
                    b"by",
                    True,
                ]
            )
    c = rnd.random()
    if c < 0.1:
        md = MultiDict()
        for k, v in values.items():
            if isinstance(v, (list, tuple)):
                md.setlist(k, list(v))
            else:
                md.add(k, v)
            if rnd.random() < 0.15:
                md.add(k, v)
        return md
    if c < 0.13:
        return None
    return values


def split_built_url(url, adapter_cfg, host_matching, default_subdomain):
    """Return (bind kwargs, path_info, query string) for matching `url` the
    way a server would deliver it, or None when it can not be routed back."""
    server_name, script_name, subdomain, url_scheme = adapter_cfg
    parts = urlsplit(url)
    path = parts.path
    netloc = parts.netloc
    scheme = parts.scheme or url_scheme
    root = (script_name or "/").rstrip("/")
    if root and not path.startswith(root + "/"):
        return None
    path = path[len(root) :]
    if netloc:
        if host_matching:
            server_name, subdomain = netloc, None
        elif netloc == server_name:
            subdomain = ""
        elif netloc.endswith("." + server_name):
            subdomain = netloc[: -len(server_name) - 1]
        else:
            return None
    return (server_name, script_name, subdomain, scheme), unquote(path), parts.query


def run(seed=20240604, n_maps=400, builds_per_map=14, verbose=False):
    rnd = random.Random(seed)
    n_cmp = 0
    n_ok = 0
    n_exc = 0
    n_match_ok = 0
    mismatches = []

    def check(label, a, b, ctx):
        nonlocal n_cmp
        n_cmp += 1
        if a != b and not (a != a and b != b):
            if repr(a) != repr(b):
                mismatches.append((label, ctx, a, b))

    for mi in range(n_maps):
        spec = gen_map_spec(rnd)
        mo_new = outcome(build_map, spec, VARIANTS["new"])
        mo_orig = outcome(build_map, spec, VARIANTS["orig"])
        check("map-construct", mo_new[0], mo_orig[0], spec)
        if mo_new[0] != "ok" or mo_orig[0] != "ok":
            check("map-construct-exc", mo_new, mo_orig, spec)
            continue
        m_new, m_orig = mo_new[1], mo_orig[1]
        host_matching = spec["map_kw"]["host_matching"]
        default_subdomain = spec["map_kw"].get("default_subdomain", "")

        for _bi in range(builds_per_map):
            script_name = rnd.choice(["/", "/app", "/app/", None, "/a/b"])
            subdomain = (
                None if host_matching else rnd.choice([None, "", "www", "api", "t1"])
            )
            server_name = rnd.choice([SERVER, SERVER, "api." + SERVER, SERVER + ":8080"])
            url_scheme = rnd.choice(["http", "http", "https", "ws", "wss", ""])
            cfg = (server_name, script_name, subdomain, url_scheme)
            a_new = bind(m_new, VARIANTS["new"], *cfg)
            a_orig = bind(m_orig, VARIANTS["orig"], *cfg)

            r = rnd.choice(spec["rules"])
            endpoint = r["endpoint"] if rnd.random() < 0.97 else "missing"
            values = gen_values(rnd, r)
            kwargs = {
                "method": rnd.choice([None, None, None, "GET", "POST", "PUT"]),
                "force_external": rnd.random() < 0.4,
                "append_unknown": rnd.random() < 0.75,
                "url_scheme": rnd.choice([None, None, None, "https", "ws", ""]),
            }
            ctx = (mi, r["path"], r["kw"], cfg, endpoint, values, kwargs)
            b_new = outcome(a_new.build, endpoint, copy.deepcopy(values), **kwargs)
            b_orig = outcome(a_orig.build, endpoint, copy.deepcopy(values), **kwargs)
            check("build", b_new, b_orig, ctx)
            if b_new[0] == "ok":
                n_ok += 1
            else:
                n_exc += 1

            # low-level pieces, straight on the rule objects
            plain = {}
            if isinstance(values, MultiDict):
                plain = {
                    k: (v[0] if len(v) == 1 else v)
                    for k, v in values.lists()
                    if len(v) != 0
                }
            elif values:
                plain = {k: v for k, v in values.items() if v is not None}
            for rule_new, rule_orig in zip(
                m_new._rules_by_endpoint.get(endpoint, ()),
                m_orig._rules_by_endpoint.get(endpoint, ()),
            ):
                for meth in (None, "GET", "POST"):
                    check(
                        "suitable_for",
                        outcome(rule_new.suitable_for, plain, meth),
                        outcome(rule_orig.suitable_for, plain, meth),
                        ctx,
                    )
                check(
                    "extra",
                    extra_rule_check(rule_new),
                    extra_rule_check(rule_orig),
                    ctx,
                )
                check(
                    "build_compare_key",
                    rule_new.build_compare_key(),
                    rule_orig.build_compare_key(),
                    ctx,
                )
                for au in (True, False):
                    check(
                        "Rule.build",
                        outcome(rule_new.build, plain, au),
                        outcome(rule_orig.build, plain, au),
                        ctx,
                    )
                for name in rule_new._converters:
                    c_new = rule_new._converters[name]
                    c_orig = rule_orig._converters[name]
                    if name in plain:
                        u_new = outcome(c_new.to_url, plain[name])
                        u_orig = outcome(c_orig.to_url, plain[name])
                        check("to_url", u_new, u_orig, ctx)
                        if u_new[0] == "ok":
                            seg = unquote(u_new[1])
                            check(
                                "to_python",
                                outcome(c_new.to_python, seg),
                                outcome(c_orig.to_python, seg),
                                ctx,
                            )
                    for raw in ("0007", "12", "-12", "1.50", "-0.5", "600", "abc"):
                        check(
                            "to_python-raw",
                            outcome(c_new.to_python, raw),
                            outcome(c_orig.to_python, raw),
                            ctx,
                        )

            if b_new[0] != "ok" or b_orig[0] != "ok":
                continue

            # match the URL that was built, as a server would deliver it
            routed = split_built_url(b_new[1], cfg, host_matching, default_subdomain)
            if routed is None:
                continue
            mcfg, path_info, query = routed
            mm_new = outcome(bind, m_new, VARIANTS["new"], *mcfg)
            mm_orig = outcome(bind, m_orig, VARIANTS["orig"], *mcfg)
            check("bind-for-match", mm_new[0], mm_orig[0], ctx)
            if mm_new[0] != "ok" or mm_orig[0] != "ok":
                continue
            for meth in {kwargs["method"] or "GET", "GET", "POST"}:
                for ws in (False, True):
                    r_new = outcome(
                        mm_new[1].match,
                        path_info,
                        method=meth,
                        query_args=query,
                        websocket=ws,
                        return_rule=True,
                    )
                    r_orig = outcome(
                        mm_orig[1].match,
                        path_info,
                        method=meth,
                        query_args=query,
                        websocket=ws,
                        return_rule=True,
                    )
                    if r_new[0] == "ok" and r_orig[0] == "ok":
                        (rule_n, vals_n), (rule_o, vals_o) = r_new[1], r_orig[1]
                        check(
                            "match",
                            (rule_n.endpoint, rule_n.rule, vals_n),
                            (rule_o.endpoint, rule_o.rule, vals_o),
                            ctx,
                        )
                        n_match_ok += 1
                        # ... and build again from the result of the match
                        rb_new = outcome(
                            mm_new[1].build, rule_n.endpoint, dict(vals_n), method=meth
                        )
                        rb_orig = outcome(
                            mm_orig[1].build, rule_o.endpoint, dict(vals_o), method=meth
                        )
                        check("rebuild", rb_new, rb_orig, ctx)
                    else:
                        check("match-exc", r_new, r_orig, ctx)

        # match arbitrary paths and build from what was matched
        for _pi in range(4):
            r = rnd.choice(spec["rules"])
            segs = [s for s in r["path"].split("/") if s]
            path_info = "/" + "/".join(
                s
                if "<" not in s
                else rnd.choice(["12", "0012", "-3", "1.5", "foo", "a b", "x;y", rand_text(rnd)])
                for s in segs
            )
            if rnd.random() < 0.3:
                path_info += "/"
            cfg = (SERVER, "/", None, "http")
            a_new = bind(m_new, VARIANTS["new"], *cfg)
            a_orig = bind(m_orig, VARIANTS["orig"], *cfg)
            r_new = outcome(a_new.match, path_info, method="GET")
            r_orig = outcome(a_orig.match, path_info, method="GET")
            check("match-raw", r_new, r_orig, (mi, path_info))
            if r_new[0] == "ok" and r_orig[0] == "ok":
                ep, vals = r_new[1]
                check(
                    "build-from-match",
                    outcome(a_new.build, ep, dict(vals)),
                    outcome(a_orig.build, ep, dict(vals)),
                    (mi, path_info),
                )

    print(
        f"comparisons={n_cmp} builds_ok={n_ok} builds_exc={n_exc} "
        f"matches_ok={n_match_ok} mismatches={len(mismatches)}"
    )
    for mm in mismatches[:10]:
        print("MISMATCH", mm)
    if mismatches or n_ok < 1000 or n_match_ok < 1000:
        print("FAIL")
        return 1
    print("PASS")
    return 0


if __name__ == "__main__":
    focused = globals().get("focused_check")
    rc = focused() if focused is not None else 0
    sys.exit(rc or run())
