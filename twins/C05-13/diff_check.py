"""Differential check for refactoring 1 (Response.get_wsgi_headers).

Compares the worktree implementation against a pasted copy of the ORIGINAL
implementation on generated responses / environs.
"""
from __future__ import annotations

import itertools
import random
from urllib.parse import urljoin

from werkzeug.datastructures import Headers
from werkzeug.http import remove_entity_headers
from werkzeug.urls import iri_to_uri
from werkzeug.wrappers import Response
from werkzeug.wsgi import get_current_url


def original_get_wsgi_headers(self, environ):
    headers = Headers(self.headers)
    location = None
    content_location = None
    content_length = None
    status = self.status_code

    for key, value in headers:
        ikey = key.lower()
        if ikey == "location":
            location = value
        elif ikey == "content-location":
            content_location = value
        elif ikey == "content-length":
            content_length = value

    if location is not None:
        location = iri_to_uri(location)

        if self.autocorrect_location_header:
            current_url = get_current_url(environ, strip_querystring=True)
            current_url = iri_to_uri(current_url)
            location = urljoin(current_url, location)

        headers["Location"] = location

    if content_location is not None:
        headers["Content-Location"] = iri_to_uri(content_location)

    if 100 <= status < 200 or status == 204:
        headers.remove("Content-Length")
    elif status == 304:
        remove_entity_headers(headers)

    if (
        self.automatically_set_content_length
        and self.is_sequence
        and content_length is None
        and status not in (204, 304)
        and not (100 <= status < 200)
    ):
        content_length = sum(len(x) for x in self.iter_encoded())
        headers["Content-Length"] = str(content_length)

    return headers


rnd = random.Random(50505)

STATUSES = [
    0, 1, 99, 100, 101, 102, 103, 150, 199, 200, 201, 202, 203, 204, 205, 206,
    299, 300, 301, 302, 303, 304, 305, 307, 308, 400, 404, 416, 418, 500, 503,
    599, 600, 999, 1000, -1, -204,
    "200 OK", "204 NO CONTENT", "304 Not Modified", "100 Continue", "204",
    "304", "199", "wat", "204 ", " 304 x", "20 4",
]
CHUNKS = ["", "a", "hello", "héllo", "☃" * 3, b"", b"bytes", b"\xff\xfe", "x" * 1000]
LOCATIONS = [
    None, "/", "/foo", "foo/bar", "../up", "http://example.org/x", "//other.test/p",
    "/☃?q=ä", "http://über.example/ä", "?only=query", "#frag",
    "/a b", "/%41%zz", "mailto:x@y", "", "http://[::1]:80/x", "/café",
]
CLOCS = [None, "/c", "http://example.org/☃", "rel/ä", ""]
CLENS = [None, "0", "5", "17", "abc", ""]
EXTRA = [
    [],
    [("Content-Type", "text/plain")],
    [("Content-Encoding", "gzip"), ("Content-Language", "en"), ("Allow", "GET")],
    [("content-length", "9")],
    [("CONTENT-LENGTH", "1"), ("Content-Length", "2")],
    [("location", "/first"), ("Location", "/second")],
    [("Expires", "0"), ("Last-Modified", "x"), ("Content-MD5", "q"), ("Content-Range", "bytes 0-1/2")],
    [("X-Foo", "bar"), ("Set-Cookie", "a=b"), ("Set-Cookie", "c=d")],
]


def make_body(kind, chunks):
    if kind == "list":
        return list(chunks)
    if kind == "tuple":
        return tuple(chunks)
    if kind == "gen":
        return (c for c in chunks)
    if kind == "iter":
        return iter(list(chunks))
    if kind == "str":
        return "".join(c for c in chunks if isinstance(c, str))
    if kind == "bytes":
        return b"".join(c for c in chunks if isinstance(c, bytes))
    if kind == "none":
        return None
    raise AssertionError(kind)


def make_environ():
    env = {
        "REQUEST_METHOD": rnd.choice(["GET", "HEAD", "POST", "OPTIONS"]),
        "wsgi.url_scheme": rnd.choice(["http", "https"]),
        "SERVER_NAME": rnd.choice(["localhost", "example.org", "xn--ber-goa.example"]),
        "SERVER_PORT": rnd.choice(["80", "443", "8080"]),
        "SCRIPT_NAME": rnd.choice(["", "/app", "/\xc3\xa4pp"]),
        "PATH_INFO": rnd.choice(["", "/", "/x/y", "/\xe2\x98\x83", "/a b"]),
        "QUERY_STRING": rnd.choice(["", "a=b", "x=\xc3\xa4"]),
    }
    r = rnd.random()
    if r < 0.3:
        env["HTTP_HOST"] = rnd.choice(["example.com", "example.com:8000", "localhost:80", "h\xf6st"])
    elif r < 0.35:
        del env["SERVER_NAME"]  # provoke KeyError in get_current_url
    return env


def outcome(func, resp, environ):
    try:
        h = func(resp, environ)
    except Exception as e:  # noqa: BLE001
        return ("exc", type(e).__name__, str(e))
    return ("ok", type(h).__name__, h.to_wsgi_list())


def run():
    count = 0
    mismatches = 0

    def one(status, kind, chunks, loc, cloc, clen, extra, autoloc, autolen, direct):
        nonlocal count, mismatches
        try:
            resp = Response(make_body(kind, chunks), status=status)
        except Exception:  # noqa: BLE001
            return
        for k, v in extra:
            resp.headers.add(k, v)
        if loc is not None:
            resp.headers["Location"] = loc
        if cloc is not None:
            resp.headers["Content-Location"] = cloc
        if clen is not None:
            resp.headers["Content-Length"] = clen
        resp.autocorrect_location_header = autoloc
        resp.automatically_set_content_length = autolen
        resp.direct_passthrough = direct
        environ = make_environ()
        before = (resp.headers.to_wsgi_list(), resp.status, resp.status_code)
        a = outcome(original_get_wsgi_headers, resp, environ)
        mid = (resp.headers.to_wsgi_list(), resp.status, resp.status_code)
        b = outcome(Response.get_wsgi_headers, resp, environ)
        after = (resp.headers.to_wsgi_list(), resp.status, resp.status_code)
        count += 1
        if a != b or before != mid or mid != after:
            mismatches += 1
            if mismatches <= 10:
                print("MISMATCH", status, kind, chunks, loc, cloc, clen, extra, a, b)

    # systematic: every status x body kind x preset content-length
    for status, kind, clen, autolen in itertools.product(
        STATUSES, ["list", "tuple", "gen", "iter", "str", "bytes", "none"], CLENS, [True, False]
    ):
        chunks = [rnd.choice(CHUNKS) for _ in range(rnd.randint(0, 4))]
        one(status, kind, chunks, rnd.choice(LOCATIONS), rnd.choice(CLOCS), clen,
            rnd.choice(EXTRA), rnd.random() < 0.5, autolen, rnd.random() < 0.2)

    # random
    for _ in range(12000):
        chunks = [rnd.choice(CHUNKS) for _ in range(rnd.randint(0, 5))]
        one(rnd.choice(STATUSES) if rnd.random() < 0.7 else rnd.randint(-10, 700),
            rnd.choice(["list", "tuple", "gen", "iter", "str", "bytes", "none"]),
            chunks, rnd.choice(LOCATIONS), rnd.choice(CLOCS), rnd.choice(CLENS),
            rnd.choice(EXTRA), rnd.random() < 0.5, rnd.random() < 0.7, rnd.random() < 0.2)

    # is_sequence list containing a non-bytes/non-str element -> error path
    for status in STATUSES:
        resp = Response(status=status)
        resp.response = ["a", 5, b"b"]
        environ = make_environ()
        a = outcome(original_get_wsgi_headers, resp, environ)
        b = outcome(Response.get_wsgi_headers, resp, environ)
        count += 1
        if a != b:
            mismatches += 1
            print("MISMATCH bad-seq", status, a, b)

    print(f"compared {count} cases, {mismatches} mismatches")
    print("PASS" if mismatches == 0 and count > 3000 else "FAIL")


if __name__ == "__main__":
    run()
