# ---- shared generator / comparison harness (pasted into every diff_check) ----
import contextlib
import random

from werkzeug.exceptions import HTTPException
from werkzeug.exceptions import MethodNotAllowed
from werkzeug.routing import Map
from werkzeug.routing import Rule
from werkzeug.routing import Submount
from werkzeug.routing.exceptions import NoMatch
from werkzeug.routing.exceptions import RequestAliasRedirect
from werkzeug.routing.exceptions import RequestPath
from werkzeug.routing.exceptions import RequestRedirect

SEGS = ["foo", "bar", "a", "b", "evil.com", "x y", "café", "%2F", "1", "42", "en"]


def gen_rule_strings(rnd):
    out = []
    for _ in range(rnd.randint(1, 5)):
        parts = []
        for _ in range(rnd.randint(0, 3)):
            c = rnd.random()
            if c < 0.55:
                parts.append(rnd.choice(SEGS[:5]))
            elif c < 0.7:
                parts.append("<int:n>")
            elif c < 0.85:
                parts.append("<name>")
            elif c < 0.93:
                parts.append("<path:p>")
            else:
                parts.append("<any(en,de):lang>")
        # avoid duplicate variable names within a rule
        seen = set()
        ok = []
        for p in parts:
            if p.startswith("<"):
                if p in seen:
                    continue
                seen.add(p)
            ok.append(p)
        s = "/" + "/".join(ok)
        if ok and rnd.random() < 0.5:
            s += "/"
        out.append(s)
    return out


def gen_map(rnd):
    host_matching = rnd.random() < 0.2
    rules = []
    strings = gen_rule_strings(rnd)
    for i, s in enumerate(strings):
        kw = {}
        kw["endpoint"] = rnd.choice(["e0", "e1", f"e{i}"])
        if rnd.random() < 0.3:
            kw["strict_slashes"] = rnd.random() < 0.5
        if rnd.random() < 0.3:
            kw["merge_slashes"] = rnd.random() < 0.5
        if rnd.random() < 0.3:
            kw["methods"] = rnd.sample(["GET", "POST", "PUT"], rnd.randint(1, 2))
        if rnd.random() < 0.1:
            kw["websocket"] = True
            kw.pop("methods", None)
        if rnd.random() < 0.2:
            kw["alias"] = True
        if rnd.random() < 0.1:
            kw["build_only"] = True
        if rnd.random() < 0.08:
            kw["redirect_to"] = rnd.choice(["/target", "other/<n>", "//x.test/y"])
        if rnd.random() < 0.35:
            d = {}
            for name, val in (("n", 1), ("name", "foo"), ("lang", "en"), ("q", "z")):
                if f":{name}>" not in s and f"<{name}>" not in s and rnd.random() < 0.4:
                    d[name] = val
            if d:
                kw["defaults"] = d
        if host_matching:
            kw["host"] = rnd.choice(["example.com", "<h>.example.com", "other.test"])
        elif rnd.random() < 0.2:
            kw["subdomain"] = rnd.choice(["www", "<sub>", "api"])
        try:
            rules.append(Rule(s, **kw))
        except Exception:
            continue
    # add twins with defaults to exercise default redirects
    if rnd.random() < 0.6:
        ep = "dflt"
        sd = rnd.choice([None, "www"]) if not host_matching else None
        extra = {}
        if host_matching:
            extra["host"] = "example.com"
        elif sd:
            extra["subdomain"] = sd
        base = rnd.choice(["/pages", "/pages/", "/", "/a/b/"])
        tail = "" if base.endswith("/") else "/"
        slash = rnd.choice(["", "/"])
        rules.append(Rule(base.rstrip("/") + slash if base != "/" else "/", defaults={"n": 1}, endpoint=ep, **extra))
        rules.append(Rule(f"{base}{tail}<int:n>{slash}", endpoint=ep, **extra))
        if rnd.random() < 0.5:
            rules.append(Rule(f"{base}{tail}alias/<int:n>", endpoint=ep, alias=True, **extra))
    if rnd.random() < 0.2:
        rules = [Submount("/sub", rules)]
    mkw = {}
    if rnd.random() < 0.3:
        mkw["strict_slashes"] = False
    if rnd.random() < 0.3:
        mkw["merge_slashes"] = False
    if rnd.random() < 0.2:
        mkw["redirect_defaults"] = False
    try:
        m = Map(rules, host_matching=host_matching, **mkw)
        m.update()
    except Exception:
        return None
    return m


def gen_bind(rnd, m):
    kw = {}
    server_name = rnd.choice(["example.com", "example.com", "example.com:8080", "localhost", "a.example.com", "other.test"])
    if rnd.random() < 0.5:
        kw["script_name"] = rnd.choice(["/", "/app", "/app/", "//app//", "", "app"])
    if not m.host_matching:
        subs = sorted({r.subdomain for r in m._rules if r.subdomain and "<" not in r.subdomain})
        if subs and rnd.random() < 0.6:
            kw["subdomain"] = rnd.choice(subs)
        elif rnd.random() < 0.25:
            kw["subdomain"] = rnd.choice(["www", "", "api", "x.y"])
    if rnd.random() < 0.5:
        kw["url_scheme"] = rnd.choice(["http", "https", "ws", "wss", ""])
    if rnd.random() < 0.3:
        kw["default_method"] = rnd.choice(["GET", "POST", "get"])
    if rnd.random() < 0.3:
        kw["query_args"] = rnd.choice(["a=1&b=2", {"k": "v w"}, "", {}, {"x": [1, 2]}, "q=%2F%2Fevil"])
    if rnd.random() < 0.2:
        kw["path_info"] = rnd.choice(["/foo", "", "//evil.com", "/pages"])
    return m.bind(server_name, **kw)


def rule_paths(rnd, m):
    out = []
    for r in m._rules:
        s = r.rule
        for a, b in (("<int:n>", "1"), ("<int:n>", "7"), ("<name>", "foo"), ("<name>", "zz"),
                     ("<path:p>", "x/y"), ("<path:p>", "x//y/"), ("<any(en,de):lang>", "en"),
                     ("<any(en,de):lang>", "de")):
            if a in s and rnd.random() < 0.5:
                s = s.replace(a, b)
        for a, b in (("<int:n>", "1"), ("<name>", "foo"), ("<path:p>", "x/y"), ("<any(en,de):lang>", "en")):
            s = s.replace(a, b)
        out.append(s)
    return out


def gen_path(rnd, m, base_paths):
    c = rnd.random()
    if c < 0.6 and base_paths:
        p = rnd.choice(base_paths)
    else:
        p = "/" + "/".join(rnd.choice(SEGS) for _ in range(rnd.randint(0, 4)))
    # mutations
    for _ in range(rnd.randint(0, 3)):
        c = rnd.random()
        if c < 0.2:
            p = p.rstrip("/")
        elif c < 0.4:
            p = p + "/"
        elif c < 0.55:
            p = p.replace("/", "//", rnd.randint(1, 2))
        elif c < 0.65:
            p = "/" + p
        elif c < 0.72:
            p = "//evil.com" + p
        elif c < 0.78:
            p = p.lstrip("/")
        elif c < 0.84:
            p = p + "//"
        elif c < 0.88:
            p = "/\\evil.com" + p
        elif c < 0.92:
            p = p.replace("/", "///", 1)
        elif c < 0.95:
            p = ""
    if rnd.random() < 0.02:
        return None
    return p


def outcome(fn):
    try:
        r = fn()
    except RequestRedirect as e:
        return ("RequestRedirect", e.new_url, e.code)
    except MethodNotAllowed as e:
        return ("MethodNotAllowed", sorted(e.valid_methods or []))
    except HTTPException as e:
        return (type(e).__name__, e.code)
    except RequestPath as e:
        return ("RequestPath", e.path_info)
    except RequestAliasRedirect as e:
        return ("RequestAliasRedirect", repr(e.endpoint), repr(sorted(e.matched_values.items())))
    except NoMatch as e:
        return ("NoMatch", sorted(e.have_match_for), e.websocket_mismatch)
    except Exception as e:  # noqa: B902
        return (type(e).__name__, str(e))
    return ("ok", repr(r))


@contextlib.contextmanager
def patched(cls, **funcs):
    saved = {k: cls.__dict__[k] for k in funcs}
    for k, v in funcs.items():
        setattr(cls, k, v)
    try:
        yield
    finally:
        for k, v in saved.items():
            setattr(cls, k, v)


def follow(adapter, path, method, limit=6):
    """Follow router redirects on the bound host; returns the trace."""
    from urllib.parse import unquote
    from urllib.parse import urlsplit

    trace = []
    for _ in range(limit):
        o = outcome(lambda: adapter.match(path, method))
        trace.append(o)
        if o[0] != "RequestRedirect":
            break
        parts = urlsplit(o[1])
        trace.append((parts.scheme, parts.netloc, parts.query))
        script = adapter.script_name.rstrip("/")
        new_path = unquote(parts.path)
        if script and new_path.startswith(script):
            new_path = new_path[len(script):]
        if new_path == path:
            break
        path = new_path
    return trace
# ---- end of shared harness ----
# ---- ORIGINAL implementation of StateMachineMatcher.match (unmodified tree) ----
import re
import typing as t

from werkzeug.routing import matcher as _matcher_mod
from werkzeug.routing.converters import ValidationError
from werkzeug.routing.matcher import SlashRequired
from werkzeug.routing.matcher import State
from werkzeug.routing.matcher import StateMachineMatcher


def orig_match(self, domain, path, method, websocket):
    have_match_for = set()
    websocket_mismatch = False

    def _match(state, parts, values):
        nonlocal have_match_for, websocket_mismatch

        if parts == []:
            for rule in state.rules:
                if rule.methods is not None and method not in rule.methods:
                    have_match_for.update(rule.methods)
                elif rule.websocket != websocket:
                    websocket_mismatch = True
                else:
                    return rule, values

            if "" in state.static:
                for rule in state.static[""].rules:
                    if websocket == rule.websocket and (
                        rule.methods is None or method in rule.methods
                    ):
                        if rule.strict_slashes:
                            raise SlashRequired()
                        else:
                            return rule, values
                    elif (
                        not rule.strict_slashes
                        and rule.methods is not None
                        and method not in rule.methods
                    ):
                        have_match_for.update(rule.methods)
            return None

        part = parts[0]
        if part in state.static:
            rv = _match(state.static[part], parts[1:], values)
            if rv is not None:
                return rv
        for test_part, new_state in state.dynamic:
            target = part
            remaining = parts[1:]
            if test_part.final:
                target = "/".join(parts)
                remaining = []
            match = re.compile(test_part.content).match(target)
            if match is not None:
                if test_part.suffixed:
                    suffix = match.groups()[-1]
                    if suffix == "/":
                        remaining = [""]

                converter_groups = sorted(
                    match.groupdict().items(), key=lambda entry: entry[0]
                )
                groups = [
                    value
                    for key, value in converter_groups
                    if key[:11] == "__werkzeug_"
                ]
                rv = _match(new_state, remaining, values + groups)
                if rv is not None:
                    return rv

        if parts == [""]:
            for rule in state.rules:
                if rule.strict_slashes:
                    continue
                if rule.methods is not None and method not in rule.methods:
                    have_match_for.update(rule.methods)
                elif rule.websocket != websocket:
                    websocket_mismatch = True
                else:
                    return rule, values

        return None

    try:
        rv = _match(self._root, [domain, *path.split("/")], [])
    except SlashRequired:
        raise RequestPath(f"{path}/") from None

    if self.merge_slashes and rv is None:
        # Try to match again, but with slashes merged
        path = re.sub("/{2,}?", "/", path)
        try:
            rv = _match(self._root, [domain, *path.split("/")], [])
        except SlashRequired:
            raise RequestPath(f"{path}/") from None
        if rv is None or rv[0].merge_slashes is False:
            raise NoMatch(have_match_for, websocket_mismatch)
        else:
            raise RequestPath(f"{path}")
    elif rv is not None:
        rule, values = rv

        result = {}
        for name, value in zip(rule._converters.keys(), values):
            try:
                value = rule._converters[name].to_python(value)
            except ValidationError:
                raise NoMatch(have_match_for, websocket_mismatch) from None
            result[str(name)] = value
        if rule.defaults:
            result.update(rule.defaults)

        if rule.alias and rule.map.redirect_defaults:
            raise RequestAliasRedirect(result, rule.endpoint)

        return rule, result

    raise NoMatch(have_match_for, websocket_mismatch)


new_match = StateMachineMatcher.__dict__["match"]


def main():
    rnd = random.Random(20241012)
    n_cases = 0
    n_maps = 0
    kinds = {}
    mismatches = []
    while n_cases < 40000:
        m = gen_map(rnd)
        if m is None:
            continue
        n_maps += 1
        base = rule_paths(rnd, m)
        for _ in range(3):
            adapter = gen_bind(rnd, m)
            domains = [adapter.server_name, adapter.subdomain or "", "www", "example.com", "api"]
            domains += [(r.host if m.host_matching else r.subdomain) or "" for r in m._rules] * 3
            domains = [d.replace("<h>", "hh").replace("<sub>", "ss") for d in domains]
            for _ in range(12):
                path = gen_path(rnd, m, base)
                method = rnd.choice(["GET", "GET", "POST", "PUT", "HEAD", None])
                ws = rnd.choice([None, None, True, False])
                n_cases += 1
                # 1. direct matcher level (raw paths, incl. ones w/o leading slash)
                if path is not None:
                    dom = rnd.choice(domains)
                    meth = method or "GET"
                    wsb = bool(ws)
                    for mm in (True, False):
                        m._matcher.merge_slashes = mm if rnd.random() < 0.1 else m._matcher.merge_slashes
                        a = outcome(lambda: new_match(m._matcher, dom, path, meth, wsb))
                        b = outcome(lambda: orig_match(m._matcher, dom, path, meth, wsb))
                        if a != b:
                            mismatches.append(("matcher", [r.rule for r in m._rules], dom, path, meth, wsb, a, b))
                        kinds[a[0]] = kinds.get(a[0], 0) + 1
                    m._matcher.merge_slashes = m.merge_slashes
                # 2. adapter level, end to end
                qa = rnd.choice([None, None, "x=1", {"y": "2 3"}])
                a = outcome(lambda: adapter.match(path, method, query_args=qa, websocket=ws))
                with patched(StateMachineMatcher, match=orig_match):
                    b = outcome(lambda: adapter.match(path, method, query_args=qa, websocket=ws))
                if a != b:
                    mismatches.append(("adapter", [r.rule for r in m._rules], path, method, ws, a, b))
                kinds["adapter:" + a[0]] = kinds.get("adapter:" + a[0], 0) + 1
                # 3. follow redirects
                if path is not None and a[0] == "RequestRedirect":
                    ta = follow(adapter, path, method)
                    with patched(StateMachineMatcher, match=orig_match):
                        tb = follow(adapter, path, method)
                    if ta != tb:
                        mismatches.append(("follow", path, ta, tb))
    print("maps", n_maps, "cases", n_cases)
    print("outcome kinds", dict(sorted(kinds.items())))
    if mismatches:
        for mm in mismatches[:10]:
            print("MISMATCH", mm)
        print("FAIL", len(mismatches))
        raise SystemExit(1)
    print("PASS")


if __name__ == "__main__":
    main()
