"""Differential check for refactoring 1 (sansio.utils._strip_port / get_host).

Run: cd /tmp/wt9-C20 && PYTHONPATH=/tmp/wt9-C20/src /venv/bin/python /tmp/twin5-C20/1/diff_check.py
Compares the worktree implementation against a pasted copy of the ORIGINAL.
"""
from __future__ import annotations

import itertools
import random

from werkzeug.exceptions import SecurityError
from werkzeug.sansio import utils as new
from werkzeug.sansio.request import Request as SansRequest
from werkzeug.datastructures import Headers
from werkzeug import wsgi
from werkzeug.test import EnvironBuilder


# ---------------------------------------------------------------- ORIGINAL
def o_strip_port(host):
    if host.startswith("["):
        # Bracketed IPv6 literal, a port can only follow the closing bracket.
        return host[: host.find("]") + 1] or host

    return host.partition(":")[0]


def o_host_is_trusted(hostname, trusted_list):
    if not hostname:
        return False

    try:
        hostname = o_strip_port(hostname).encode("idna").decode("ascii")
    except UnicodeError:
        return False

    if isinstance(trusted_list, str):
        trusted_list = [trusted_list]

    for ref in trusted_list:
        if ref.startswith("."):
            ref = ref[1:]
            suffix_match = True
        else:
            suffix_match = False

        try:
            ref = o_strip_port(ref).encode("idna").decode("ascii")
        except UnicodeError:
            return False

        if ref == hostname or (suffix_match and hostname.endswith(f".{ref}")):
            return True

    return False


def o_get_host(scheme, host_header, server=None, trusted_hosts=None):
    host = ""

    if host_header is not None:
        host = host_header
    elif server is not None:
        host = server[0]

        # If SERVER_NAME is IPv6, wrap it in [] to match Host header.
        # Check for : because domain or IPv4 can't have that.
        if ":" in host and host[0] != "[":
            host = f"[{host}]"

        if server[1] is not None:
            host = f"{host}:{server[1]}"

    if scheme in {"http", "ws"} and host.endswith(":80"):
        host = host[:-3]
    elif scheme in {"https", "wss"} and host.endswith(":443"):
        host = host[:-4]

    if trusted_hosts is not None:
        if not o_host_is_trusted(host, trusted_hosts):
            raise SecurityError(f"Host {host!r} is not trusted.")

    return host


# ---------------------------------------------------------------- helpers
def outcome(f, *a):
    try:
        return ("ok", f(*a))
    except BaseException as e:  # noqa: B036
        return ("exc", type(e), str(e), getattr(e, "code", None))


rnd = random.Random(20)

LABELS = [
    "example.com", "sub.example.com", "evilexample.com", "example.com.evil.org",
    "localhost", "a.localhost", "notlocalhost", "127.0.0.1", "127.0.0.10",
    "1127.0.0.1", "::1", "[::1]", "[::1", "::1]", "[2001:db8::1]", "2001:db8::1",
    "[", "]", "[]", "", ".", "..", ".example.com", "example.com.", "EXAMPLE.com",
    "bücher.example", "xn--bcher-kva.example", "☃.net", "a" * 70 + ".com",
    "ex ample.com", "example.com\x00", "\udcff.com", "exa。mple.com",
    "[::1]x", "x[::1]", "[v6]]", "[[::1]]",
]
PORTS = ["", ":80", ":443", ":8080", ":", ":80:80", ":443:80", ":80:443", ":abc", ":080"]
SCHEMES = ["http", "https", "ws", "wss", "ftp", "", "HTTP", "Https", None, 5, ("http",)]
ALPHA = "ab.:[]xn--ü。 80443"


def rand_host():
    k = rnd.random()
    if k < 0.6:
        return rnd.choice(LABELS) + rnd.choice(PORTS)
    if k < 0.7:
        return rnd.choice(LABELS) + rnd.choice(PORTS) + rnd.choice(PORTS)
    return "".join(rnd.choice(ALPHA) for _ in range(rnd.randint(0, 9)))


def rand_trusted():
    k = rnd.random()
    if k < 0.1:
        return None
    if k < 0.2:
        return rand_host()  # bare string
    if k < 0.25:
        return []
    n = rnd.randint(1, 4)
    out = []
    for _ in range(n):
        h = rand_host()
        if rnd.random() < 0.4:
            h = "." + h
        out.append(h)
    if rnd.random() < 0.2:
        return tuple(out)
    return out


def rand_server():
    k = rnd.random()
    if k < 0.2:
        return None
    name = rnd.choice(LABELS + ["/tmp/sock", "srv"])
    port = rnd.choice([None, 80, 443, 8080, 0, "80", "443", 8443])
    if k < 0.23:
        return (name,)  # malformed -> IndexError in both
    if k < 0.26:
        return (name, port, "extra")
    return (name, port)


n = 0
bad = 0


def check(a, b, what):
    global n, bad
    n += 1
    if a != b:
        bad += 1
        if bad < 20:
            print("MISMATCH", what, a, b)


# 1. _strip_port exhaustively on labels x ports plus random strings
for lab, p1, p2 in itertools.product(LABELS, PORTS, PORTS):
    h = lab + p1 + p2
    check(outcome(o_strip_port, h), outcome(new._strip_port, h), ("strip", h))
for _ in range(20000):
    h = rand_host()
    check(outcome(o_strip_port, h), outcome(new._strip_port, h), ("strip", h))
# short strings exhaustively over a small alphabet
for ln in range(0, 6):
    for tup in itertools.product("[]:a.", repeat=ln):
        h = "".join(tup)
        check(outcome(o_strip_port, h), outcome(new._strip_port, h), ("strip", h))

# 2. host_is_trusted (uses _strip_port)
for _ in range(30000):
    h = rnd.choice([None, rand_host(), rand_host(), rand_host()])
    tl = rand_trusted()
    if tl is None:
        tl = []
    check(
        outcome(o_host_is_trusted, h, tl),
        outcome(new.host_is_trusted, h, tl),
        ("trusted", h, tl),
    )
# targeted pairs
for h, ref in itertools.product(LABELS, LABELS):
    for hp, rp, dot in itertools.product(["", ":80", ":8080"], ["", ":443"], ["", "."]):
        a = (h + hp, [dot + ref + rp])
        check(outcome(o_host_is_trusted, *a), outcome(new.host_is_trusted, *a), a)

# 3. get_host
for _ in range(40000):
    a = (
        rnd.choice(SCHEMES),
        rnd.choice([None, None, rand_host(), rand_host(), rand_host()]),
        rand_server(),
        rand_trusted(),
    )
    check(outcome(o_get_host, *a), outcome(new.get_host, *a), ("get_host", a))
for sch, lab, port in itertools.product(SCHEMES, LABELS, PORTS):
    for th in (None, [lab], ["." + lab], [".example.com", "127.0.0.1", ".localhost"]):
        a = (sch, lab + port, None, th)
        check(outcome(o_get_host, *a), outcome(new.get_host, *a), ("get_host", a))
        a = (sch, None, (lab, {"": None, ":80": 80, ":443": 443}.get(port, 8080)), th)
        check(outcome(o_get_host, *a), outcome(new.get_host, *a), ("get_host", a))

# 4. through the public wrappers: wsgi.get_host and sansio Request.host
for _ in range(4000):
    hh = rnd.choice([None, rand_host(), rand_host()])
    scheme = rnd.choice(["http", "https", "ws", "wss"])
    srv = rand_server()
    if srv is None or len(srv) != 2:
        srv = ("srv.example", 80)
    th = rand_trusted()
    try:
        hh_latin = None if hh is None else hh.encode("latin-1").decode("latin-1")
    except UnicodeError:
        hh_latin = None
    environ = {
        "wsgi.url_scheme": scheme,
        "SERVER_NAME": srv[0],
        "SERVER_PORT": str(srv[1]) if srv[1] is not None else "80",
    }
    if hh_latin is not None:
        environ["HTTP_HOST"] = hh_latin
    expected = outcome(
        o_get_host, scheme, environ.get("HTTP_HOST"), wsgi._get_server(environ), th
    )
    check(expected, outcome(wsgi.get_host, environ, th), ("wsgi", environ, th))

    headers = Headers()
    if hh_latin is not None:
        headers["Host"] = hh_latin.replace("\x00", "").replace("\n", "")
    req = SansRequest("GET", scheme, srv, "", "/", b"", headers, None)
    req.trusted_hosts = th if th is None or isinstance(th, list) else list(th) if not isinstance(th, str) else th
    expected = outcome(o_get_host, scheme, headers.get("host"), srv, req.trusted_hosts)
    check(expected, outcome(lambda: req.host), ("request.host", scheme, headers, srv, th))

print(f"{n} comparisons, {bad} mismatches")
print("PASS" if bad == 0 and n > 5000 else "FAIL")
