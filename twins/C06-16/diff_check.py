"""Differential check for refactoring 1 (parse_range_header).

Compares the worktree's parse_range_header against a pasted copy of the
original implementation on generated inputs.
"""
import itertools
import random

from werkzeug import datastructures as ds
from werkzeug._internal import _plain_int
from werkzeug.http import parse_range_header as new_parse_range_header


def orig_parse_range_header(value, make_inclusive=True):
    if not value or "=" not in value:
        return None

    ranges = []
    last_end = 0
    units, rng = value.split("=", 1)
    units = units.strip().lower()

    for item in rng.split(","):
        item = item.strip()
        if "-" not in item:
            return None
        if item.startswith("-"):
            if last_end < 0:
                return None
            try:
                begin = _plain_int(item)
            except ValueError:
                return None
            end = None
            last_end = -1
        elif "-" in item:
            begin_str, end_str = item.split("-", 1)
            begin_str = begin_str.strip()
            end_str = end_str.strip()

            try:
                begin = _plain_int(begin_str)
            except ValueError:
                return None

            if begin < last_end or last_end < 0:
                return None
            if end_str:
                if end_str.startswith("-"):
                    # _plain_int accepts a sign, a position does not have one
                    return None

                try:
                    end = _plain_int(end_str) + 1
                except ValueError:
                    return None

                if begin >= end:
                    return None
            else:
                end = None
            last_end = end if end is not None else -1
        ranges.append((begin, end))

    return ds.Range(units, ranges)


def run(fn, *args):
    try:
        rv = fn(*args)
    except BaseException as e:  # noqa: B036
        return ("exc", type(e))
    if rv is None:
        return ("ok", None)
    return ("ok", type(rv), rv.units, rv.ranges, rv.to_header())


rnd = random.Random(60606)
inputs = [None, "", "bytes", "=", "bytes=", "bytes=-", "bytes=--1", "bytes=1--2"]

# 1. exhaustive small strings over the significant alphabet
alphabet = ["0", "5", "-", ",", " ", "=", "a", "+"]
for n in range(0, 6):
    for tup in itertools.product(alphabet, repeat=n):
        inputs.append("bytes=" + "".join(tup))

# 2. valid serialised Range objects (round-trip domain) and mutations
def rand_int():
    return rnd.choice([0, 1, 2, 9, 10, 99, 100, 500, 10**6, rnd.randrange(0, 10**9)])

def rand_item():
    k = rnd.random()
    if k < 0.15:
        return f"-{rand_int()}"
    if k < 0.35:
        return f"{rand_int()}-"
    a = rand_int()
    b = a + rnd.choice([-5, -1, 0, 1, 5, 100])
    return f"{a}-{b}"

units_pool = ["bytes", "Bytes", " bytes ", "items", "", "by=tes", "é"]
for _ in range(12000):
    items = []
    base = 0
    for _ in range(rnd.randrange(1, 5)):
        if rnd.random() < 0.6:
            # increasing, mostly valid
            a = base + rnd.randrange(0, 50)
            b = a + rnd.randrange(0, 50)
            base = b + rnd.randrange(0, 3)
            items.append(rnd.choice([f"{a}-{b}", f"{a}-{b}", f"{a}-", f"-{b}"]))
        else:
            items.append(rand_item())
    sep = rnd.choice([",", ", ", " , ", ",,"])
    s = rnd.choice(units_pool) + rnd.choice(["=", " = ", "==", ""]) + sep.join(items)
    inputs.append(s)
    # mutate
    if rnd.random() < 0.5 and s:
        pos = rnd.randrange(len(s))
        ch = rnd.choice("-+ ,=_0\t9x٣１")
        if rnd.random() < 0.5:
            s = s[:pos] + ch + s[pos:]
        else:
            s = s[:pos] + ch + s[pos + 1 :]
        inputs.append(s)

# 3. random garbage
chars = "0123456789-,= \t+_abytes٣"
for _ in range(8000):
    inputs.append(
        "bytes=" * rnd.randrange(2)
        + "".join(rnd.choice(chars) for _ in range(rnd.randrange(0, 14)))
    )

# 4. Range objects serialised with to_header, then parsed (the property itself)
for _ in range(3000):
    rs = []
    base = 0
    for _ in range(rnd.randrange(1, 5)):
        a = base + rnd.randrange(0, 1000)
        b = a + rnd.randrange(1, 1000)
        base = b
        rs.append((a, b))
    if rnd.random() < 0.3:
        rs[-1] = (rs[-1][0], None)
    elif rnd.random() < 0.2:
        rs[-1] = (-rnd.randrange(1, 1000), None)
    try:
        inputs.append(ds.Range("bytes", rs).to_header())
    except ValueError:
        pass

bad = 0
for value in inputs:
    for extra in ((), (False,)):
        a = run(orig_parse_range_header, value, *extra)
        b = run(new_parse_range_header, value, *extra)
        if a != b:
            bad += 1
            if bad < 10:
                print("MISMATCH", repr(value), a, b)

print(f"{len(inputs)} inputs checked")
print("PASS" if not bad else f"FAIL ({bad})")
