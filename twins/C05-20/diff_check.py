"""Differential check: werkzeug.wsgi.ClosingIterator (worktree, possibly
refactored) against a verbatim copy of the ORIGINAL class.  Random wrapped
iterables / callback arguments are generated; construction, iteration and
(repeated) close are replayed on both and the produced items, the ordered log
of close events and the raised exception types are compared.
"""

from __future__ import annotations

import random
import sys
import typing as t
from functools import partial

from werkzeug.wsgi import ClosingIterator


class OrigClosingIterator:
    # --- verbatim copy from the unmodified tree -----------------------------
    def __init__(self, iterable, callbacks=None) -> None:
        iterator = iter(iterable)
        self._next = t.cast(t.Callable[[], bytes], partial(next, iterator))
        if callbacks is None:
            callbacks = []
        elif callable(callbacks):
            callbacks = [callbacks]
        else:
            callbacks = list(callbacks)
        iterable_close = getattr(iterable, "close", None)
        if iterable_close:
            callbacks.insert(0, iterable_close)
        self._callbacks = callbacks

    def __iter__(self):
        return self

    def __next__(self):
        return self._next()

    def close(self) -> None:
        for callback in self._callbacks:
            callback()


class Boom(Exception):
    pass


def make_iterable(rng, log):
    """Return a factory building a fresh wrapped iterable bound to ``log``."""
    items = [bytes([rng.randrange(65, 91)]) * rng.randrange(0, 4) for _ in range(rng.randrange(4))]
    kind = rng.randrange(14)

    if kind == 0:
        return lambda: list(items)
    if kind == 1:
        return lambda: tuple(items)
    if kind == 2:

        def gen():
            try:
                yield from items
            finally:
                log.append("gen-finalised")

        return gen  # generators have their own close()
    if kind == 3:
        return lambda: iter(items)
    if kind == 4:
        return lambda: 5  # not iterable -> TypeError
    if kind == 5:
        return lambda: None

    raises = kind == 6
    close_attr = {7: "none", 8: "int", 9: "zero", 10: "prop-attrerr", 11: "prop-boom"}.get(kind, "method")
    falsy_callable = kind == 12
    iter_raises = kind == 13

    def build():
        class Body:
            def __iter__(self):
                log.append("iter")
                if iter_raises:
                    raise Boom("iter")
                return iter(items)

        if close_attr == "method":
            if falsy_callable:

                class Closer:
                    def __bool__(self):
                        log.append("close-bool")
                        return False

                    def __call__(self):
                        log.append("falsy-close")

                Body.close = Closer()  # instance attr lookup returns it unbound
            else:

                def close(self):
                    log.append("body-close")
                    if raises:
                        raise Boom("close")

                Body.close = close
        elif close_attr == "none":
            Body.close = None
        elif close_attr == "int":
            Body.close = 1  # truthy, not callable -> TypeError on close()
        elif close_attr == "zero":
            Body.close = 0
        elif close_attr == "prop-attrerr":

            def getter(self):
                log.append("close-lookup")
                raise AttributeError("close")

            Body.close = property(getter)
        elif close_attr == "prop-boom":

            def getter(self):
                log.append("close-lookup")
                raise Boom("lookup")

            Body.close = property(getter)
        return Body()

    return build


def make_callbacks(rng, log):
    def cb(name, exc=None):
        def f():
            log.append(name)
            if exc is not None:
                raise exc(name)

        return f

    def some(n):
        out = []
        for i in range(n):
            exc = rng.choice([None, None, None, None, Boom, KeyError])
            out.append(cb(f"cb{i}", exc))
        if rng.random() < 0.1:
            out.insert(rng.randrange(len(out) + 1), rng.choice([None, 3, "x"]))
        return out

    kind = rng.randrange(11)
    n = rng.randrange(0, 4)
    cbs = some(n)
    if kind == 0:
        return lambda: None
    if kind == 1:
        return lambda: cbs[0] if cbs else cb("single")
    if kind == 2:
        return lambda: list(cbs)
    if kind == 3:
        return lambda: tuple(cbs)
    if kind == 4:
        return lambda: (c for c in cbs)
    if kind == 5:
        return lambda: 5  # neither callable nor iterable
    if kind == 6:
        return lambda: []
    if kind == 7:

        class Both(list):
            def __call__(self):
                log.append("both-called")

        return lambda: Both(cbs)
    if kind == 8:

        def bad_iter():
            log.append("cbs-iter")
            yield from cbs[:1]
            raise Boom("callbacks")

        return bad_iter
    if kind == 9:
        return lambda: dict.fromkeys(cbs)
    return lambda: "ab"  # iterable of non-callables


def exercise(cls, mk_iterable, mk_callbacks, log, plan):
    out = []

    def step(label, fn):
        try:
            out.append((label, "ok", repr(fn())))
        except BaseException as e:  # noqa: B036
            out.append((label, "exc", type(e).__name__))

    holder = {}

    def construct():
        shared = plan["shared_list"]
        callbacks = mk_callbacks()
        if shared and isinstance(callbacks, list):
            holder["given"] = callbacks
        holder["it"] = cls(mk_iterable(), callbacks)
        return None

    step("init", construct)
    it = holder.get("it")
    if it is None:
        return out, list(log)
    out.append(("cb-type", type(it._callbacks).__name__, len(it._callbacks)))
    if "given" in holder:
        # the caller's list must be neither aliased nor mutated
        out.append(("aliased", holder["given"] is it._callbacks, len(holder["given"])))
    step("iter-self", lambda: iter(it) is it)
    for i in range(plan["consume"]):
        step(f"next{i}", lambda: next(it))
    for i in range(plan["closes"]):
        step(f"close{i}", it.close)
        out.append(("log-len", len(log)))
    if plan["drain"]:
        step("drain", lambda: list(it))
    return out, list(log)


def response_level(rng):
    """The same thing seen through Response.get_app_iter / close."""
    from werkzeug.test import create_environ
    from werkzeug.wrappers import Response

    results = []
    for cls in (ClosingIterator, OrigClosingIterator):
        import werkzeug.wrappers.response as wr

        saved = wr.ClosingIterator
        wr.ClosingIterator = cls
        try:
            r = random.Random(rng)
            log = []

            def body():
                try:
                    yield b"a"
                    yield b"b"
                finally:
                    log.append("gen-closed")

            status = r.choice([200, 204, 304, 100, 404])
            method = r.choice(["GET", "HEAD", "POST"])
            resp = Response(body() if r.random() < 0.7 else [b"a", b"b"], status=status)
            for i in range(r.randrange(3)):
                resp.call_on_close(lambda i=i: log.append(f"on_close{i}"))
            app_iter, st, headers = resp.get_wsgi_response(create_environ(method=method))
            data = list(app_iter)
            close = getattr(app_iter, "close", None)
            if close is not None:
                close()
            results.append((st, list(headers), data, type(app_iter).__name__.replace("Orig", ""), log))
        finally:
            wr.ClosingIterator = saved
    return results[0] == results[1], results


def main():
    seed = int(sys.argv[1]) if len(sys.argv) > 1 else 20260905
    rng = random.Random(seed)
    n = 0
    for case in range(6000):
        sub = rng.randrange(1 << 30)
        plan = {
            "consume": rng.randrange(0, 5),
            "closes": rng.randrange(0, 3),
            "drain": rng.random() < 0.5,
            "shared_list": rng.random() < 0.5,
        }
        res = []
        for cls in (ClosingIterator, OrigClosingIterator):
            r = random.Random(sub)
            log = []
            mk_iterable = make_iterable(r, log)
            mk_callbacks = make_callbacks(r, log)
            res.append(exercise(cls, mk_iterable, mk_callbacks, log, plan))
        n += 1
        if res[0] != res[1]:
            print("FAIL", seed, case, plan)
            print(" new:", res[0])
            print(" old:", res[1])
            return 1
    for case in range(1500):
        same, results = response_level(rng.randrange(1 << 30))
        n += 1
        if not same:
            print("FAIL response-level", seed, case, results)
            return 1
    print(f"PASS ({n} cases, seed {seed})")
    return 0


if __name__ == "__main__":
    sys.exit(main())
