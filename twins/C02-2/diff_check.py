"""Differential check for refactoring 2 (MultipartDecoder._parse_data /
next_event boundary-state helper).

A copy of the ORIGINAL MultipartDecoder is pasted below.  Both decoders are fed
identical bodies in identical random chunkings; after every next_event() call
the returned event (or raised exception type/message), decoder.state, the
remaining buffer and the search position are compared.  _parse_data is also
compared directly on random buffers.
"""
from __future__ import annotations

import random
import re
import sys
import typing as t

from werkzeug.datastructures import Headers
from werkzeug.exceptions import RequestEntityTooLarge
from werkzeug.http import parse_options_header
from werkzeug.sansio.multipart import BLANK_LINE_RE
from werkzeug.sansio.multipart import Data
from werkzeug.sansio.multipart import Epilogue
from werkzeug.sansio.multipart import Event
from werkzeug.sansio.multipart import Field
from werkzeug.sansio.multipart import File
from werkzeug.sansio.multipart import HEADER_CONTINUATION_RE
from werkzeug.sansio.multipart import LINE_BREAK
from werkzeug.sansio.multipart import LINE_BREAK_RE
from werkzeug.sansio.multipart import MultipartDecoder
from werkzeug.sansio.multipart import MultipartEncoder
from werkzeug.sansio.multipart import NEED_DATA
from werkzeug.sansio.multipart import NeedData
from werkzeug.sansio.multipart import Preamble
from werkzeug.sansio.multipart import SEARCH_EXTRA_LENGTH
from werkzeug.sansio.multipart import State


class OrigMultipartDecoder:
    def __init__(
        self,
        boundary: bytes,
        max_form_memory_size: int | None = None,
        *,
        max_parts: int | None = None,
    ) -> None:
        self.buffer = bytearray()
        self.complete = False
        self.max_form_memory_size = max_form_memory_size
        self.max_parts = max_parts
        self.state = State.PREAMBLE
        self.boundary = boundary
        self.preamble_re = re.compile(
            rb"%s?--%s(--[^\S\n\r]*%s?|[^\S\n\r]*%s)"
            % (LINE_BREAK, re.escape(boundary), LINE_BREAK, LINE_BREAK),
            re.MULTILINE,
        )
        self.boundary_re = re.compile(
            rb"%s--%s(--[^\S\n\r]*%s?|[^\S\n\r]*%s)"
            % (LINE_BREAK, re.escape(boundary), LINE_BREAK, LINE_BREAK),
            re.MULTILINE,
        )
        self._search_position = 0
        self._parts_decoded = 0

    def last_newline(self, data: bytes) -> int:
        try:
            last_nl = data.rindex(b"\n")
        except ValueError:
            last_nl = len(data)
        try:
            last_cr = data.rindex(b"\r")
        except ValueError:
            last_cr = len(data)

        return min(last_nl, last_cr)

    def receive_data(self, data: bytes | None) -> None:
        if data is None:
            self.complete = True
        elif (
            self.max_form_memory_size is not None
            and len(self.buffer) + len(data) > self.max_form_memory_size
        ):
            raise RequestEntityTooLarge()
        else:
            self.buffer.extend(data)

    def next_event(self) -> Event:
        event: Event = NEED_DATA

        if self.state == State.PREAMBLE:
            match = self.preamble_re.search(self.buffer, self._search_position)
            if match is not None:
                if match.group(1).startswith(b"--"):
                    self.state = State.EPILOGUE
                else:
                    self.state = State.PART
                data = bytes(self.buffer[: match.start()])
                del self.buffer[: match.end()]
                event = Preamble(data=data)
                self._search_position = 0
            else:
                self._search_position = max(
                    0, len(self.buffer) - len(self.boundary) - SEARCH_EXTRA_LENGTH
                )

        elif self.state == State.PART:
            match = BLANK_LINE_RE.search(self.buffer, self._search_position)
            if match is not None:
                headers = self._parse_headers(self.buffer[: match.start()])
                headers_end = (match.start() + match.end()) // 2
                del self.buffer[:headers_end]

                if "content-disposition" not in headers:
                    raise ValueError("Missing Content-Disposition header")

                disposition, extra = parse_options_header(
                    headers["content-disposition"]
                )
                name = t.cast(str, extra.get("name"))
                filename = extra.get("filename")
                if filename is not None:
                    event = File(
                        filename=filename,
                        headers=headers,
                        name=name,
                    )
                else:
                    event = Field(
                        headers=headers,
                        name=name,
                    )
                self.state = State.DATA_START
                self._search_position = 0
                self._parts_decoded += 1

                if self.max_parts is not None and self._parts_decoded > self.max_parts:
                    raise RequestEntityTooLarge()
            else:
                self._search_position = max(0, len(self.buffer) - SEARCH_EXTRA_LENGTH)

        elif self.state == State.DATA_START:
            data, del_index, more_data = self._parse_data(self.buffer, start=True)
            del self.buffer[:del_index]
            event = Data(data=data, more_data=more_data)
            if more_data:
                self.state = State.DATA

        elif self.state == State.DATA:
            data, del_index, more_data = self._parse_data(self.buffer, start=False)
            del self.buffer[:del_index]
            if data or not more_data:
                event = Data(data=data, more_data=more_data)

        elif self.state == State.EPILOGUE and self.complete:
            event = Epilogue(data=bytes(self.buffer))
            del self.buffer[:]
            self.state = State.COMPLETE

        if self.complete and isinstance(event, NeedData):
            raise ValueError(f"Invalid form-data cannot parse beyond {self.state}")

        return event

    def _parse_headers(self, data: bytes) -> Headers:
        headers: list[tuple[str, str]] = []
        data = HEADER_CONTINUATION_RE.sub(b" ", data)
        for line in data.splitlines():
            line = line.strip()

            if line != b"":
                name, _, value = line.decode().partition(":")
                headers.append((name.strip(), value.strip()))
        return Headers(headers)

    def _parse_data(self, data: bytes, *, start: bool) -> tuple[bytes, int, bool]:
        # Body parts must start with CRLF (or CR or LF)
        if start:
            match = LINE_BREAK_RE.match(data)
            data_start = t.cast(t.Match[bytes], match).end()
        else:
            data_start = 0

        boundary = b"--" + self.boundary

        if self.buffer.find(boundary) == -1:
            data_end = del_index = self.last_newline(data[data_start:]) + data_start
            if (len(data) - data_end) > len(b"\n" + boundary):
                data_end = del_index = len(data)
            more_data = True
        else:
            match = self.boundary_re.search(data)
            if match is not None:
                if match.group(1).startswith(b"--"):
                    self.state = State.EPILOGUE
                else:
                    self.state = State.PART
                data_end = match.start()
                del_index = match.end()
            else:
                data_end = del_index = self.last_newline(data[data_start:]) + data_start
            more_data = match is None

        return bytes(data[data_start:data_end]), del_index, more_data


rng = random.Random(2026100202)

TEXT_POOL = "abcXYZ019 _-.;=:/'*\täöüßé中文日本\U0001f600 "


def rand_text(maxlen: int = 10) -> str:
    return "".join(rng.choice(TEXT_POOL) for _ in range(rng.randrange(0, maxlen)))


def rand_boundary() -> bytes:
    n = rng.choice([1, 2, 3, 8, 20, 40, 70])
    return "".join(
        rng.choice("abcdefghijklmnopqrstuvwxyz0123456789-_'.+") for _ in range(n)
    ).encode()


def rand_payload(boundary: bytes) -> bytes:
    pieces = [
        b"",
        b"\r",
        b"\n",
        b"\r\n",
        b"\r\r\n\n",
        b"--",
        b"-",
        b"\r\n--",
        b"\r\n-",
        b"\n--" + boundary[:-1],
        b"\r\n--" + boundary[:-1],
        b"\r\n--" + boundary[:-1] + b"X",
        b"--" + boundary[: len(boundary) // 2],
        b"--" + boundary,  # boundary without a leading line break
        b"--" + boundary + b"x",
        boundary,
        b"\x00\xff\xfe",
        b"abc def",
        b"x" * rng.randrange(0, 120),
        bytes(rng.randrange(256) for _ in range(rng.randrange(0, 12))),
    ]
    return b"".join(rng.choice(pieces) for _ in range(rng.randrange(0, 7)))


def encoded_body(boundary: bytes) -> bytes:
    enc = MultipartEncoder(boundary)
    out = [enc.send_event(Preamble(data=rng.choice([b"", b"", b"preamble text"])))]
    for _ in range(rng.randrange(0, 6)):
        h = Headers()
        if rng.random() < 0.5:
            h.add("Content-Type", rng.choice(["text/plain", "image/png"]))
        if rng.random() < 0.5:
            out.append(enc.send_event(Field(name=rand_text(), headers=h)))
        else:
            out.append(
                enc.send_event(File(name=rand_text(), filename=rand_text(), headers=h))
            )
        for _ in range(rng.randrange(0, 3)):
            out.append(
                enc.send_event(Data(data=rand_payload(boundary), more_data=True))
            )
        out.append(enc.send_event(Data(data=rand_payload(boundary), more_data=False)))
    out.append(enc.send_event(Epilogue(data=rng.choice([b"", b"", b"trailer\r\n"]))))
    return b"".join(out)


def handmade_body(boundary: bytes) -> bytes:
    """Bodies using lenient framing (bare CR / LF, trailing blanks, missing
    pieces) and damaged bodies."""
    nl = rng.choice([b"\r\n", b"\n", b"\r"])
    ws = rng.choice([b"", b"", b" ", b"\t ", b"\x0b"])
    out = [rng.choice([b"", b"junk", nl])]
    for _ in range(rng.randrange(0, 5)):
        out.append(b"--" + boundary + ws + nl)
        if rng.random() < 0.9:
            out.append(b'Content-Disposition: form-data; name="' + rand_text().encode())
            out.append(b'"')
            if rng.random() < 0.4:
                out.append(b'; filename="' + rand_text().encode() + b'"')
            out.append(nl)
        if rng.random() < 0.3:
            out.append(b"Content-Type: text/plain;" + nl + b" charset=utf-8" + nl)
        if rng.random() < 0.95:
            out.append(nl)
        out.append(rand_payload(boundary))
        out.append(nl)
    r = rng.random()
    if r < 0.7:
        out.append(b"--" + boundary + b"--" + ws + rng.choice([nl, b""]))
    elif r < 0.85:
        out.append(b"--" + boundary + b"-")
    out.append(rng.choice([b"", b"", b"epilogue"]))
    body = b"".join(out)
    if rng.random() < 0.15 and body:
        body = body[: rng.randrange(len(body))]  # truncation
    return body


def chunked(body: bytes) -> list[bytes]:
    mode = rng.random()
    if mode < 0.25:
        return [body]
    if mode < 0.5:
        return [body[i : i + 1] for i in range(len(body))]
    chunks = []
    i = 0
    while i < len(body):
        n = rng.choice([1, 2, 3, 5, 7, 16, 50, 200])
        chunks.append(body[i : i + n])
        i += n
    return chunks


def drive(dec: t.Any, chunks: list[bytes]) -> list[t.Any]:
    trace: list[t.Any] = []

    def snap(tag: t.Any) -> None:
        trace.append(
            (tag, dec.state, bytes(dec.buffer), dec._search_position, dec._parts_decoded)
        )

    for chunk in chunks + [None]:  # type: ignore[list-item]
        try:
            dec.receive_data(chunk)
        except Exception as e:  # noqa: B902
            snap(("recv-exc", type(e).__name__, str(e)))
            return trace
        steps = 0
        while True:
            steps += 1
            try:
                ev = dec.next_event()
            except Exception as e:  # noqa: B902
                snap(("exc", type(e).__name__, str(e)))
                return trace
            snap(("ev", type(ev).__name__, repr(ev)))
            if isinstance(ev, (NeedData, Epilogue)) or steps > 10000:
                break
    return trace


def main() -> int:
    n = 0
    for i in range(5000):
        boundary = rand_boundary()
        body = encoded_body(boundary) if i % 2 else handmade_body(boundary)
        chunks = chunked(body)
        kwargs: dict[str, t.Any] = {}
        if rng.random() < 0.1:
            kwargs["max_parts"] = rng.randrange(0, 4)
        if rng.random() < 0.1:
            kwargs["max_form_memory_size"] = rng.randrange(10, 400)
        a = drive(OrigMultipartDecoder(boundary, **kwargs), chunks)
        b = drive(MultipartDecoder(boundary, **kwargs), chunks)
        if a != b:
            print("FAIL: trace mismatch", boundary, body)
            for x, y in zip(a, b):
                if x != y:
                    print(" orig:", x)
                    print(" new :", y)
                    break
            return 1
        n += 1

    # direct comparison of _parse_data on arbitrary buffers
    for _ in range(5000):
        boundary = rand_boundary()
        buf = bytearray(rng.choice([b"", b"\r\n", b"\n", b"\r", b"x"]))
        buf += rand_payload(boundary)
        if rng.random() < 0.6:
            buf += rng.choice([b"\r\n", b"\n", b"\r", b""]) + b"--" + boundary
            buf += rng.choice([b"", b"--", b"-", b" ", b"--  "])
            buf += rng.choice([b"\r\n", b"\n", b"\r", b"", b"tail"])
            buf += rand_payload(boundary)
        start = rng.random() < 0.5
        res = []
        for cls in (OrigMultipartDecoder, MultipartDecoder):
            dec = cls(boundary)
            dec.buffer = bytearray(buf)
            dec.state = State.DATA_START if start else State.DATA
            try:
                r: t.Any = dec._parse_data(dec.buffer, start=start)
                r = (r, [type(x).__name__ for x in r])
            except Exception as e:  # noqa: B902
                r = ("exc", type(e).__name__, str(e))
            res.append((r, dec.state, bytes(dec.buffer)))
        if res[0] != res[1]:
            print("FAIL: _parse_data mismatch", boundary, bytes(buf), start, res)
            return 1
        n += 1

    print(f"PASS ({n} cases compared)")
    return 0


if __name__ == "__main__":
    sys.exit(main())
