"""Differential check for refactoring 3 (C16): datastructures.range
(_CallbackProperty.__get__/__set__, ContentRange.set, ContentRange.to_header).

A verbatim copy of the ORIGINAL classes is pasted below (Orig*) and driven in
lock-step with the refactored classes from the worktree through random
construction / mutation sequences.  After each step the result or exception
type, the four fields, the serialisation, truthiness, the number and order of
on_update notifications and the header text written back by (a copy of) the
Response.content_range closure are compared.  Prints PASS only if identical.
"""
from __future__ import annotations

import random
import sys
import typing as t

from werkzeug import http
from werkzeug.datastructures import ContentRange as NewContentRange
from werkzeug.datastructures import Headers
from werkzeug.datastructures.range import _CallbackProperty as NewCallbackProperty

T = t.TypeVar("T")


# --------------------------------------------------------------------------
# ORIGINAL implementation (verbatim copy from the unmodified tree)
# --------------------------------------------------------------------------
class OrigCallbackProperty(t.Generic[T]):
    def __set_name__(self, owner, name: str) -> None:
        self.attr = f"_{name}"

    def __get__(self, instance, owner):
        if instance is None:
            return self

        return instance.__dict__[self.attr]  # type: ignore[no-any-return]

    def __set__(self, instance, value) -> None:
        instance.__dict__[self.attr] = value

        if instance.on_update is not None:
            instance.on_update(instance)


class OrigContentRange:
    def __init__(self, units, start, stop, length=None, on_update=None) -> None:
        self.on_update = on_update
        self.set(start, stop, length, units)

    units = OrigCallbackProperty()
    start = OrigCallbackProperty()
    stop = OrigCallbackProperty()
    length = OrigCallbackProperty()

    def set(self, start, stop, length=None, units="bytes") -> None:
        """Simple method to update the ranges."""
        assert http.is_byte_range_valid(start, stop, length), "Bad range provided"
        self._units: str | None = units
        self._start: int | None = start
        self._stop: int | None = stop
        self._length: int | None = length
        if self.on_update is not None:
            self.on_update(self)

    def unset(self) -> None:
        self.set(None, None, units=None)

    def to_header(self) -> str:
        if self._units is None:
            return ""
        if self._length is None:
            length: str | int = "*"
        else:
            length = self._length
        if self._start is None:
            return f"{self._units} */{length}"
        return f"{self._units} {self._start}-{self._stop - 1}/{length}"  # type: ignore[operator]

    def __bool__(self) -> bool:
        return self._units is not None

    def __str__(self) -> str:
        return self.to_header()

    def __repr__(self) -> str:
        return f"<{type(self).__name__} {str(self)!r}>"


# --------------------------------------------------------------------------
def rand_int(rng: random.Random):
    k = rng.randrange(10)
    if k == 0:
        return None
    if k == 1:
        return 0
    if k == 2:
        return -rng.randrange(1, 50)
    if k == 3:
        return rng.choice([1.5, "7", True, False, "x"])
    return rng.randrange(0, 2000)


def rand_units(rng: random.Random):
    return rng.choice(["bytes", "bytes", "items", "", None, 0, "b y"])


def rand_valid(rng: random.Random):
    """Mostly valid (start, stop, length) triples."""
    k = rng.randrange(5)
    if k == 0:
        return None, None, rng.choice([None, 0, 10, 500])
    start = rng.randrange(0, 1000)
    stop = start + rng.randrange(1, 1000)
    if k == 1:
        return start, stop, None
    if k == 2:
        return start, stop, stop + rng.randrange(0, 100)
    if k == 3:
        return start, stop, rng.randrange(0, 2000)
    return rand_int(rng), rand_int(rng), rand_int(rng)


class Recorder:
    """Holds a Headers object and a copy of the ORIGINAL
    Response.content_range write-back closure."""

    def __init__(self, mode: str) -> None:
        self.headers = Headers()
        self.log: list[t.Any] = []
        self.mode = mode

    def __call__(self, rng_obj) -> None:
        self.log.append(
            (rng_obj._units, rng_obj._start, rng_obj._stop, rng_obj._length)
            if hasattr(rng_obj, "_length")
            else ("partial", sorted(vars(rng_obj)))
        )
        if self.mode == "raise" and len(self.log) % 3 == 0:
            raise RuntimeError("callback failed")
        if not rng_obj:
            del self.headers["content-range"]
        else:
            self.headers["Content-Range"] = rng_obj.to_header()


def attempt(fn):
    try:
        return ("ok", repr(fn()))
    except BaseException as e:  # noqa: BLE001
        return ("exc", type(e).__name__, str(e))


def observe(cr, rec):
    return (
        tuple(sorted((k, repr(v)) for k, v in vars(cr).items() if k != "on_update")),
        attempt(cr.to_header),
        attempt(lambda: str(cr)),
        attempt(lambda: repr(cr).split(" ", 1)[1]),
        attempt(lambda: bool(cr)),
        attempt(lambda: (cr.units, cr.start, cr.stop, cr.length)),
        None if rec is None else (list(rec.headers), list(rec.log)),
    )


def main() -> int:
    mismatches = 0
    steps = 0
    rng = random.Random(160003)

    # class level access returns the descriptor
    for name in ("units", "start", "stop", "length"):
        a = getattr(OrigContentRange, name)
        b = getattr(NewContentRange, name)
        if not (isinstance(a, OrigCallbackProperty) and isinstance(b, NewCallbackProperty)):
            mismatches += 1
        if a.attr != b.attr:
            mismatches += 1

    for case in range(6000):
        mode = rng.choice(["none", "rec", "rec", "rec", "raise"])
        ro = rn = None
        if mode != "none":
            ro, rn = Recorder(mode), Recorder(mode)
        units = rand_units(rng)
        start, stop, length = rand_valid(rng)
        kw = rng.random() < 0.5
        rng_choice_short = rng.random() < 0.5

        def build(cls, rec):
            if kw:
                return cls(units, start, stop, length=length, on_update=rec)
            if rec is None and length is None and rng_choice_short:
                return cls(units, start, stop)
            return cls(units, start, stop, length, rec)

        holder: dict[str, t.Any] = {}

        def mk(cls, rec, key):
            holder[key] = cls.__new__(cls)  # so a half-built object is inspectable
            obj = build(cls, rec)
            holder[key] = obj
            return "built"

        r_o = attempt(lambda: mk(OrigContentRange, ro, "o"))
        r_n = attempt(lambda: mk(NewContentRange, rn, "n"))
        steps += 1
        if r_o != r_n:
            mismatches += 1
            print("CTOR MISMATCH", case, units, start, stop, length, r_o, r_n)
            continue
        if r_o[0] == "exc":
            # construction failed identically; compare notification logs
            if ro is not None and (ro.log != rn.log or list(ro.headers) != list(rn.headers)):
                mismatches += 1
                print("CTOR LOG MISMATCH", case)
            continue
        o, n = holder["o"], holder["n"]
        if observe(o, ro) != observe(n, rn):
            mismatches += 1
            print("INIT MISMATCH", case, observe(o, ro), observe(n, rn))

        for _ in range(rng.randrange(1, 12)):
            op = rng.choice(
                ["attr", "attr", "attr", "set", "set", "unset", "swapcb", "setkw", "raw"]
            )
            if op == "attr":
                name = rng.choice(["units", "start", "stop", "length"])
                val = rand_units(rng) if name == "units" else rand_int(rng)
                a = attempt(lambda: setattr(o, name, val))
                b = attempt(lambda: setattr(n, name, val))
                desc = (op, name, val)
            elif op == "set":
                s, e, ln = rand_valid(rng)
                args = rng.choice([(s, e), (s, e, ln), (s, e, ln, rand_units(rng))])
                a = attempt(lambda: o.set(*args))
                b = attempt(lambda: n.set(*args))
                desc = (op, args)
            elif op == "setkw":
                s, e, ln = rand_valid(rng)
                u = rand_units(rng)
                a = attempt(lambda: o.set(s, e, units=u, length=ln))
                b = attempt(lambda: n.set(s, e, units=u, length=ln))
                desc = (op, s, e, ln, u)
            elif op == "unset":
                a = attempt(o.unset)
                b = attempt(n.unset)
                desc = (op,)
            elif op == "raw":
                # direct write to the private slot: no notification expected
                name = rng.choice(["_units", "_start", "_stop", "_length"])
                val = rand_int(rng)
                a = attempt(lambda: setattr(o, name, val))
                b = attempt(lambda: setattr(n, name, val))
                desc = (op, name, val)
            else:
                # replace / remove the callback on the live view
                choice = rng.choice(["none", "same", "new"])
                if choice == "none":
                    o.on_update = n.on_update = None
                elif choice == "same" and ro is not None:
                    o.on_update, n.on_update = ro, rn
                else:
                    m = rng.choice(["rec", "raise"])
                    ro, rn = Recorder(m), Recorder(m)
                    o.on_update, n.on_update = ro, rn
                a = b = ("ok", "None")
                desc = (op, choice)
            steps += 1
            oo, on_ = observe(o, ro), observe(n, rn)
            if a != b or oo != on_:
                mismatches += 1
                if mismatches < 10:
                    print("MISMATCH", case, desc, a, b)
                    print("   ", oo)
                    print("   ", on_)

    # parse_content_range_header builds the refactored class: compare against the
    # original class fed with the same parsed fields.
    for _ in range(3000):
        s, e, ln = rand_valid(rng)
        hdr = rng.choice(
            [
                f"bytes {s}-{e}/{ln}",
                f"bytes */{ln}",
                f"bytes {s}-{e}/*",
                f"items {s}-{e}/{ln}",
                "bytes */*",
                "bytes",
                "",
            ]
        )
        parsed = http.parse_content_range_header(hdr)
        steps += 1
        if parsed is None:
            continue
        twin = OrigContentRange(parsed.units, parsed.start, parsed.stop, parsed.length)
        if observe(twin, None) != observe(parsed, None):
            mismatches += 1
            print("PARSE MISMATCH", hdr)

    print(f"steps={steps} mismatches={mismatches}")
    if mismatches == 0 and steps > 3000:
        print("PASS")
        return 0
    print("FAIL")
    return 1


if __name__ == "__main__":
    sys.exit(main())
