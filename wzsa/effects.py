"""E5: exception-effect analysis.

For every function reachable from a set of entry points over the resolved call
graph, compute which (origin site, exception class) pairs can escape it:

* explicit ``raise X``;
* *modelled* operations of builtins / stdlib (the MODEL table below; each entry
  is a fact about CPython 3.12 with its justification);
* calls into the package (fix-point over the call graph; ``self.m()`` resolved
  in the class's MRO, properties / cached properties / descriptors included);

each filtered through the enclosing ``try`` handlers with the real exception
class lattice (``except UnicodeEncodeError`` does not cover ``UnicodeError``).

Discharge of a modelled site, in this order: covering handler (here or in a
caller on the path), a recognised *guard idiom* that dominates it, or a line in
the rule module's reviewed table (with a machine-checked premise where the
reason depends on other code).
"""

from __future__ import annotations

import ast
import builtins
import re
import typing as t

from . import astq
from .cfg import cfg_of
from .loader import BuiltinClass, ClassInfo, FuncInfo, Module, Repo, dotted, norm, walk_no_nested

# ---------------------------------------------------------------------
# exception lattice

_EXTRA_BUILTIN = {
    "binascii.Error": "ValueError",
    "json.JSONDecodeError": "ValueError",
    "json.decoder.JSONDecodeError": "ValueError",
    "UnicodeDecodeError": "UnicodeError",
    "UnicodeEncodeError": "UnicodeError",
}


class Lattice:
    def __init__(self, repo: Repo):
        self.repo = repo
        self._http: set[str] = set()
        for c in repo.all_classes():
            if any(k.fq == "werkzeug.exceptions.HTTPException" for k in repo.mro(c)):
                self._http.add(c.fq)

    def canon(self, module: Module, expr: ast.AST | None, local_imports=None) -> str:
        if expr is None:
            return "BaseException"
        if isinstance(expr, ast.Call):
            expr = expr.func
        d = dotted(expr)
        if d is None:
            return "?"
        fq = self.repo.resolve(module, d, local_imports) or d
        if fq.startswith("builtins."):
            return fq[len("builtins."):]
        return fq

    def ancestors(self, name: str) -> list[str]:
        """name and all its base classes (canonical names)."""
        if name.startswith("werkzeug."):
            c = self.repo.try_cls(name)
            if c is None:
                return [name]
            out = []
            for k in self.repo.mro(c):
                fq = k.fq
                if fq.startswith("builtins."):
                    fq = fq[len("builtins."):]
                out.append(fq)
                if isinstance(k, BuiltinClass):
                    out.extend(a for a in self.ancestors(fq) if a not in out)
            return out
        if name in _EXTRA_BUILTIN:
            return [name] + self.ancestors(_EXTRA_BUILTIN[name])
        cls = getattr(builtins, name, None)
        if isinstance(cls, type) and issubclass(cls, BaseException):
            return [k.__name__ for k in cls.__mro__ if k is not object]
        return [name, "Exception", "BaseException"]

    def covers(self, handler: str, exc: str) -> bool:
        return handler in self.ancestors(exc)

    def allowed(self, exc: str) -> bool:
        return exc in self._http or any(a in self._http for a in self.ancestors(exc))


# ---------------------------------------------------------------------
# the library model: operation -> exceptions, with justification

MODEL_DOC = {
    "int": "int(str) raises ValueError for a non-numeric string (and for more than 4300 digits)",
    "float": "float(str) raises ValueError for a non-numeric string",
    "decode": "bytes.decode(enc, errors='strict') raises UnicodeDecodeError; total with errors in {replace, ignore, <registered handler>} or a single-byte total codec (latin-1)",
    "encode": "str.encode('ascii'|'latin1', strict) raises UnicodeEncodeError; codec 'idna' raises UnicodeError (Lib/encodings/idna.py); utf-8 is total without lone surrogates",
    "b64decode": "base64.b64decode raises binascii.Error; for a non-ASCII str argument a bare ValueError (Lib/base64.py _bytes_from_decode_data)",
    "urlsplit": "urllib.parse.urlsplit raises ValueError ('Invalid IPv6 URL', NFKC netloc check)",
    "port": "SplitResult.port raises ValueError for a non-numeric or out-of-range port",
    "parsedate_to_datetime": "email.utils.parsedate_to_datetime raises ValueError for unparsable input, TypeError (<3.10 style None) and OverflowError for a year/hour that does not fit a C int",
    "timedelta": "datetime.timedelta(...) raises OverflowError beyond 999999999 days",
    "next": "next(it) without default raises StopIteration",
    "index": "str/list.index raises ValueError when absent",
    "unpack-split": "unpacking s.split(sep, n) / rsplit into k names raises ValueError when fewer separators are present",
    "const-index": "seq[k] with a constant index raises IndexError on a shorter sequence",
    "match-attr": "re.Pattern.match/search/fullmatch return None: .group()/.end()/.groups() on it raises AttributeError",
    "assert": "assert raises AssertionError",
    "enum": "Enum(value) raises ValueError for an unknown value",
    "lookup": "codecs.lookup raises LookupError for an unknown codec name",
    "to_bytes": "int.to_bytes(1, ...) raises OverflowError for values >= 256",
    "loads": "json.loads raises ValueError (JSONDecodeError)",
    "fromtimestamp": "datetime.fromtimestamp raises OverflowError / OSError / ValueError out of range",
    "size": "<stream>.read(n) / bytearray(n) / bytes(n) convert n to a C ssize_t and allocate n bytes: OverflowError (or MemoryError) for an arbitrarily large n; modelled only where n provably flows, without an upper bound, from a text -> int conversion",
    "rawio-dispatch": "io.RawIOBase.read(n) calls self.readall() for n < 0 and self.readinto(bytearray(n)) otherwise (CPython Modules/_io/iobase.c)",
}


class Site(t.NamedTuple):
    func: FuncInfo
    node: ast.AST
    kind: str  # 'raise' | model key
    exc: str
    text: str


def _enc_arg(c: ast.Call) -> str | None:
    e = astq.arg_or_kw(c, 0, "encoding")
    if e is None:
        return "utf-8"
    return astq.const_str(e).lower().replace("_", "-") if astq.const_str(e) is not None else None


def _err_arg(c: ast.Call) -> str | None:
    e = astq.arg_or_kw(c, 1, "errors")
    if e is None:
        return "strict"
    return astq.const_str(e)


class Effects:
    def __init__(self, repo: Repo, registered_error_handlers: set[str]):
        self.repo = repo
        self.lat = Lattice(repo)
        self.handlers_ok = {"replace", "ignore", "backslashreplace", "xmlcharrefreplace", "surrogateescape", "surrogatepass"} | registered_error_handlers
        self._sites: dict[str, list[Site]] = {}
        self._calls: dict[str, list[tuple[FuncInfo, ast.AST]]] = {}
        self._esc: dict[str, set[tuple[Site, str]]] = {}
        self.unresolved: dict[str, list[str]] = {}
        # `if <guard>: raise` inside a handler is treated as dead when the rule has established that the guard is false
        # on every path from its entry points (set by the rule module together with a recorded obligation)
        self.dead_reraise_guards: set[str] = set()
        # optional predicate (fi, call, size expression) -> bool: the size argument provably flows, unbounded, from a
        # parsed client integer (set by the rule module once the call graph is known)
        self.size_hook: t.Callable[[FuncInfo, ast.Call, ast.AST], bool] | None = None
        self.enum_classes = {c.fq for c in repo.all_classes() if any(b.fq.endswith("Enum") for b in repo.mro(c)[1:])}

    # -- per function facts ----------------------------------------------
    def sites(self, fi: FuncInfo) -> list[Site]:
        if fi.fq in self._sites:
            return self._sites[fi.fq]
        out: list[Site] = []
        li = fi.module.local_imports(fi.node)
        fn = fi.node

        def add(node, kind, exc):
            out.append(Site(fi, node, kind, exc, norm(node)[:80]))

        for n in walk_no_nested(fn):
            if isinstance(n, ast.Raise):
                if n.exc is None:
                    continue  # bare re-raise handled by handler logic
                add(n, "raise", self.lat.canon(fi.module, n.exc, li))
            elif isinstance(n, ast.Assert):
                add(n, "assert", "AssertionError")
            elif isinstance(n, ast.Call):
                d = dotted(n.func)
                fq = self.repo.resolve(fi.module, d, li) if d else None
                last = (d or "").rsplit(".", 1)[-1]
                if fq in ("builtins.int",) and n.args and not isinstance(n.args[0], ast.Constant):
                    a0 = n.args[0]
                    # int(<float / int expression>) is total; int(str) is not. Numeric when the argument is arithmetic or a len()/total_seconds() call
                    numeric = isinstance(a0, (ast.BinOp,)) or (isinstance(a0, ast.Call) and (dotted(a0.func) or "").rsplit(".", 1)[-1] in ("len", "total_seconds", "time", "timestamp", "mktime", "round", "floor"))
                    if not numeric:
                        add(n, "int", "ValueError")
                elif fq == "builtins.float" and n.args and not isinstance(n.args[0], ast.Constant):
                    add(n, "float", "ValueError")
                elif fq in ("base64.b64decode", "base64.urlsafe_b64decode", "base64.standard_b64decode"):
                    add(n, "b64decode", "binascii.Error")
                    add(n, "b64decode", "ValueError")
                elif fq in ("urllib.parse.urlsplit", "urllib.parse.urlparse"):
                    add(n, "urlsplit", "ValueError")
                elif fq == "email.utils.parsedate_to_datetime":
                    for e in ("ValueError", "TypeError", "OverflowError"):
                        add(n, "parsedate_to_datetime", e)
                elif fq == "datetime.timedelta" and (n.args or n.keywords):
                    if not all(isinstance(a, ast.Constant) for a in list(n.args) + [k.value for k in n.keywords]):
                        add(n, "timedelta", "OverflowError")
                elif fq == "builtins.next" and len(n.args) == 1:
                    add(n, "next", "StopIteration")
                elif fq == "codecs.lookup":
                    add(n, "lookup", "LookupError")
                elif fq in ("json.loads",):
                    add(n, "loads", "ValueError")
                elif fq in self.enum_classes and n.args:
                    add(n, "enum", "ValueError")
                elif fq in ("builtins.bytearray", "builtins.bytes") and len(n.args) == 1 and not n.keywords and not isinstance(n.args[0], ast.Constant):
                    if self.size_hook is not None and self.size_hook(fi, n, n.args[0]):
                        add(n, "size", "OverflowError")
                elif isinstance(n.func, ast.Attribute):
                    m = n.func.attr
                    if m == "decode" and not (fq and fq.startswith("werkzeug.")):
                        enc, err = _enc_arg(n), _err_arg(n)
                        total = err in self.handlers_ok or enc in ("latin1", "latin-1", "iso-8859-1", "iso8859-1")
                        if not total:
                            add(n, "decode", "UnicodeError" if enc == "idna" else "UnicodeDecodeError")
                    elif m == "encode" and not (fq and fq.startswith("werkzeug.")):
                        enc, err = _enc_arg(n), _err_arg(n)
                        if enc == "idna":
                            add(n, "encode", "UnicodeError")
                        elif enc not in ("utf-8", "utf8") and err not in self.handlers_ok:
                            add(n, "encode", "UnicodeEncodeError")
                    elif m == "index" and len(n.args) >= 1 and not (fq and fq.startswith("werkzeug.")):
                        add(n, "index", "ValueError")
                    elif m == "to_bytes":
                        add(n, "to_bytes", "OverflowError")
                    elif m in ("fromtimestamp", "utcfromtimestamp"):
                        add(n, "fromtimestamp", "OverflowError")
                    elif m in ("read", "read1", "readline", "recv") and len(n.args) == 1 and not n.keywords and not isinstance(n.args[0], ast.Constant):
                        if self.size_hook is not None and self.size_hook(fi, n, n.args[0]):
                            add(n, "size", "OverflowError")
            elif isinstance(n, ast.Attribute) and n.attr == "port" and isinstance(n.ctx, ast.Load) and not astq.is_self_attr(n):
                add(n, "port", "ValueError")
            elif isinstance(n, ast.Assign) and isinstance(n.targets[0], (ast.Tuple, ast.List)) and isinstance(n.value, ast.Call) and isinstance(n.value.func, ast.Attribute) and n.value.func.attr in ("split", "rsplit"):
                k = len(n.targets[0].elts)
                if not any(isinstance(e, ast.Starred) for e in n.targets[0].elts):
                    add(n, "unpack-split", "ValueError")
            elif isinstance(n, ast.Subscript) and isinstance(n.ctx, ast.Load) and isinstance(n.slice, (ast.Constant, ast.UnaryOp)):
                idx = n.slice
                val = idx.value if isinstance(idx, ast.Constant) else (-idx.operand.value if isinstance(idx, ast.UnaryOp) and isinstance(idx.op, ast.USub) and isinstance(idx.operand, ast.Constant) and isinstance(idx.operand.value, int) else None)
                if isinstance(val, int) and not isinstance(val, bool):
                    add(n, "const-index", "IndexError")
        # match-attr: m = P.match(..); m.group() without a dominating test on m
        for n in walk_no_nested(fn):
            if isinstance(n, ast.Attribute) and n.attr in ("group", "groups", "end", "start", "span", "groupdict") and isinstance(n.value, ast.Name) and isinstance(n.ctx, ast.Load):
                nm = n.value.id
                defs = [v for _, v in astq.assigns_to(fn, nm) if v is not None]
                if defs and all(isinstance(v, ast.Call) and isinstance(v.func, ast.Attribute) and v.func.attr in ("match", "search", "fullmatch") for v in defs):
                    add(n, "match-attr", "AttributeError")
        self._sites[fi.fq] = out
        return out

    # -- call resolution ---------------------------------------------------
    def callees(self, fi: FuncInfo) -> list[tuple[FuncInfo, ast.AST]]:
        if fi.fq in self._calls:
            return self._calls[fi.fq]
        out: list[tuple[FuncInfo, ast.AST]] = []
        li = fi.module.local_imports(fi.node)
        unresolved: list[str] = []
        selfname = fi.params[0] if fi.params and fi.cls is not None else None
        for n in walk_no_nested(fi.node):
            if isinstance(n, ast.Call):
                tg = self._resolve_call(fi, n, li, selfname)
                # a package function passed as an argument (callback of re.sub, map, sorted key ...) may be called
                for a in list(n.args) + [k.value for k in n.keywords]:
                    da = dotted(a)
                    if da and not (selfname and da == selfname):
                        fqa = self.repo.resolve(fi.module, da, li)
                        fa = self.repo.try_func(fqa) if fqa and fqa.startswith("werkzeug.") else None
                        if fa is not None:
                            out.append((fa, n))
                if tg:
                    out.extend((x, n) for x in tg)
                else:
                    d = dotted(n.func)
                    if d is None or (selfname and d.startswith(selfname + ".") and d.count(".") == 1):
                        unresolved.append(norm(n.func)[:40])
            elif isinstance(n, ast.Attribute) and isinstance(n.ctx, ast.Load) and selfname and isinstance(n.value, ast.Name) and n.value.id == selfname and fi.cls is not None:
                # property / cached_property / descriptor on self
                for g in self._getters(fi.cls, n.attr):
                    out.append((g, n))
        self._calls[fi.fq] = out
        self.unresolved[fi.fq] = unresolved
        return out

    def _getters(self, cls: ClassInfo, attr: str) -> list[FuncInfo]:
        owner, what = self.repo.lookup(cls, attr)
        res: list[FuncInfo] = []
        if isinstance(what, FuncInfo):
            decs = what.decorators
            if any(d.rsplit(".", 1)[-1] in ("property", "cached_property") for d in decs):
                res.append(what)
        elif isinstance(what, ast.Call):
            f = what.func.value if isinstance(what.func, ast.Subscript) else what.func
            dn = dotted(f)
            if dn and dn.rsplit(".", 1)[-1] in ("header_property", "environ_property"):
                res.extend(self.descriptor_funcs(owner, what))
        # overriding subclasses (the entry class may be a subclass)
        return res

    def descriptor_funcs(self, owner, call: ast.Call) -> list[FuncInfo]:
        """functions run by reading a header_property/environ_property: its load_func (when a package function)."""
        res = []
        load = astq.arg_or_kw(call, 2, "load_func")
        if load is not None:
            d = dotted(load)
            if d and isinstance(owner, ClassInfo):
                fq = self.repo.resolve(owner.module, d)
                f = self.repo.try_func(fq) if fq and fq.startswith("werkzeug.") else None
                if f is not None:
                    res.append(f)
        return res

    def _resolve_call(self, fi: FuncInfo, n: ast.Call, li, selfname) -> list[FuncInfo]:
        f = n.func
        d = dotted(f)
        if d is None:
            # super().m(...)
            if isinstance(f, ast.Attribute) and isinstance(f.value, ast.Call) and dotted(f.value.func) == "super" and fi.cls is not None:
                o, w = self.repo.lookup(fi.cls, f.attr, after=fi.cls.fq)
                return [w] if isinstance(w, FuncInfo) else []
            return []
        if selfname and d.startswith(selfname + ".") and d.count(".") == 2 and fi.cls is not None:
            # self.<property>.<method>(...): the classes the property's getter constructs (through package helpers)
            _, attr, meth = d.split(".")
            res = []
            for c in self._attr_classes(fi.cls, attr):
                for w in self._method_targets(c, meth):
                    if w not in res:
                        res.append(w)
            if res:
                return res
        if selfname and d.startswith(selfname + ".") and d.count(".") == 1 and fi.cls is not None:
            name = d.split(".", 1)[1]
            res = []
            o, w = self.repo.lookup(fi.cls, name)
            if isinstance(w, FuncInfo):
                res.append(w)
            elif name == "read":
                res.extend(self._method_targets(fi.cls, name))
            elif isinstance(w, ast.AST) and not isinstance(w, ast.Call) and dotted(w) and isinstance(o, ClassInfo):
                fqc = self.repo.resolve(o.module, dotted(w))
                c = self.repo.try_cls(fqc) if fqc and fqc.startswith("werkzeug.") else None
                if c is not None:
                    for nm in ("__init__", "__new__"):
                        o2, w2 = self.repo.lookup(c, nm)
                        if isinstance(w2, FuncInfo):
                            res.append(w2)
                    return res
            for sub in self.repo.subclasses(fi.cls.fq):
                if name in sub.methods and sub.methods[name] not in res:
                    res.append(sub.methods[name])
            return res
        # <local>(...) where the local is bound to bound methods of self: parse_func = self._parse_multipart
        if "." not in d and selfname and fi.cls is not None:
            defs = [v for _, v in astq.assigns_to(fi.node, d)]
            if defs and all(v is not None and astq.is_self_attr(v, None, selfname) for v in defs):
                res = []
                for v in defs:
                    o, w = self.repo.lookup(fi.cls, v.attr)  # type: ignore[union-attr]
                    if isinstance(w, FuncInfo) and w not in res:
                        res.append(w)
                if res:
                    return res
        # <local>.method(...) where the local is bound to an instance of a package class
        if "." in d and not d.startswith((selfname or "\0") + "."):
            head, _, meth = d.partition(".")
            if "." not in meth:
                c = self._local_class(fi, head, li)
                if c is not None:
                    o, w = self.repo.lookup(c, meth)
                    if isinstance(w, FuncInfo):
                        res = [w]
                        for sub in self.repo.subclasses(c.fq):
                            if meth in sub.methods and sub.methods[meth] not in res:
                                res.append(sub.methods[meth])
                        return res
        fq = self.repo.resolve(fi.module, d, li)
        if not fq or not fq.startswith("werkzeug."):
            return []
        fn = self.repo.try_func(fq)
        if fn is not None:
            return [fn]
        c = self.repo.try_cls(fq)
        if c is not None:
            res = []
            for nm in ("__init__", "__new__"):
                o, w = self.repo.lookup(c, nm)
                if isinstance(w, FuncInfo):
                    res.append(w)
            return res
        # Class.method / module.Class.method
        head, _, meth = fq.rpartition(".")
        c = self.repo.try_cls(head)
        if c is not None:
            o, w = self.repo.lookup(c, meth)
            if isinstance(w, FuncInfo):
                return [w]
        return []

    def _method_targets(self, c: ClassInfo, meth: str) -> list[FuncInfo]:
        o, w = self.repo.lookup(c, meth)
        if isinstance(w, FuncInfo):
            return [w]
        if meth == "read" and any(getattr(k, "fq", "") in ("io.RawIOBase", "_io._RawIOBase") for k in self.repo.mro(c)):
            # MODEL_DOC["rawio-dispatch"]
            out = []
            for nm in ("readall", "readinto"):
                o2, w2 = self.repo.lookup(c, nm)
                if isinstance(w2, FuncInfo):
                    out.append(w2)
            return out
        return []

    def _attr_classes(self, cls: ClassInfo, attr: str) -> list[ClassInfo]:
        out: list[ClassInfo] = []
        for g in self._getters(cls, attr):
            if any(d.rsplit(".", 1)[-1] in ("property", "cached_property") for d in g.decorators):
                for c in self._ret_classes(g, 0):
                    if c not in out:
                        out.append(c)
        return out

    def _ret_classes(self, g: FuncInfo, depth: int) -> list[ClassInfo]:
        out: list[ClassInfo] = []
        if depth > 3:
            return out
        li = g.module.local_imports(g.node)
        for r in astq.returns_of(g.node):
            v = r.value
            while isinstance(v, ast.Call) and (dotted(v.func) or "").rsplit(".", 1)[-1] == "cast" and len(v.args) == 2:
                v = v.args[1]
            if not isinstance(v, ast.Call):
                continue
            d = dotted(v.func)
            fq = self.repo.resolve(g.module, d, li) if d else None
            if not fq or not fq.startswith("werkzeug."):
                continue
            c = self.repo.try_cls(fq)
            if c is not None:
                if c not in out:
                    out.append(c)
                continue
            f2 = self.repo.try_func(fq)
            if f2 is not None:
                for c2 in self._ret_classes(f2, depth + 1):
                    if c2 not in out:
                        out.append(c2)
        return out

    def _class_of_expr(self, fi: FuncInfo, v: ast.AST | None, li) -> ClassInfo | None:
        """class of the instance an expression evaluates to, for: ClassName(...), self.<attr holding a class>(...),
        f(...) / self.m(...) with a return annotation naming a package class."""
        if not isinstance(v, ast.Call):
            return None
        d = dotted(v.func)
        if d is None:
            return None
        selfname = fi.params[0] if fi.params and fi.cls is not None else None
        if selfname and d.startswith(selfname + ".") and d.count(".") == 1 and fi.cls is not None:
            name = d.split(".", 1)[1]
            o, w = self.repo.lookup(fi.cls, name)
            if isinstance(w, ast.AST) and not isinstance(w, ast.Call):
                dn = dotted(w)
                if dn and isinstance(o, ClassInfo):
                    fq = self.repo.resolve(o.module, dn)
                    return self.repo.try_cls(fq) if fq and fq.startswith("werkzeug.") else None
            if isinstance(w, FuncInfo):
                return self._ret_class(w)
            return None
        fq = self.repo.resolve(fi.module, d, li)
        if not fq or not fq.startswith("werkzeug."):
            return None
        c = self.repo.try_cls(fq)
        if c is not None:
            return c
        f = self.repo.try_func(fq)
        return self._ret_class(f) if f is not None else None

    def _ret_class(self, f: FuncInfo) -> ClassInfo | None:
        ann = getattr(f.node, "returns", None)
        dn = dotted(ann) if ann is not None else None
        if dn:
            fq = self.repo.resolve(f.module, dn)
            return self.repo.try_cls(fq) if fq and fq.startswith("werkzeug.") else None
        return None

    def _local_class(self, fi: FuncInfo, name: str, li) -> ClassInfo | None:
        defs = [v for _, v in astq.assigns_to(fi.node, name)]
        if not defs:
            return None
        cs = [self._class_of_expr(fi, v, li) for v in defs]
        if all(c is not None for c in cs) and len({c.fq for c in cs}) == 1:
            return cs[0]
        return None

    # -- handler filtering -------------------------------------------------
    def uncaught(self, fi: FuncInfo, node: ast.AST, exc: str) -> bool:
        """does `exc` raised at `node` escape fi (considering enclosing try/except, bare re-raise)?"""
        li = None
        cur = node
        parent = astq.parent(cur)
        while parent is not None and cur is not fi.node:
            if isinstance(parent, ast.Try):
                in_body = any(cur is s for s in parent.body)
                if in_body:
                    for h in parent.handlers:
                        if li is None:
                            li = fi.module.local_imports(fi.node)
                        types = [self.lat.canon(fi.module, e, li) for e in (h.type.elts if isinstance(h.type, ast.Tuple) else [h.type])] if h.type is not None else ["BaseException"]
                        if any(self.lat.covers(tn, exc) for tn in types):
                            # caught; does the handler re-raise it bare?
                            rer = [x for s in h.body for x in [s, *walk_no_nested(s)] if isinstance(x, ast.Raise) and x.exc is None]
                            live = []
                            for x in rer:
                                g = astq.enclosing(x, (ast.If,))
                                dead = isinstance(g, ast.If) and any(x is y for st in g.body for y in [st, *walk_no_nested(st)]) and norm(g.test) in self.dead_reraise_guards and any(g is y for st in h.body for y in [st, *walk_no_nested(st)])
                                if not dead:
                                    live.append(x)
                            if live:
                                break  # continues outward from the try statement
                            return False
                    # not caught (or re-raised): continue outward
            cur = parent
            parent = astq.parent(cur)
        return True

    # -- fix point ---------------------------------------------------------
    def reachable(self, roots: list[FuncInfo]) -> dict[str, FuncInfo]:
        reach: dict[str, FuncInfo] = {}
        stack = list(roots)
        while stack:
            f = stack.pop()
            if f.fq in reach:
                continue
            reach[f.fq] = f
            for g, _ in self.callees(f):
                stack.append(g)
        self.reach = reach
        return reach

    def escapes(self, roots: list[FuncInfo]) -> dict[str, set[tuple[Site, str]]]:
        """fq -> {(origin site, exception)} escaping that function, for everything reachable from roots."""
        reach = self.reachable(roots)
        esc: dict[str, set[tuple[Site, str]]] = {fq: set() for fq in reach}
        for fq, f in reach.items():
            for s in self.sites(f):
                if self.uncaught(f, s.node, s.exc):
                    esc[fq].add((s, s.exc))
        changed = True
        while changed:
            changed = False
            for fq, f in reach.items():
                for g, node in self.callees(f):
                    for s, e in list(esc[g.fq]):
                        if (s, e) not in esc[fq] and self.uncaught(f, node, e):
                            esc[fq].add((s, e))
                            changed = True
        self.reach = reach
        self._esc = esc
        return esc

    def chain(self, root: FuncInfo, site: Site, exc: str) -> list[str]:
        """one call chain root -> ... -> site.func along which exc escapes."""
        target = site.func.fq
        prev: dict[str, str | None] = {root.fq: None}
        q = [root]
        while q:
            f = q.pop(0)
            if f.fq == target:
                out = []
                cur: str | None = f.fq
                while cur is not None:
                    out.append(cur)
                    cur = prev[cur]
                return list(reversed(out))
            for g, node in self.callees(f):
                if g.fq in prev or (site, exc) not in self._esc.get(g.fq, ()):  # only along escaping edges
                    continue
                if not self.uncaught(f, node, exc):
                    continue
                prev[g.fq] = f.fq
                q.append(g)
        return [root.fq, "...", target]


# =====================================================================
# E5b: value origins (used by the C07 guard idioms and reviewed roles)
#
# A small abstract evaluator over *where a value comes from*: reaching definitions inside a function, tuple / list /
# dict projections, parameter binding to the call sites that are reachable from the entry points, return values of
# package helpers (context sensitive: a helper's parameter is bound to the argument of the call being followed), and
# the canonical guard atoms that dominate the use (with a freshness check: no rebinding of a tested name between the
# test and the use).  All answers are lower bounds / must-facts: "unknown" is always the weakest answer.

INF = 10**9

from .dataflow import ReachingDefs, bound_in_enclosing_comp  # noqa: E402
from .fold import Folder, RegexConst, group_width, width  # noqa: E402
from .guards import Aliases  # noqa: E402


class Atom(t.NamedTuple):
    op: str  # truthy | is | eq | in | lt
    a: ast.AST
    b: ast.AST | None
    truth: bool
    test: t.Any  # cfg Node
    label: str
    names: frozenset


def _unwalrus(e: ast.AST) -> ast.AST:
    return e.target if isinstance(e, ast.NamedExpr) else e


def satoms(e: ast.AST, truth: bool) -> list[tuple[str, ast.AST, ast.AST | None, bool]]:
    """structured canonical atoms of one condition atom: polarity folded into `truth`; > >= <= rewritten to <."""
    while isinstance(e, ast.UnaryOp) and isinstance(e.op, ast.Not):
        e, truth = e.operand, not truth
    out: list[tuple[str, ast.AST, ast.AST | None, bool]] = []
    if isinstance(e, ast.NamedExpr):
        out.append(("truthy", e.target, None, truth))
        out.append(("truthy", e.value, None, truth))
        return out
    if isinstance(e, ast.Compare):
        if len(e.ops) > 1 and not truth:
            return out  # a false chain says nothing about its links
        left = e.left
        for op, right in zip(e.ops, e.comparators):
            a, b = _unwalrus(left), _unwalrus(right)
            if isinstance(op, ast.Is):
                out.append(("is", a, b, truth))
            elif isinstance(op, ast.IsNot):
                out.append(("is", a, b, not truth))
            elif isinstance(op, ast.Eq):
                out.append(("eq", a, b, truth))
            elif isinstance(op, ast.NotEq):
                out.append(("eq", a, b, not truth))
            elif isinstance(op, ast.In):
                out.append(("in", a, b, truth))
            elif isinstance(op, ast.NotIn):
                out.append(("in", a, b, not truth))
            elif isinstance(op, ast.Lt):
                out.append(("lt", a, b, truth))
            elif isinstance(op, ast.Gt):
                out.append(("lt", b, a, truth))
            elif isinstance(op, ast.LtE):
                out.append(("lt", b, a, not truth))
            elif isinstance(op, ast.GtE):
                out.append(("lt", a, b, not truth))
            left = right
        return out
    out.append(("truthy", e, None, truth))
    return out


def _conjuncts(e: ast.AST, truth: bool) -> list[tuple[ast.AST, bool]]:
    """atoms known from `e is truth`: an `and` that is true makes every operand true, an `or` that is false every operand false."""
    while isinstance(e, ast.UnaryOp) and isinstance(e.op, ast.Not):
        e, truth = e.operand, not truth
    if isinstance(e, ast.BoolOp):
        if (isinstance(e.op, ast.And) and truth) or (isinstance(e.op, ast.Or) and not truth):
            out: list[tuple[ast.AST, bool]] = []
            for v in e.values:
                out.extend(_conjuncts(v, truth))
            return out
        return []
    return [(e, truth)]


def const_int(e: ast.AST | None) -> int | None:
    if isinstance(e, ast.Constant) and isinstance(e.value, int) and not isinstance(e.value, bool):
        return e.value
    if isinstance(e, ast.UnaryOp) and isinstance(e.op, ast.USub) and isinstance(e.operand, ast.Constant) and isinstance(e.operand.value, int) and not isinstance(e.operand.value, bool):
        return -e.operand.value
    return None


def const_text(e: ast.AST | None) -> str | bytes | None:
    if isinstance(e, ast.Constant) and isinstance(e.value, (str, bytes)):
        return e.value
    return None


_CASE_METHODS = {"lower", "upper", "casefold", "swapcase", "title", "capitalize"}
_NO_NEW_ELEMENTS = {"pop", "get", "clear", "remove", "discard", "popitem", "copy", "keys", "items", "values", "index", "count", "sort", "reverse", "join", "__contains__", "__len__"}


class St(t.NamedTuple):
    cs: tuple = ()  # call strings: ((caller fi, call node, callee fi), ...)
    seen: frozenset = frozenset()
    hops: int = 0


class Flow:
    def __init__(self, eff: "Effects", folder: Folder, entry_fqs: set[str]):
        self.eff = eff
        self.repo = eff.repo
        self.folder = folder
        self.entry_fqs = entry_fqs
        self._rd: dict[str, ReachingDefs] = {}
        self._al: dict[str, Aliases] = {}
        self._atoms: dict[tuple[str, int], list[Atom]] = {}
        self._callers: dict[str, list[tuple[FuncInfo, ast.AST, str]]] | None = None
        self.cur: tuple[Site, str] | None = None  # the (site, exception) being discharged: restricts callers to escaping chains
        self.site_ast: ast.AST | None = None  # its AST node: the conditional expressions around it count as guards
        self._live: dict[tuple[int, str], set[str]] = {}

    # -- per function caches ---------------------------------------------
    def cfg(self, fi: FuncInfo):
        return cfg_of(fi)

    def rd(self, fi: FuncInfo) -> ReachingDefs:
        if fi.fq not in self._rd:
            self._rd[fi.fq] = ReachingDefs(cfg_of(fi), fi.params)
        return self._rd[fi.fq]

    def al(self, fi: FuncInfo) -> Aliases:
        if fi.fq not in self._al:
            self._al[fi.fq] = Aliases(cfg_of(fi), self.rd(fi))
        return self._al[fi.fq]

    def node(self, fi: FuncInfo, a: ast.AST):
        return cfg_of(fi).node_of(a)

    # -- call graph ------------------------------------------------------
    def callers(self, g: FuncInfo) -> list[tuple[FuncInfo, ast.AST, str]]:
        """(caller, node, kind) with kind call | callback | attr, over the functions reachable from the entry points;
        while a site is being discharged only call sites on a chain along which its exception escapes to an entry."""
        if self._callers is None:
            idx: dict[str, list[tuple[FuncInfo, ast.AST, str]]] = {}
            for f in self.eff.reach.values():
                for h, n in self.eff.callees(f):
                    kind = "attr"
                    if isinstance(n, ast.Call):
                        fn_last = (dotted(n.func) or (n.func.attr if isinstance(n.func, ast.Attribute) else "")).rsplit(".", 1)[-1]
                        as_arg = any((dotted(a) or "").rsplit(".", 1)[-1] == h.name for a in list(n.args) + [k.value for k in n.keywords])
                        kind = "callback" if as_arg and fn_last != h.name and not (h.name in ("__init__", "__new__")) else "call"
                    idx.setdefault(h.fq, []).append((f, n, kind))
            self._callers = idx
        res = self._callers.get(g.fq, [])
        if self.cur is not None:
            live = self.live(*self.cur)
            s, e = self.cur
            res = [(f, n, k) for f, n, k in res if f.fq in live and self.eff.uncaught(f, n, e)]
        return res

    def live(self, s: "Site", e: str) -> set[str]:
        """functions on some chain entry -> ... -> site along which e escapes all the way to the entry."""
        key = (id(s.node), e)
        if key in self._live:
            return self._live[key]
        esc = self.eff._esc
        carrying = {fq for fq, v in esc.items() if (s, e) in v}
        live = {fq for fq in carrying if fq in self.entry_fqs}
        changed = True
        while changed:
            changed = False
            for fq in list(live):
                f = self.eff.reach[fq]
                for h, n in self.eff.callees(f):
                    if h.fq in carrying and h.fq not in live and self.eff.uncaught(f, n, e):
                        live.add(h.fq)
                        changed = True
        self._live[key] = live
        return live

    def bind(self, g: FuncInfo, call: ast.AST, pname: str):
        """argument expression bound to parameter pname of g at this call: ('arg', expr) | ('default', expr) | None."""
        if not isinstance(call, ast.Call):
            return None
        a = g.node.args  # type: ignore[attr-defined]
        pos = [x.arg for x in a.posonlyargs + a.args]
        static = any(d.rsplit(".", 1)[-1] == "staticmethod" for d in g.decorators)
        off = 1 if (g.cls is not None and not static) else 0
        if any(kw.arg is None for kw in call.keywords):
            return None
        for kw in call.keywords:
            if kw.arg == pname:
                return ("arg", kw.value)
        if pname in pos:
            i = pos.index(pname) - off
            if i < 0:
                return None
            if any(isinstance(x, ast.Starred) for x in call.args[: i + 1]):
                return None
            if i < len(call.args):
                return ("arg", call.args[i])
            j = pos.index(pname) - (len(pos) - len(a.defaults))
            if j >= 0:
                return ("default", a.defaults[j])
            return None
        kwo = [x.arg for x in a.kwonlyargs]
        if pname in kwo:
            d = a.kw_defaults[kwo.index(pname)]
            return ("default", d) if d is not None else None
        return None

    def param_sources(self, fi: FuncInfo, pname: str, st: St):
        """[(fi', expr, node', st')] the parameter may be bound to, or None when unknown."""
        if fi.params and fi.cls is not None and pname == fi.params[0] and not any(d.rsplit(".", 1)[-1] == "staticmethod" for d in fi.decorators):
            return None
        if st.cs and st.cs[-1][2] is fi:
            cf, call, _ = st.cs[-1]
            b = self.bind(fi, call, pname)
            if b is None:
                return None
            st2 = st._replace(cs=st.cs[:-1])
            if b[0] == "default":
                return [(fi, b[1], cfg_of(fi).entry, st2)] if isinstance(b[1], ast.Constant) else None
            return [(cf, b[1], cfg_of(cf).node_of(call), st2)]
        if fi.fq in self.entry_fqs or st.hops >= 5:
            return None
        cal = self.callers(fi)
        if not cal:
            return None
        out = []
        for f, n, kind in cal:
            if kind != "call":
                return None
            b = self.bind(fi, n, pname)
            if b is None:
                return None
            st2 = St((), st.seen, st.hops + 1)
            if b[0] == "default":
                if not isinstance(b[1], ast.Constant):
                    return None
                out.append((fi, b[1], cfg_of(fi).entry, st2))
            else:
                nn = cfg_of(f).node_of(n)
                if nn is None:
                    return None
                out.append((f, b[1], nn, st2))
        return out

    def resolve_callee(self, fi: FuncInfo, call: ast.Call) -> list[FuncInfo]:
        li = fi.module.local_imports(fi.node)
        selfname = fi.params[0] if fi.params and fi.cls is not None else None
        try:
            return [g for g in self.eff._resolve_call(fi, call, li, selfname) if g.name not in ("__init__", "__new__")]
        except Exception:
            return []

    # -- guard atoms -------------------------------------------------------
    def atoms(self, fi: FuncInfo, node) -> list[Atom]:
        """structured canonical atoms that hold whenever `node` is evaluated: the dominating test edges (plain and with
        local aliases expanded, boolean flags `ok = a <= b` replaced by the condition they hold), plus - for the site
        currently being discharged - the conditions of the conditional expressions / short-circuit operands it sits in."""
        key = (fi.fq, node.id)
        if key not in self._atoms:
            cfg = cfg_of(fi)
            out: list[Atom] = []
            for tn, label in cfg.guards(node):
                if tn.kind != "test":
                    continue
                out.extend(self._atoms_of(fi, tn.ast, label == "T", tn, label))
            self._atoms[key] = out
        res = self._atoms[key]
        sa = self.site_ast
        if sa is not None and node.ast is not None and any(x is sa for x in ast.walk(node.ast)):
            res = res + self._expr_atoms(fi, node, sa)
        return res

    def _atoms_of(self, fi: FuncInfo, cond: ast.AST, truth: bool, tn, label: str) -> list[Atom]:
        al = self.al(fi)
        forms = [cond]
        names = set(astq.names_in(cond))
        try:
            ex = al.expand(cond, tn)
            if norm(ex) != norm(cond):
                forms.append(ex)
                names |= astq.names_in(ex)
        except Exception:
            pass
        out: list[Atom] = []
        for f in forms:
            for op, a, b, tr in satoms(f, truth):
                out.append(Atom(op, a, b, tr, tn, label, frozenset(names)))
                # a boolean flag: `fits = size <= limit` ... `if fits`
                if op == "truthy" and isinstance(a, ast.Name):
                    defs = list(self.rd(fi).reaching(tn, a.id))
                    if len(defs) == 1 and defs[0].kind == "assign" and defs[0].index is None and isinstance(defs[0].value, (ast.Compare, ast.BoolOp, ast.UnaryOp)) and defs[0].node is not None:
                        fv = defs[0].value
                        fn = set(astq.names_in(fv))
                        if self._unchanged_between(fi, fn, defs[0].node, tn):
                            for c, ctruth in _conjuncts(fv, tr):
                                for op2, a2, b2, tr2 in satoms(c, ctruth):
                                    out.append(Atom(op2, a2, b2, tr2, tn, label, frozenset(names | fn)))
        return out

    def _expr_atoms(self, fi: FuncInfo, node, site: ast.AST) -> list[Atom]:
        out: list[Atom] = []
        child = site
        cur = getattr(site, "_parent", None)
        while cur is not None and child is not node.ast:
            if isinstance(cur, ast.IfExp) and child is not cur.test:
                for c, ctruth in _conjuncts(cur.test, child is cur.body):
                    out.extend(self._atoms_of(fi, c, ctruth, node, "expr"))
            elif isinstance(cur, ast.BoolOp):
                i = next((k for k, v in enumerate(cur.values) if v is child), 0)
                for v in cur.values[:i]:
                    for c, ctruth in _conjuncts(v, isinstance(cur.op, ast.And)):
                        out.extend(self._atoms_of(fi, c, ctruth, node, "expr"))
            child, cur = cur, getattr(cur, "_parent", None)
        return out

    def _unchanged_between(self, fi: FuncInfo, names: set[str], a_node, b_node) -> bool:
        """no name of `names` is rebound on a path a -> b that does not pass a again."""
        cfg = cfg_of(fi)
        starts = [s for s, _ in a_node.succs if s is not a_node]
        if not starts:
            return True
        r1 = cfg.reach(starts, avoid_nodes=[a_node])
        gen = self.rd(fi).gen
        for n in cfg.nodes:
            if n.id not in r1 or n is a_node:
                continue
            if any(d.name in names for d in gen.get(n.id, [])):
                if n is b_node:
                    continue  # a walrus in b itself is evaluated with b
                succs = [s for s, _ in n.succs if s is not a_node]
                if succs and b_node.id in cfg.reach(succs, avoid_nodes=[a_node]):
                    return False
        return True

    def fresh(self, fi: FuncInfo, at: Atom, use) -> bool:
        """no name the atom mentions is rebound on a path test-edge -> use that does not re-evaluate the test."""
        cfg = cfg_of(fi)
        tn = at.test
        if at.label == "expr":
            return True  # evaluated within the same expression as the use
        starts = [s for s, l in tn.succs if l == at.label and s is not tn]
        if not starts:
            return True
        r1 = cfg.reach(starts, avoid_nodes=[tn])
        gen = self.rd(fi).gen
        for n in cfg.nodes:
            if n.id not in r1 or n is tn:
                continue
            if any(d.name in at.names for d in gen.get(n.id, [])):
                succs = [s for s, _ in n.succs if s is not tn]
                if succs and use.id in cfg.reach(succs, avoid_nodes=[tn]):
                    return False
        return True

    def keys(self, fi: FuncInfo, e: ast.AST, node) -> set[str]:
        ks = {norm(e)}
        try:
            ks.add(norm(self.al(fi).expand(e, node)))
        except Exception:
            pass
        return ks

    def holds(self, fi: FuncInfo, node, pred: t.Callable[[Atom], bool]) -> Atom | None:
        for at in self.atoms(fi, node):
            if pred(at) and self.fresh(fi, at, node):
                return at
        return None

    # -- regex behind a match object ---------------------------------------
    def fold_regex(self, fi: FuncInfo, e: ast.AST) -> RegexConst | None:
        d = dotted(e)
        if not d:
            return None
        try:
            v = self.folder.name(fi.module, d)
        except Exception:
            return None
        return v if isinstance(v, RegexConst) else None

    def regex_of_match(self, fi: FuncInfo, e: ast.AST, node, st: St = St()) -> RegexConst | None:
        """the regex whose match object e is (all reaching definitions agree), through callback parameters of R.sub."""
        if isinstance(e, ast.NamedExpr):
            e = e.value
        if isinstance(e, ast.Call) and isinstance(e.func, ast.Attribute) and e.func.attr in ("match", "search", "fullmatch"):
            return self.fold_regex(fi, e.func.value)
        if not isinstance(e, ast.Name) or node is None:
            return None
        found: list[RegexConst] = []
        for d in self.rd(fi).reaching(node, e.id):
            if d.kind in ("assign", "walrus") and d.index is None and d.value is not None:
                r = self.regex_of_match(fi, d.value, d.node, st)
            elif d.kind == "param":
                r = None
                cal = self.callers(fi)
                rs = []
                for f, n, kind in cal:
                    if kind == "callback" and isinstance(n, ast.Call) and isinstance(n.func, ast.Attribute) and n.func.attr in ("sub", "subn"):
                        rs.append(self.fold_regex(f, n.func.value))
                    else:
                        rs.append(None)
                if rs and all(x is not None and x.pattern == rs[0].pattern and x.flags == rs[0].flags for x in rs):
                    r = rs[0]
            else:
                r = None
            if r is None:
                return None
            found.append(r)
        if found and all(x.pattern == found[0].pattern and x.flags == found[0].flags for x in found):
            return found[0]
        return None

    # -- lower bound of len(value) ------------------------------------------
    def minlen(self, fi: FuncInfo, e: ast.AST | None, node, path: tuple = (), st: St = St()) -> int:
        """lower bound of len(<e projected by path>) at CFG node `node` of fi (0 = unknown).
        path items: ('elem', i) | ('any',) | ('key',) | ('val',); projections assume the element exists."""
        if e is None:
            return 0
        key = (fi.fq, ("n:" + e.id) if isinstance(e, ast.Name) else id(e), node.id if node is not None else -1, path, tuple(id(c[1]) for c in st.cs))
        if key in st.seen:
            return INF  # inductive: a cyclic definition cannot lower the bound established by the base cases
        if len(st.seen) > 400:
            return 0
        st = st._replace(seen=st.seen | {key})
        v = self._minlen(fi, e, node, path, st)
        if not path and node is not None and not isinstance(e, ast.Constant):
            g = self._guard_minlen(fi, e, node)
            if g > v:
                v = g
        return v

    def _minlen(self, fi, e, node, path, st) -> int:
        ml = self.minlen
        if isinstance(e, ast.Constant):
            if e.value is None:
                return INF  # None is not subscriptable: no IndexError can come from it (TypeError is out of model)
            if not path:
                return len(e.value) if isinstance(e.value, (str, bytes, tuple)) else 0
            return 0
        if isinstance(e, ast.NamedExpr):
            return ml(fi, e.value, node, path, st)
        if isinstance(e, (ast.Tuple, ast.List, ast.Set)):
            plain = [x for x in e.elts if not isinstance(x, ast.Starred)]
            if not path:
                return len(plain)
            h, rest = path[0], path[1:]
            if h[0] == "elem" and isinstance(e, (ast.Tuple, ast.List)):
                i = h[1]
                seg = e.elts[: i + 1] if i >= 0 else e.elts[i:]
                if -len(e.elts) <= i < len(e.elts) and not any(isinstance(x, ast.Starred) for x in seg):
                    return ml(fi, e.elts[i], node, rest, st)
            if h[0] in ("elem", "any"):
                vals = [ml(fi, x.value, node, path, st) if isinstance(x, ast.Starred) else ml(fi, x, node, rest, st) for x in e.elts]
                return min(vals) if vals else INF
            return 0
        if isinstance(e, ast.Dict):
            if not path:
                return len([k for k in e.keys if k is not None])
            h, rest = path[0], path[1:]
            if h[0] in ("key", "val", "any"):  # iterating a dict yields its keys
                vals = []
                for k, v in zip(e.keys, e.values):
                    if k is None:
                        vals.append(ml(fi, v, node, path, st))
                    else:
                        vals.append(ml(fi, v if h[0] == "val" else k, node, rest, st))
                return min(vals) if vals else INF
            return 0
        if isinstance(e, (ast.ListComp, ast.SetComp, ast.GeneratorExp)):
            if path and path[0][0] in ("any", "elem"):
                return ml(fi, e.elt, node, path[1:], st)
            return 0
        if isinstance(e, ast.DictComp):
            if path and path[0][0] in ("key", "any"):
                return ml(fi, e.key, node, path[1:], st)
            if path and path[0][0] == "val":
                return ml(fi, e.value, node, path[1:], st)
            return 0
        if isinstance(e, ast.IfExp):
            return min(ml(fi, e.body, node, path, st), ml(fi, e.orelse, node, path, st))
        if isinstance(e, ast.BoolOp):
            vals = []
            for i, v in enumerate(e.values):
                x = ml(fi, v, node, path, st)
                if isinstance(e.op, ast.Or) and i < len(e.values) - 1 and not path:
                    x = max(x, 1)  # a non-final operand of `or` is the result only when truthy
                elif isinstance(e.op, ast.And) and i < len(e.values) - 1:
                    x = 0
                vals.append(x)
            return min(vals)
        if isinstance(e, ast.JoinedStr):
            if path:
                return 0
            return sum(len(v.value) for v in e.values if isinstance(v, ast.Constant) and isinstance(v.value, str))
        if isinstance(e, ast.BinOp) and isinstance(e.op, ast.Add):
            a, b = ml(fi, e.left, node, path, st), ml(fi, e.right, node, path, st)
            return min(a, b) if path else min(INF, a + b)
        if isinstance(e, ast.Name):
            return self._minlen_name(fi, e, node, path, st)
        if isinstance(e, ast.Attribute):
            return self._minlen_attr(fi, e, node, path, st)
        if isinstance(e, ast.Subscript):
            if isinstance(e.slice, ast.Slice):
                sl = e.slice
                if path:
                    p2 = tuple(("any",) if (i == 0 and h[0] == "elem") else h for i, h in enumerate(path))
                    return ml(fi, e.value, node, p2, st)
                if sl.step is None and (sl.lower is None or const_int(sl.lower) == 0) and sl.upper is not None:
                    hi = self.int_lb(fi, sl.upper, node, st)
                    if hi is not None and hi >= 0:
                        return min(ml(fi, e.value, node, (), st), hi)
                return 0
            i = const_int(e.slice)
            if i is not None:
                return ml(fi, e.value, node, (("elem", i),) + path, st)
            return 0
        if isinstance(e, ast.Call):
            return self._minlen_call(fi, e, node, path, st)
        return 0

    def _comp_binding(self, fi: FuncInfo, e: ast.Name):
        g = bound_in_enclosing_comp(e, stop=fi.node)
        if g is None:
            return None
        if isinstance(g.target, ast.Name):
            return g, (("any",),)
        if isinstance(g.target, (ast.Tuple, ast.List)):
            for i, x in enumerate(g.target.elts):
                if isinstance(x, ast.Name) and x.id == e.id and not any(isinstance(y, ast.Starred) for y in g.target.elts):
                    return g, (("any",), ("elem", i))
        return g, None

    def _minlen_name(self, fi, e: ast.Name, node, path, st) -> int:
        cb = self._comp_binding(fi, e) if hasattr(e, "_parent") else None
        if cb is not None:
            g, sub = cb
            return self.minlen(fi, g.iter, node, sub + path, st) if sub is not None else 0
        if node is None:
            return 0
        defs = self.rd(fi).reaching(node, e.id)
        if not defs:
            try:
                v = self.folder.name(fi.module, e.id)
            except Exception:
                return 0
            if not path and isinstance(v, (str, bytes, tuple, list, frozenset, set, dict)):
                return len(v)
            return 0
        vals = []
        for d in defs:
            vals.append(self._minlen_def(fi, d, path, st))
        res = min(vals)
        if path and res > 0:
            res = min(res, self._mutations(fi, e.id, path, st))
        return res

    def _minlen_def(self, fi, d, path, st) -> int:
        if d.kind == "param":
            kwa = fi.node.args.kwarg  # type: ignore[attr-defined]
            if kwa is not None and kwa.arg == d.name:
                return self._minlen_kwargs(fi, path, st)
            srcs = self.param_sources(fi, d.name, st)
            if srcs is None:
                return self._annotation_arity(fi, d.name) if not path else 0
            return min(self.minlen(f, x, n, path, s2) for f, x, n, s2 in srcs)
        if d.kind in ("assign", "walrus"):
            if d.value is None:
                return 0
            if d.index is None:
                return self.minlen(fi, d.value, d.node, path, st)
            return 0
        if d.kind == "unpack":
            if d.value is None or d.index is None:
                return 0
            tg = getattr(d.stmt, "targets", [None])[0] if isinstance(d.stmt, ast.Assign) else None
            if isinstance(tg, (ast.Tuple, ast.List)) and any(isinstance(x, ast.Starred) for x in tg.elts):
                return 0
            return self.minlen(fi, d.value, d.node, (("elem", d.index),) + path, st)
        if d.kind == "for":
            if d.value is None:
                return 0
            tg = getattr(d.stmt, "target", None)
            if isinstance(tg, (ast.Tuple, ast.List)) and any(isinstance(x, ast.Starred) for x in tg.elts):
                return 0
            sub = (("any",),) if d.index is None else (("any",), ("elem", d.index))
            return self.minlen(fi, d.value, d.node, sub + path, st)
        if d.kind == "aug":
            if path and d.value is not None:
                return self.minlen(fi, d.value, d.node, path, st)
            return 0
        if d.kind == "del":
            return INF
        return 0

    def _minlen_kwargs(self, fi: FuncInfo, path, st: St) -> int:
        """keys of a **kwargs parameter: the keyword names written at the call sites (non-empty identifiers), or the
        keys of a dict passed with ** there."""
        if not path or path[0] != ("key",) or fi.fq in self.entry_fqs or st.hops >= 5:
            return 0
        cal = self.callers(fi)
        if not cal:
            return 0
        a = fi.node.args  # type: ignore[attr-defined]
        named = {x.arg for x in a.posonlyargs + a.args + a.kwonlyargs}
        vals = [INF]
        for f, n, kind in cal:
            if kind != "call" or not isinstance(n, ast.Call):
                return 0
            nn = cfg_of(f).node_of(n)
            for kw in n.keywords:
                if kw.arg is None:
                    vals.append(self.minlen(f, kw.value, nn, path, St((), st.seen, st.hops + 1)))
                elif kw.arg not in named:
                    vals.append(len(kw.arg) if len(path) == 1 else 0)
        return min(vals)

    def _annotation_arity(self, fi: FuncInfo, pname: str) -> int:
        """a parameter annotated with a fixed-arity tuple type (optionally `| None`): its arity."""
        a = fi.node.args  # type: ignore[attr-defined]
        for x in a.posonlyargs + a.args + a.kwonlyargs:
            if x.arg == pname and x.annotation is not None:
                ann = x.annotation
                if isinstance(ann, ast.Constant) and isinstance(ann.value, str):
                    try:
                        ann = ast.parse(ann.value, mode="eval").body
                    except SyntaxError:
                        return 0
                alts = []

                def split(n):
                    if isinstance(n, ast.BinOp) and isinstance(n.op, ast.BitOr):
                        split(n.left)
                        split(n.right)
                    elif isinstance(n, ast.Subscript) and (dotted(n.value) or "").rsplit(".", 1)[-1] == "Optional":
                        split(n.slice)
                        alts.append(ast.Constant(None))
                    else:
                        alts.append(n)

                split(ann)
                ar = []
                for n in alts:
                    if isinstance(n, ast.Constant) and n.value is None:
                        continue
                    if isinstance(n, ast.Subscript) and (dotted(n.value) or "").rsplit(".", 1)[-1] in ("tuple", "Tuple"):
                        elts = n.slice.elts if isinstance(n.slice, ast.Tuple) else [n.slice]
                        if any(isinstance(x2, ast.Constant) and x2.value is Ellipsis for x2 in elts):
                            return 0
                        ar.append(len(elts))
                    else:
                        return 0
                return min(ar) if ar else 0
        return 0

    def _minlen_attr(self, fi, e: ast.Attribute, node, path, st) -> int:
        if astq.is_self_attr(e, None, fi.params[0] if fi.params else "self") and fi.cls is not None:
            vals = []
            classes = [k for k in self.repo.mro(fi.cls) if isinstance(k, ClassInfo)] + list(self.repo.subclasses(fi.cls.fq))
            seen_c = set()
            for k in classes:
                if k.fq in seen_c:
                    continue
                seen_c.add(k.fq)
                for m in k.methods.values():
                    sn = m.params[0] if m.params else "self"
                    for s_ in walk_no_nested(m.node):
                        if isinstance(s_, (ast.Assign, ast.AnnAssign)) and getattr(s_, "value", None) is not None:
                            tgs = s_.targets if isinstance(s_, ast.Assign) else [s_.target]
                            if any(astq.is_self_attr(tg, e.attr, sn) for tg in tgs):
                                vals.append(self.minlen(m, s_.value, cfg_of(m).node_of(s_), path, St((), st.seen, st.hops + 1)))
                            elif any(isinstance(tg, (ast.Tuple, ast.List)) and any(astq.is_self_attr(x, e.attr, sn) for x in ast.walk(tg)) for tg in tgs):
                                vals.append(0)
                        elif isinstance(s_, ast.AugAssign) and astq.is_self_attr(s_.target, e.attr, sn):
                            vals.append(0)
            if vals:
                return min(vals)
        return 0

    def _ret_minlen(self, fi, call, node, g: FuncInfo, path, st) -> int:
        if any(isinstance(x, (ast.Yield, ast.YieldFrom)) for x in walk_no_nested(g.node)):
            return 0
        rets = astq.returns_of(g.node)
        st2 = st._replace(cs=st.cs + ((fi, call, g),))
        if len(st2.cs) > 3:
            return 0
        vals = []
        for r in rets:
            if r.value is None:
                vals.append(INF)
            else:
                vals.append(self.minlen(g, r.value, cfg_of(g).node_of(r), path, st2))
        # falling off the end returns None (never raises IndexError)
        return min(vals) if vals else INF

    def _minlen_call(self, fi, e: ast.Call, node, path, st) -> int:
        ml = self.minlen
        f = e.func
        d = dotted(f)
        li = fi.module.local_imports(fi.node)
        fq = self.repo.resolve(fi.module, d, li) if d else None
        last = (d or "").rsplit(".", 1)[-1]
        if fq in ("builtins.sorted", "builtins.list", "builtins.tuple", "builtins.reversed", "builtins.set", "builtins.frozenset") and len(e.args) >= 1:
            p2 = tuple(("any",) if (i == 0 and h[0] == "elem") else h for i, h in enumerate(path))
            if fq in ("builtins.set", "builtins.frozenset") and not path:
                return min(1, ml(fi, e.args[0], node, (), st))
            return ml(fi, e.args[0], node, p2, st)
        if fq == "builtins.enumerate" and e.args:
            if path and path[0][0] in ("any", "elem"):
                if len(path) == 1:
                    return 2
                if path[1] == ("elem", 1):
                    return ml(fi, e.args[0], node, (("any",),) + path[2:], st)
                return 0
            return ml(fi, e.args[0], node, (), st) if not path else 0
        if last == "cast" and len(e.args) == 2:
            return ml(fi, e.args[1], node, path, st)
        if fq in ("urllib.parse.unquote", "urllib.parse.unquote_plus") and e.args and not path:
            err = astq.arg_or_kw(e, 2, "errors")
            if err is None or astq.const_str(err) in ("replace", "backslashreplace", "surrogateescape") or astq.const_str(err) in self.eff.handlers_ok - {"ignore"}:
                return min(1, ml(fi, e.args[0], node, (), st))
            return 0
        if fq in ("os.path.split", "os.path.splitext", "posixpath.split", "posixpath.splitext"):
            return 2 if not path else 0
        if isinstance(f, ast.Attribute):
            m = f.attr
            recv = f.value
            rx = self.fold_regex(fi, recv)
            if rx is None:
                if m in _CASE_METHODS and not e.args:
                    return ml(fi, recv, node, path, st) if not path else 0
                if m == "replace" and len(e.args) >= 2 and not path and const_text(e.args[1]):
                    return min(1, ml(fi, recv, node, (), st))  # replacing by a non-empty text keeps a non-empty text non-empty
                if m in ("partition", "rpartition"):
                    return 3 if not path else 0
                if m in ("split", "rsplit"):
                    if path:
                        return 0
                    sep = const_text(e.args[0]) if e.args else None
                    if sep and sep in self.contained(fi, recv, node, st):
                        return 2
                    return 1
                if m == "items" and not e.args and len(path) >= 2 and path[0][0] in ("any", "elem") and path[1][0] == "elem" and path[1][1] in (0, 1):
                    return ml(fi, recv, node, (("key",) if path[1][1] == 0 else ("val",),) + path[2:], st)
                if m == "items" and not e.args and len(path) == 1 and path[0][0] in ("any", "elem"):
                    return 2
                if m == "keys" and not e.args and path and path[0][0] in ("any", "elem"):
                    return ml(fi, recv, node, (("key",),) + path[1:], st)
                if m == "values" and not e.args and path and path[0][0] in ("any", "elem"):
                    return ml(fi, recv, node, (("val",),) + path[1:], st)
                if m == "copy" and not e.args:
                    return ml(fi, recv, node, path, st)
                if m in ("group", "groups"):
                    r = self.regex_of_match(fi, recv, node, st)
                    if r is not None:
                        try:
                            if m == "group" and not path:
                                k = const_int(e.args[0]) if e.args else 0
                                if k is None or len(e.args) > 1:
                                    return 0
                                return width(r)[0] if k == 0 else group_width(r, k)[0]
                            if m == "groups" and path and path[0][0] == "elem" and len(path) == 1 and path[0][1] >= 0:
                                return group_width(r, path[0][1] + 1)[0]
                            if m == "groups" and not path:
                                return r.parsed().state.groups - 1
                        except Exception:
                            return 0
                    return 0
            else:
                if m == "split" and not path and e.args:
                    try:
                        plain = not _has_anchor(rx)
                    except Exception:
                        plain = False
                    if plain:
                        for c in self.contained(fi, e.args[0], node, st):
                            try:
                                if isinstance(c, type(rx.pattern)) and re.compile(rx.pattern, rx.flags).fullmatch(c):
                                    return 2
                            except Exception:
                                pass
                    return 1
                return 0
        if isinstance(f, (ast.Name, ast.Attribute)) or d is None:
            gs = self.resolve_callee(fi, e)
            if gs:
                return min(self._ret_minlen(fi, e, node, g, path, st) for g in gs)
        return 0

    def _mutations(self, fi: FuncInfo, name: str, path, st) -> int:
        """elements / keys added to the container bound to local `name` anywhere in fi (flow-insensitive)."""
        h, rest = path[0], path[1:]
        vals = [INF]
        cfg = cfg_of(fi)
        # what the local is bound to decides what iterating it yields
        binds = [v for _, v in astq.assigns_to(fi.node, name) if v is not None]
        is_dict = bool(binds) and all(isinstance(v, (ast.Dict, ast.DictComp)) or (isinstance(v, ast.Call) and dotted(v.func) == "dict") for v in binds)
        is_list = bool(binds) and all(isinstance(v, (ast.List, ast.ListComp)) or (isinstance(v, ast.Call) and dotted(v.func) == "list") for v in binds)
        for n in walk_no_nested(fi.node):
            if isinstance(n, ast.Call) and isinstance(n.func, ast.Attribute) and isinstance(n.func.value, ast.Name) and n.func.value.id == name:
                m = n.func.attr
                nn = cfg.node_of(n)
                if m in ("append", "add") and len(n.args) == 1:
                    vals.append(self.minlen(fi, n.args[0], nn, rest, st) if h[0] in ("any", "elem") else 0)
                elif m == "insert" and len(n.args) == 2:
                    vals.append(self.minlen(fi, n.args[1], nn, rest, st) if h[0] in ("any", "elem") else 0)
                elif m in ("extend", "update") and len(n.args) == 1 and not n.keywords:
                    p2 = (("any",),) + rest if h[0] == "elem" else path
                    vals.append(self.minlen(fi, n.args[0], nn, p2, st))
                elif m == "setdefault" and len(n.args) == 2:
                    if h[0] == "key" or (is_dict and h[0] != "val"):
                        vals.append(self.minlen(fi, n.args[0], nn, rest, st))
                    elif h[0] == "val":
                        vals.append(self.minlen(fi, n.args[1], nn, rest, st))
                    else:
                        vals.append(min(self.minlen(fi, n.args[0], nn, rest, st), self.minlen(fi, n.args[1], nn, rest, st)))
                elif m in _NO_NEW_ELEMENTS:
                    pass
                else:
                    vals.append(0)
            elif isinstance(n, ast.Assign):
                for tg in n.targets:
                    if isinstance(tg, ast.Subscript) and isinstance(tg.value, ast.Name) and tg.value.id == name:
                        nn = cfg.node_of(n)
                        if isinstance(tg.slice, ast.Slice):
                            vals.append(0)
                        elif h[0] == "key" or (is_dict and h[0] != "val"):
                            vals.append(self.minlen(fi, tg.slice, nn, rest, st))
                        elif h[0] == "val" or is_list:
                            vals.append(self.minlen(fi, n.value, nn, rest, st))
                        else:
                            # iterating the container: a dict yields its keys, a list its items - the type is not known
                            vals.append(min(self.minlen(fi, tg.slice, nn, rest, st), self.minlen(fi, n.value, nn, rest, st)))
            elif isinstance(n, ast.AugAssign) and isinstance(n.target, ast.Subscript) and isinstance(n.target.value, ast.Name) and n.target.value.id == name:
                if h[0] != "key":
                    vals.append(0)
            elif isinstance(n, ast.Call):
                # the container handed to a package function that stores into its parameter
                for i, a in enumerate(n.args):
                    if isinstance(a, ast.Name) and a.id == name:
                        for g in self.resolve_callee(fi, n):
                            if self._param_mutated(g, n, i):
                                vals.append(0)
        return min(vals)

    def _param_mutated(self, g: FuncInfo, call: ast.Call, argi: int) -> bool:
        a = g.node.args  # type: ignore[attr-defined]
        pos = [x.arg for x in a.posonlyargs + a.args]
        off = 1 if (g.cls is not None and not any(d.rsplit(".", 1)[-1] == "staticmethod" for d in g.decorators)) else 0
        if argi + off >= len(pos):
            return True
        p = pos[argi + off]
        for n in walk_no_nested(g.node):
            if isinstance(n, ast.Call) and isinstance(n.func, ast.Attribute) and isinstance(n.func.value, ast.Name) and n.func.value.id == p and n.func.attr not in _NO_NEW_ELEMENTS and n.func.attr in ("append", "add", "insert", "extend", "update", "setdefault", "__setitem__"):
                return True
            if isinstance(n, (ast.Assign, ast.AugAssign)):
                for tg in (n.targets if isinstance(n, ast.Assign) else [n.target]):
                    if isinstance(tg, ast.Subscript) and isinstance(tg.value, ast.Name) and tg.value.id == p:
                        return True
        return False

    def _guard_minlen(self, fi: FuncInfo, e: ast.AST, node) -> int:
        ks = self.keys(fi, e, node)

        def is_len(x):
            return isinstance(x, ast.Call) and dotted(x.func) == "len" and len(x.args) == 1 and norm(x.args[0]) in ks

        best = 0
        for at in self.atoms(fi, node):
            v = 0
            if at.op == "truthy" and at.truth:
                if norm(at.a) in ks:
                    v = 1
                elif isinstance(at.a, ast.Call) and isinstance(at.a.func, ast.Attribute) and at.a.func.attr in ("startswith", "endswith") and norm(at.a.func.value) in ks and len(at.a.args) == 1 and const_text(at.a.args[0]):
                    v = len(const_text(at.a.args[0]))
            elif at.op == "lt":
                if is_len(at.a) and const_int(at.b) is not None and not at.truth:
                    v = const_int(at.b)
                elif const_int(at.a) is not None and is_len(at.b) and at.truth:
                    v = const_int(at.a) + 1
            elif at.op == "eq":
                for x, y in ((at.a, at.b), (at.b, at.a)):
                    if is_len(x) and const_int(y) is not None and at.truth:
                        v = max(v, const_int(y))
                    c = const_text(y)
                    if c is not None and norm(x) in ks:
                        if at.truth:
                            v = max(v, len(c))
                        elif len(c) == 0:
                            v = max(v, 1)
                    if c and at.truth and isinstance(x, ast.Subscript) and isinstance(x.slice, ast.Slice) and norm(x.value) in ks:
                        v = max(v, len(c))
            elif at.op == "in" and at.truth and norm(at.b) in ks:
                c = const_text(at.a)
                v = 1 if (c is None or len(c) >= 1) else 0  # membership / non-empty substring: the container is not empty
            if v > best and self.fresh(fi, at, node):
                best = v
        return best

    # -- lower bound of an int ------------------------------------------------
    def int_lb(self, fi: FuncInfo, e: ast.AST | None, node, st: St = St()) -> int | None:
        if e is None:
            return None
        key = ("int", fi.fq, ("n:" + e.id) if isinstance(e, ast.Name) else id(e), node.id if node is not None else -1, tuple(id(c[1]) for c in st.cs))
        if key in st.seen:
            return INF
        if len(st.seen) > 400:
            return None
        st = st._replace(seen=st.seen | {key})
        v = self._int_lb(fi, e, node, st)
        if node is not None and isinstance(e, (ast.Name, ast.Attribute, ast.NamedExpr)):
            v = self._guard_int(fi, _unwalrus(e), node, v)
        return v

    def _int_lb(self, fi, e, node, st) -> int | None:
        c = const_int(e)
        if c is not None:
            return c
        if isinstance(e, ast.NamedExpr):
            return self.int_lb(fi, e.value, node, st)
        if isinstance(e, ast.BinOp) and isinstance(e.op, (ast.Add, ast.Sub)):
            a = self.int_lb(fi, e.left, node, st)
            if isinstance(e.op, ast.Add):
                b = self.int_lb(fi, e.right, node, st)
                return None if a is None or b is None else min(INF, a + b)
            cr = const_int(e.right)
            return None if a is None or cr is None else (a - cr if a < INF else INF)
        if isinstance(e, ast.IfExp):
            a, b = self.int_lb(fi, e.body, node, st), self.int_lb(fi, e.orelse, node, st)
            return None if a is None or b is None else min(a, b)
        if isinstance(e, ast.Call):
            d = dotted(e.func)
            if d == "len" and len(e.args) == 1:
                return self.minlen(fi, e.args[0], node, (), St(st.cs, frozenset(), st.hops))
            if d in ("max",) and e.args and not e.keywords:
                ks = [self.int_lb(fi, a, node, st) for a in e.args]
                ks = [k for k in ks if k is not None]
                return max(ks) if ks else None
            if d in ("min",) and e.args and not e.keywords:
                ks = [self.int_lb(fi, a, node, st) for a in e.args]
                return None if any(k is None for k in ks) else min(ks)
            if isinstance(e.func, ast.Attribute):
                m = e.func.attr
                if m in ("find", "rfind"):
                    return -1
                if m in ("index", "rindex", "count"):
                    return 0
                if m in ("start", "end") and not e.args and self.regex_of_match(fi, e.func.value, node, st) is not None:
                    return 0
            gs = self.resolve_callee(fi, e)
            if gs:
                vals = []
                for g in gs:
                    if any(isinstance(x, (ast.Yield, ast.YieldFrom)) for x in walk_no_nested(g.node)):
                        return None
                    st2 = st._replace(cs=st.cs + ((fi, e, g),))
                    if len(st2.cs) > 3:
                        return None
                    rets = astq.returns_of(g.node)
                    if not rets:
                        return None
                    for r in rets:
                        vals.append(self.int_lb(g, r.value, cfg_of(g).node_of(r), st2) if r.value is not None else None)
                return None if any(v is None for v in vals) else min(vals)
            return None
        if isinstance(e, ast.Name):
            if node is None:
                return None
            defs = self.rd(fi).reaching(node, e.id)
            if not defs:
                return None
            vals = []
            for d_ in defs:
                if d_.kind in ("assign", "walrus") and d_.index is None and d_.value is not None:
                    vals.append(self.int_lb(fi, d_.value, d_.node, st))
                elif d_.kind == "aug" and isinstance(d_.stmt, ast.AugAssign) and isinstance(d_.stmt.op, ast.Add):
                    inc = self.int_lb(fi, d_.value, d_.node, st)
                    prev = self.int_lb(fi, ast.Name(e.id, ast.Load()), d_.node, st) if inc is not None and inc >= 0 else None
                    vals.append(None if prev is None or inc is None else (INF if prev >= INF else prev + inc))
                elif d_.kind == "param":
                    srcs = self.param_sources(fi, d_.name, st)
                    if srcs is None:
                        vals.append(None)
                    else:
                        for f2, x, n2, s2 in srcs:
                            vals.append(self.int_lb(f2, x, n2, s2))
                else:
                    vals.append(None)
            return None if any(v is None for v in vals) else min(vals)
        return None

    def _guard_int(self, fi, e, node, v: int | None) -> int | None:
        ks = self.keys(fi, e, node)
        best = v
        for at in self.atoms(fi, node):
            cand = None
            if at.op == "lt":
                if norm(at.a) in ks and const_int(at.b) is not None and not at.truth:
                    cand = const_int(at.b)
                elif const_int(at.a) is not None and norm(at.b) in ks and at.truth:
                    cand = const_int(at.a) + 1
            elif at.op == "eq":
                for x, y in ((at.a, at.b), (at.b, at.a)):
                    if norm(x) in ks and const_int(y) is not None:
                        if at.truth:
                            cand = const_int(y)
                        elif best is not None and best == const_int(y):
                            cand = best + 1
            if cand is not None and (best is None or cand > best) and self.fresh(fi, at, node):
                best = cand
        return best

    # -- integers parsed from client text, without an upper bound ---------------------
    def unbounded_client_int(self, fi: FuncInfo, e: ast.AST | None, node, st: St = St()) -> bool:
        """e PROVABLY flows from a text -> int conversion (int(<text>), a package helper returning one) through
        arithmetic, max(), attributes assigned from constructor parameters and parameter binding, and no upper bound is
        established on the way (min() with a bounded operand, a dominating comparison with a bounded value).
        Unknown origins answer False: this only ever adds a finding."""
        if e is None:
            return False
        key = ("ub", fi.fq, ("n:" + e.id) if isinstance(e, ast.Name) else norm(e) if isinstance(e, ast.Attribute) else id(e), node.id if node is not None else -1, tuple(id(c[1]) for c in st.cs))
        if key in st.seen or len(st.seen) > 300:
            return False
        st = st._replace(seen=st.seen | {key})
        ub = self.unbounded_client_int
        if isinstance(e, ast.Constant):
            return False
        if isinstance(e, ast.NamedExpr):
            return ub(fi, e.value, node, st)
        if isinstance(e, ast.IfExp):
            return ub(fi, e.body, node, st) or ub(fi, e.orelse, node, st)
        if isinstance(e, ast.BinOp) and isinstance(e.op, (ast.Add, ast.Sub, ast.Mult)):
            return ub(fi, e.left, node, st) or ub(fi, e.right, node, st)
        if isinstance(e, ast.Call):
            d = dotted(e.func)
            li = fi.module.local_imports(fi.node)
            fq = self.repo.resolve(fi.module, d, li) if d else None
            if fq == "builtins.int" and e.args and not isinstance(e.args[0], (ast.Constant, ast.BinOp)) and not (isinstance(e.args[0], ast.Call) and (dotted(e.args[0].func) or "").rsplit(".", 1)[-1] in ("len", "total_seconds", "time", "timestamp", "round", "floor")):
                return True
            if fq == "builtins.len":
                return False
            if fq == "builtins.max" and e.args and not e.keywords:
                return any(ub(fi, a, node, st) for a in e.args)
            if fq == "builtins.min" and e.args and not e.keywords:
                return all(ub(fi, a, node, st) for a in e.args)
            for g in self.resolve_callee(fi, e):
                st2 = st._replace(cs=st.cs + ((fi, e, g),))
                if len(st2.cs) > 4:
                    continue
                for r in astq.returns_of(g.node):
                    if r.value is not None and ub(g, r.value, cfg_of(g).node_of(r), st2):
                        return True
            return False
        if isinstance(e, (ast.Name, ast.Attribute)) and node is not None:
            if self._upper_bounded(fi, e, node, st):
                return False
        if isinstance(e, ast.Name):
            if node is None:
                return False
            for d_ in self.rd(fi).reaching(node, e.id):
                if d_.kind in ("assign", "walrus") and d_.index is None and d_.value is not None:
                    if ub(fi, d_.value, d_.node, st):
                        return True
                elif d_.kind == "aug" and d_.value is not None:
                    if ub(fi, d_.value, d_.node, st) or ub(fi, ast.Name(e.id, ast.Load()), d_.node, st):
                        return True
                elif d_.kind == "param":
                    srcs = self.param_sources(fi, d_.name, st)
                    for f2, x, n2, s2 in srcs or []:
                        if ub(f2, x, n2, s2):
                            return True
            return False
        if isinstance(e, ast.Attribute) and fi.cls is not None and fi.params and astq.is_self_attr(e, None, fi.params[0]):
            classes = [k for k in self.repo.mro(fi.cls) if isinstance(k, ClassInfo)] + list(self.repo.subclasses(fi.cls.fq))
            for k in classes:
                for m in k.methods.values():
                    sn = m.params[0] if m.params else "self"
                    for s_ in walk_no_nested(m.node):
                        if isinstance(s_, (ast.Assign, ast.AnnAssign)) and getattr(s_, "value", None) is not None:
                            tgs = s_.targets if isinstance(s_, ast.Assign) else [s_.target]
                            if any(astq.is_self_attr(tg, e.attr, sn) for tg in tgs):
                                if ub(m, s_.value, cfg_of(m).node_of(s_), St((), st.seen, st.hops + 1)):
                                    return True
            return False
        return False

    def _upper_bounded(self, fi: FuncInfo, e: ast.AST, node, st: St) -> bool:
        ks = self.keys(fi, e, node)
        for at in self.atoms(fi, node):
            other = None
            if at.op == "lt" and at.truth and norm(at.a) in ks:
                other = at.b  # e < B
            elif at.op == "lt" and not at.truth and norm(at.b) in ks:
                other = at.a  # not (B < e)
            elif at.op == "eq" and at.truth:
                other = at.b if norm(at.a) in ks else at.a if norm(at.b) in ks else None
            if other is not None and not self.unbounded_client_int(fi, other, at.test, st) and self.fresh(fi, at, node):
                return True
        return False

    # -- constants known to occur inside a string ---------------------------------
    def contained(self, fi: FuncInfo, e: ast.AST | None, node, st: St = St()) -> set:
        """constant substrings c with `c in <e>` established (guards, reaching definitions, callers)."""
        if e is None or node is None:
            return set()
        key = ("in", fi.fq, ("n:" + e.id) if isinstance(e, ast.Name) else id(e), node.id, tuple(id(c[1]) for c in st.cs))
        if key in st.seen or len(st.seen) > 400:
            return set()
        st = st._replace(seen=st.seen | {key})
        out: set = set()
        ks = self.keys(fi, e, node)
        for at in self.atoms(fi, node):
            if at.op == "in" and at.truth and norm(at.b) in ks and const_text(at.a) and self.fresh(fi, at, node):
                out.add(const_text(at.a))
        if isinstance(e, ast.Call) and isinstance(e.func, ast.Attribute) and not e.args and not e.keywords:
            inner = self.contained(fi, e.func.value, node, st)
            if e.func.attr in _CASE_METHODS:
                out |= {c for c in inner if c.lower() == c == c.upper()}
            elif e.func.attr in ("strip", "lstrip", "rstrip"):
                if self.stripped(fi, e.func.value, node):
                    out |= inner
                else:
                    out |= {c for c in inner if c.strip() == c}
        elif isinstance(e, ast.Name):
            defs = self.rd(fi).reaching(node, e.id)
            sets = []
            for d_ in defs:
                if d_.kind in ("assign", "walrus") and d_.index is None and d_.value is not None:
                    sets.append(self.contained(fi, d_.value, d_.node, st))
                elif d_.kind == "param":
                    srcs = self.param_sources(fi, d_.name, st)
                    if srcs is None:
                        sets.append(set())
                    else:
                        for f2, x, n2, s2 in srcs:
                            sets.append(self.contained(f2, x, n2, s2))
                else:
                    sets.append(set())
            if sets:
                out |= set.intersection(*sets)
        return out

    def stripped(self, fi: FuncInfo, e: ast.AST, node) -> bool:
        """e's value is already the result of a no-argument strip() (so e.strip() == e)."""
        if isinstance(e, ast.Call) and isinstance(e.func, ast.Attribute) and e.func.attr == "strip" and not e.args:
            return True
        if isinstance(e, ast.Name) and node is not None:
            defs = self.rd(fi).reaching(node, e.id)
            return bool(defs) and all(d_.kind in ("assign", "walrus") and d_.index is None and d_.value is not None and isinstance(d_.value, ast.Call) and isinstance(d_.value.func, ast.Attribute) and d_.value.func.attr == "strip" and not d_.value.args for d_ in defs)
        return False

    # -- dependence on parameters ---------------------------------------------------
    def param_deps(self, fi: FuncInfo, e: ast.AST, node, _seen: frozenset = frozenset()) -> set[str]:
        """parameters of fi that the value of e may depend on (data dependence through local definitions)."""
        out: set[str] = set()
        for n in ast.walk(e):
            if isinstance(n, ast.Name) and isinstance(n.ctx, ast.Load):
                if hasattr(n, "_parent") and bound_in_enclosing_comp(n, stop=fi.node) is not None:
                    continue
                defs = self.rd(fi).reaching(node, n.id) if node is not None else frozenset()
                for d_ in defs:
                    if d_.kind == "param":
                        out.add(d_.name)
                    elif d_.value is not None and d_.node is not None:
                        k = (id(d_.value), d_.node.id)
                        if k not in _seen:
                            out |= self.param_deps(fi, d_.value, d_.node, _seen | {k})
        return out


def _has_anchor(rx: RegexConst) -> bool:
    from .fold import sre_c

    def rec(seq) -> bool:
        for op, av in seq:
            if op in (sre_c.AT, sre_c.ASSERT, sre_c.ASSERT_NOT, sre_c.GROUPREF, sre_c.GROUPREF_EXISTS):
                return True
            if op in (sre_c.MAX_REPEAT, sre_c.MIN_REPEAT) or (hasattr(sre_c, "POSSESSIVE_REPEAT") and op is sre_c.POSSESSIVE_REPEAT):
                if rec(av[2]):
                    return True
            elif op is sre_c.SUBPATTERN:
                if rec(av[3]):
                    return True
            elif op is sre_c.BRANCH:
                if any(rec(b) for b in av[1]):
                    return True
            elif hasattr(sre_c, "ATOMIC_GROUP") and op is sre_c.ATOMIC_GROUP:
                if rec(av):
                    return True
        return False

    return rec(rx.parsed())
