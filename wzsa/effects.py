"""E5: exception-effect analysis.

For every function reachable from a set of entry points over the resolved call
graph, compute which (origin site, exception class) pairs can escape it:

* explicit ``raise X``;
* *modelled* operations of builtins / stdlib (the MODEL table below; each entry
  is a fact about CPython 3.12 with its justification);
* calls into the package (fix-point over the call graph; ``self.m()`` resolved
  in the class's MRO, properties / cached properties / descriptors included);

each filtered through the enclosing ``try`` handlers with the real exception
class lattice (``except UnicodeEncodeError`` does not cover ``UnicodeError``).

Discharge of a modelled site, in this order: covering handler (here or in a
caller on the path), a recognised *guard idiom* that dominates it, or a line in
the rule module's reviewed table (with a machine-checked premise where the
reason depends on other code).
"""

from __future__ import annotations

import ast
import builtins
import typing as t

from . import astq
from .cfg import cfg_of
from .loader import AnalysisError, BuiltinClass, ClassInfo, FuncInfo, Module, Repo, dotted, norm, walk_no_nested

# ---------------------------------------------------------------------
# exception lattice

_EXTRA_BUILTIN = {
    "binascii.Error": "ValueError",
    "json.JSONDecodeError": "ValueError",
    "json.decoder.JSONDecodeError": "ValueError",
    "UnicodeDecodeError": "UnicodeError",
    "UnicodeEncodeError": "UnicodeError",
}


class Lattice:
    def __init__(self, repo: Repo):
        self.repo = repo
        self._http: set[str] = set()
        for c in repo.all_classes():
            if any(k.fq == "werkzeug.exceptions.HTTPException" for k in repo.mro(c)):
                self._http.add(c.fq)

    def canon(self, module: Module, expr: ast.AST | None, local_imports=None) -> str:
        if expr is None:
            return "BaseException"
        if isinstance(expr, ast.Call):
            expr = expr.func
        d = dotted(expr)
        if d is None:
            return "?"
        fq = self.repo.resolve(module, d, local_imports) or d
        if fq.startswith("builtins."):
            return fq[len("builtins."):]
        return fq

    def ancestors(self, name: str) -> list[str]:
        """name and all its base classes (canonical names)."""
        if name.startswith("werkzeug."):
            c = self.repo.try_cls(name)
            if c is None:
                return [name]
            out = []
            for k in self.repo.mro(c):
                fq = k.fq
                if fq.startswith("builtins."):
                    fq = fq[len("builtins."):]
                out.append(fq)
                if isinstance(k, BuiltinClass):
                    out.extend(a for a in self.ancestors(fq) if a not in out)
            return out
        if name in _EXTRA_BUILTIN:
            return [name] + self.ancestors(_EXTRA_BUILTIN[name])
        cls = getattr(builtins, name, None)
        if isinstance(cls, type) and issubclass(cls, BaseException):
            return [k.__name__ for k in cls.__mro__ if k is not object]
        return [name, "Exception", "BaseException"]

    def covers(self, handler: str, exc: str) -> bool:
        return handler in self.ancestors(exc)

    def allowed(self, exc: str) -> bool:
        return exc in self._http or any(a in self._http for a in self.ancestors(exc))


# ---------------------------------------------------------------------
# the library model: operation -> exceptions, with justification

MODEL_DOC = {
    "int": "int(str) raises ValueError for a non-numeric string (and for more than 4300 digits)",
    "float": "float(str) raises ValueError for a non-numeric string",
    "decode": "bytes.decode(enc, errors='strict') raises UnicodeDecodeError; total with errors in {replace, ignore, <registered handler>} or a single-byte total codec (latin-1)",
    "encode": "str.encode('ascii'|'latin1', strict) raises UnicodeEncodeError; codec 'idna' raises UnicodeError (Lib/encodings/idna.py); utf-8 is total without lone surrogates",
    "b64decode": "base64.b64decode raises binascii.Error; for a non-ASCII str argument a bare ValueError (Lib/base64.py _bytes_from_decode_data)",
    "urlsplit": "urllib.parse.urlsplit raises ValueError ('Invalid IPv6 URL', NFKC netloc check)",
    "port": "SplitResult.port raises ValueError for a non-numeric or out-of-range port",
    "parsedate_to_datetime": "email.utils.parsedate_to_datetime raises ValueError for unparsable input, TypeError (<3.10 style None) and OverflowError for a year/hour that does not fit a C int",
    "timedelta": "datetime.timedelta(...) raises OverflowError beyond 999999999 days",
    "next": "next(it) without default raises StopIteration",
    "index": "str/list.index raises ValueError when absent",
    "unpack-split": "unpacking s.split(sep, n) / rsplit into k names raises ValueError when fewer separators are present",
    "const-index": "seq[k] with a constant index raises IndexError on a shorter sequence",
    "match-attr": "re.Pattern.match/search/fullmatch return None: .group()/.end()/.groups() on it raises AttributeError",
    "assert": "assert raises AssertionError",
    "enum": "Enum(value) raises ValueError for an unknown value",
    "lookup": "codecs.lookup raises LookupError for an unknown codec name",
    "to_bytes": "int.to_bytes(1, ...) raises OverflowError for values >= 256",
    "loads": "json.loads raises ValueError (JSONDecodeError)",
    "fromtimestamp": "datetime.fromtimestamp raises OverflowError / OSError / ValueError out of range",
}


class Site(t.NamedTuple):
    func: FuncInfo
    node: ast.AST
    kind: str  # 'raise' | model key
    exc: str
    text: str


def _enc_arg(c: ast.Call) -> str | None:
    e = astq.arg_or_kw(c, 0, "encoding")
    if e is None:
        return "utf-8"
    return astq.const_str(e).lower().replace("_", "-") if astq.const_str(e) is not None else None


def _err_arg(c: ast.Call) -> str | None:
    e = astq.arg_or_kw(c, 1, "errors")
    if e is None:
        return "strict"
    return astq.const_str(e)


class Effects:
    def __init__(self, repo: Repo, registered_error_handlers: set[str]):
        self.repo = repo
        self.lat = Lattice(repo)
        self.handlers_ok = {"replace", "ignore", "backslashreplace", "xmlcharrefreplace", "surrogateescape", "surrogatepass"} | registered_error_handlers
        self._sites: dict[str, list[Site]] = {}
        self._calls: dict[str, list[tuple[FuncInfo, ast.AST]]] = {}
        self._esc: dict[str, set[tuple[Site, str]]] = {}
        self.unresolved: dict[str, list[str]] = {}
        # `if <guard>: raise` inside a handler is treated as dead when the rule has established that the guard is false
        # on every path from its entry points (set by the rule module together with a recorded obligation)
        self.dead_reraise_guards: set[str] = set()
        self.enum_classes = {c.fq for c in repo.all_classes() if any(b.fq.endswith("Enum") for b in repo.mro(c)[1:])}

    # -- per function facts ----------------------------------------------
    def sites(self, fi: FuncInfo) -> list[Site]:
        if fi.fq in self._sites:
            return self._sites[fi.fq]
        out: list[Site] = []
        li = fi.module.local_imports(fi.node)
        fn = fi.node

        def add(node, kind, exc):
            out.append(Site(fi, node, kind, exc, norm(node)[:80]))

        for n in walk_no_nested(fn):
            if isinstance(n, ast.Raise):
                if n.exc is None:
                    continue  # bare re-raise handled by handler logic
                add(n, "raise", self.lat.canon(fi.module, n.exc, li))
            elif isinstance(n, ast.Assert):
                add(n, "assert", "AssertionError")
            elif isinstance(n, ast.Call):
                d = dotted(n.func)
                fq = self.repo.resolve(fi.module, d, li) if d else None
                last = (d or "").rsplit(".", 1)[-1]
                if fq in ("builtins.int",) and n.args and not isinstance(n.args[0], ast.Constant):
                    a0 = n.args[0]
                    # int(<float / int expression>) is total; int(str) is not. Numeric when the argument is arithmetic or a len()/total_seconds() call
                    numeric = isinstance(a0, (ast.BinOp,)) or (isinstance(a0, ast.Call) and (dotted(a0.func) or "").rsplit(".", 1)[-1] in ("len", "total_seconds", "time", "timestamp", "mktime", "round", "floor"))
                    if not numeric:
                        add(n, "int", "ValueError")
                elif fq == "builtins.float" and n.args and not isinstance(n.args[0], ast.Constant):
                    add(n, "float", "ValueError")
                elif fq in ("base64.b64decode", "base64.urlsafe_b64decode", "base64.standard_b64decode"):
                    add(n, "b64decode", "binascii.Error")
                    add(n, "b64decode", "ValueError")
                elif fq in ("urllib.parse.urlsplit", "urllib.parse.urlparse"):
                    add(n, "urlsplit", "ValueError")
                elif fq == "email.utils.parsedate_to_datetime":
                    for e in ("ValueError", "TypeError", "OverflowError"):
                        add(n, "parsedate_to_datetime", e)
                elif fq == "datetime.timedelta" and (n.args or n.keywords):
                    if not all(isinstance(a, ast.Constant) for a in list(n.args) + [k.value for k in n.keywords]):
                        add(n, "timedelta", "OverflowError")
                elif fq == "builtins.next" and len(n.args) == 1:
                    add(n, "next", "StopIteration")
                elif fq == "codecs.lookup":
                    add(n, "lookup", "LookupError")
                elif fq in ("json.loads",):
                    add(n, "loads", "ValueError")
                elif fq in self.enum_classes and n.args:
                    add(n, "enum", "ValueError")
                elif isinstance(n.func, ast.Attribute):
                    m = n.func.attr
                    if m == "decode" and not (fq and fq.startswith("werkzeug.")):
                        enc, err = _enc_arg(n), _err_arg(n)
                        total = err in self.handlers_ok or enc in ("latin1", "latin-1", "iso-8859-1", "iso8859-1")
                        if not total:
                            add(n, "decode", "UnicodeError" if enc == "idna" else "UnicodeDecodeError")
                    elif m == "encode" and not (fq and fq.startswith("werkzeug.")):
                        enc, err = _enc_arg(n), _err_arg(n)
                        if enc == "idna":
                            add(n, "encode", "UnicodeError")
                        elif enc not in ("utf-8", "utf8") and err not in self.handlers_ok:
                            add(n, "encode", "UnicodeEncodeError")
                    elif m == "index" and len(n.args) >= 1 and not (fq and fq.startswith("werkzeug.")):
                        add(n, "index", "ValueError")
                    elif m == "to_bytes":
                        add(n, "to_bytes", "OverflowError")
                    elif m in ("fromtimestamp", "utcfromtimestamp"):
                        add(n, "fromtimestamp", "OverflowError")
            elif isinstance(n, ast.Attribute) and n.attr == "port" and isinstance(n.ctx, ast.Load) and not astq.is_self_attr(n):
                add(n, "port", "ValueError")
            elif isinstance(n, ast.Assign) and isinstance(n.targets[0], (ast.Tuple, ast.List)) and isinstance(n.value, ast.Call) and isinstance(n.value.func, ast.Attribute) and n.value.func.attr in ("split", "rsplit"):
                k = len(n.targets[0].elts)
                if not any(isinstance(e, ast.Starred) for e in n.targets[0].elts):
                    add(n, "unpack-split", "ValueError")
            elif isinstance(n, ast.Subscript) and isinstance(n.ctx, ast.Load) and isinstance(n.slice, (ast.Constant, ast.UnaryOp)):
                idx = n.slice
                val = idx.value if isinstance(idx, ast.Constant) else (-idx.operand.value if isinstance(idx, ast.UnaryOp) and isinstance(idx.op, ast.USub) and isinstance(idx.operand, ast.Constant) and isinstance(idx.operand.value, int) else None)
                if isinstance(val, int) and not isinstance(val, bool):
                    add(n, "const-index", "IndexError")
        # match-attr: m = P.match(..); m.group() without a dominating test on m
        for n in walk_no_nested(fn):
            if isinstance(n, ast.Attribute) and n.attr in ("group", "groups", "end", "start", "span", "groupdict") and isinstance(n.value, ast.Name) and isinstance(n.ctx, ast.Load):
                nm = n.value.id
                defs = [v for _, v in astq.assigns_to(fn, nm) if v is not None]
                if defs and all(isinstance(v, ast.Call) and isinstance(v.func, ast.Attribute) and v.func.attr in ("match", "search", "fullmatch") for v in defs):
                    add(n, "match-attr", "AttributeError")
        self._sites[fi.fq] = out
        return out

    # -- call resolution ---------------------------------------------------
    def callees(self, fi: FuncInfo) -> list[tuple[FuncInfo, ast.AST]]:
        if fi.fq in self._calls:
            return self._calls[fi.fq]
        out: list[tuple[FuncInfo, ast.AST]] = []
        li = fi.module.local_imports(fi.node)
        unresolved: list[str] = []
        selfname = fi.params[0] if fi.params and fi.cls is not None else None
        for n in walk_no_nested(fi.node):
            if isinstance(n, ast.Call):
                tg = self._resolve_call(fi, n, li, selfname)
                # a package function passed as an argument (callback of re.sub, map, sorted key ...) may be called
                for a in list(n.args) + [k.value for k in n.keywords]:
                    da = dotted(a)
                    if da and not (selfname and da == selfname):
                        fqa = self.repo.resolve(fi.module, da, li)
                        fa = self.repo.try_func(fqa) if fqa and fqa.startswith("werkzeug.") else None
                        if fa is not None:
                            out.append((fa, n))
                if tg:
                    out.extend((x, n) for x in tg)
                else:
                    d = dotted(n.func)
                    if d is None or (selfname and d.startswith(selfname + ".") and d.count(".") == 1):
                        unresolved.append(norm(n.func)[:40])
            elif isinstance(n, ast.Attribute) and isinstance(n.ctx, ast.Load) and selfname and isinstance(n.value, ast.Name) and n.value.id == selfname and fi.cls is not None:
                # property / cached_property / descriptor on self
                for g in self._getters(fi.cls, n.attr):
                    out.append((g, n))
        self._calls[fi.fq] = out
        self.unresolved[fi.fq] = unresolved
        return out

    def _getters(self, cls: ClassInfo, attr: str) -> list[FuncInfo]:
        owner, what = self.repo.lookup(cls, attr)
        res: list[FuncInfo] = []
        if isinstance(what, FuncInfo):
            decs = what.decorators
            if any(d.rsplit(".", 1)[-1] in ("property", "cached_property") for d in decs):
                res.append(what)
        elif isinstance(what, ast.Call):
            f = what.func.value if isinstance(what.func, ast.Subscript) else what.func
            dn = dotted(f)
            if dn and dn.rsplit(".", 1)[-1] in ("header_property", "environ_property"):
                res.extend(self.descriptor_funcs(owner, what))
        # overriding subclasses (the entry class may be a subclass)
        return res

    def descriptor_funcs(self, owner, call: ast.Call) -> list[FuncInfo]:
        """functions run by reading a header_property/environ_property: its load_func (when a package function)."""
        res = []
        load = astq.arg_or_kw(call, 2, "load_func")
        if load is not None:
            d = dotted(load)
            if d and isinstance(owner, ClassInfo):
                fq = self.repo.resolve(owner.module, d)
                f = self.repo.try_func(fq) if fq and fq.startswith("werkzeug.") else None
                if f is not None:
                    res.append(f)
        return res

    def _resolve_call(self, fi: FuncInfo, n: ast.Call, li, selfname) -> list[FuncInfo]:
        f = n.func
        d = dotted(f)
        if d is None:
            # super().m(...)
            if isinstance(f, ast.Attribute) and isinstance(f.value, ast.Call) and dotted(f.value.func) == "super" and fi.cls is not None:
                o, w = self.repo.lookup(fi.cls, f.attr, after=fi.cls.fq)
                return [w] if isinstance(w, FuncInfo) else []
            return []
        if selfname and d.startswith(selfname + ".") and d.count(".") == 1 and fi.cls is not None:
            name = d.split(".", 1)[1]
            res = []
            o, w = self.repo.lookup(fi.cls, name)
            if isinstance(w, FuncInfo):
                res.append(w)
            elif isinstance(w, ast.AST) and not isinstance(w, ast.Call) and dotted(w) and isinstance(o, ClassInfo):
                fqc = self.repo.resolve(o.module, dotted(w))
                c = self.repo.try_cls(fqc) if fqc and fqc.startswith("werkzeug.") else None
                if c is not None:
                    for nm in ("__init__", "__new__"):
                        o2, w2 = self.repo.lookup(c, nm)
                        if isinstance(w2, FuncInfo):
                            res.append(w2)
                    return res
            for sub in self.repo.subclasses(fi.cls.fq):
                if name in sub.methods and sub.methods[name] not in res:
                    res.append(sub.methods[name])
            return res
        # <local>(...) where the local is bound to bound methods of self: parse_func = self._parse_multipart
        if "." not in d and selfname and fi.cls is not None:
            defs = [v for _, v in astq.assigns_to(fi.node, d)]
            if defs and all(v is not None and astq.is_self_attr(v, None, selfname) for v in defs):
                res = []
                for v in defs:
                    o, w = self.repo.lookup(fi.cls, v.attr)  # type: ignore[union-attr]
                    if isinstance(w, FuncInfo) and w not in res:
                        res.append(w)
                if res:
                    return res
        # <local>.method(...) where the local is bound to an instance of a package class
        if "." in d and not d.startswith((selfname or "\0") + "."):
            head, _, meth = d.partition(".")
            if "." not in meth:
                c = self._local_class(fi, head, li)
                if c is not None:
                    o, w = self.repo.lookup(c, meth)
                    if isinstance(w, FuncInfo):
                        res = [w]
                        for sub in self.repo.subclasses(c.fq):
                            if meth in sub.methods and sub.methods[meth] not in res:
                                res.append(sub.methods[meth])
                        return res
        fq = self.repo.resolve(fi.module, d, li)
        if not fq or not fq.startswith("werkzeug."):
            return []
        fn = self.repo.try_func(fq)
        if fn is not None:
            return [fn]
        c = self.repo.try_cls(fq)
        if c is not None:
            res = []
            for nm in ("__init__", "__new__"):
                o, w = self.repo.lookup(c, nm)
                if isinstance(w, FuncInfo):
                    res.append(w)
            return res
        # Class.method / module.Class.method
        head, _, meth = fq.rpartition(".")
        c = self.repo.try_cls(head)
        if c is not None:
            o, w = self.repo.lookup(c, meth)
            if isinstance(w, FuncInfo):
                return [w]
        return []

    def _class_of_expr(self, fi: FuncInfo, v: ast.AST | None, li) -> ClassInfo | None:
        """class of the instance an expression evaluates to, for: ClassName(...), self.<attr holding a class>(...),
        f(...) / self.m(...) with a return annotation naming a package class."""
        if not isinstance(v, ast.Call):
            return None
        d = dotted(v.func)
        if d is None:
            return None
        selfname = fi.params[0] if fi.params and fi.cls is not None else None
        if selfname and d.startswith(selfname + ".") and d.count(".") == 1 and fi.cls is not None:
            name = d.split(".", 1)[1]
            o, w = self.repo.lookup(fi.cls, name)
            if isinstance(w, ast.AST) and not isinstance(w, ast.Call):
                dn = dotted(w)
                if dn and isinstance(o, ClassInfo):
                    fq = self.repo.resolve(o.module, dn)
                    return self.repo.try_cls(fq) if fq and fq.startswith("werkzeug.") else None
            if isinstance(w, FuncInfo):
                return self._ret_class(w)
            return None
        fq = self.repo.resolve(fi.module, d, li)
        if not fq or not fq.startswith("werkzeug."):
            return None
        c = self.repo.try_cls(fq)
        if c is not None:
            return c
        f = self.repo.try_func(fq)
        return self._ret_class(f) if f is not None else None

    def _ret_class(self, f: FuncInfo) -> ClassInfo | None:
        ann = getattr(f.node, "returns", None)
        dn = dotted(ann) if ann is not None else None
        if dn:
            fq = self.repo.resolve(f.module, dn)
            return self.repo.try_cls(fq) if fq and fq.startswith("werkzeug.") else None
        return None

    def _local_class(self, fi: FuncInfo, name: str, li) -> ClassInfo | None:
        defs = [v for _, v in astq.assigns_to(fi.node, name)]
        if not defs:
            return None
        cs = [self._class_of_expr(fi, v, li) for v in defs]
        if all(c is not None for c in cs) and len({c.fq for c in cs}) == 1:
            return cs[0]
        return None

    # -- handler filtering -------------------------------------------------
    def uncaught(self, fi: FuncInfo, node: ast.AST, exc: str) -> bool:
        """does `exc` raised at `node` escape fi (considering enclosing try/except, bare re-raise)?"""
        li = None
        cur = node
        parent = astq.parent(cur)
        while parent is not None and cur is not fi.node:
            if isinstance(parent, ast.Try):
                in_body = any(cur is s for s in parent.body)
                if in_body:
                    for h in parent.handlers:
                        if li is None:
                            li = fi.module.local_imports(fi.node)
                        types = [self.lat.canon(fi.module, e, li) for e in (h.type.elts if isinstance(h.type, ast.Tuple) else [h.type])] if h.type is not None else ["BaseException"]
                        if any(self.lat.covers(tn, exc) for tn in types):
                            # caught; does the handler re-raise it bare?
                            rer = [x for s in h.body for x in [s, *walk_no_nested(s)] if isinstance(x, ast.Raise) and x.exc is None]
                            live = []
                            for x in rer:
                                g = astq.enclosing(x, (ast.If,))
                                dead = isinstance(g, ast.If) and any(x is y for st in g.body for y in [st, *walk_no_nested(st)]) and norm(g.test) in self.dead_reraise_guards and any(g is y for st in h.body for y in [st, *walk_no_nested(st)])
                                if not dead:
                                    live.append(x)
                            if live:
                                break  # continues outward from the try statement
                            return False
                    # not caught (or re-raised): continue outward
            cur = parent
            parent = astq.parent(cur)
        return True

    # -- fix point ---------------------------------------------------------
    def escapes(self, roots: list[FuncInfo]) -> dict[str, set[tuple[Site, str]]]:
        """fq -> {(origin site, exception)} escaping that function, for everything reachable from roots."""
        reach: dict[str, FuncInfo] = {}
        stack = list(roots)
        while stack:
            f = stack.pop()
            if f.fq in reach:
                continue
            reach[f.fq] = f
            for g, _ in self.callees(f):
                stack.append(g)
        esc: dict[str, set[tuple[Site, str]]] = {fq: set() for fq in reach}
        for fq, f in reach.items():
            for s in self.sites(f):
                if self.uncaught(f, s.node, s.exc):
                    esc[fq].add((s, s.exc))
        changed = True
        while changed:
            changed = False
            for fq, f in reach.items():
                for g, node in self.callees(f):
                    for s, e in list(esc[g.fq]):
                        if (s, e) not in esc[fq] and self.uncaught(f, node, e):
                            esc[fq].add((s, e))
                            changed = True
        self.reach = reach
        self._esc = esc
        return esc

    def chain(self, root: FuncInfo, site: Site, exc: str) -> list[str]:
        """one call chain root -> ... -> site.func along which exc escapes."""
        target = site.func.fq
        prev: dict[str, str | None] = {root.fq: None}
        q = [root]
        while q:
            f = q.pop(0)
            if f.fq == target:
                out = []
                cur: str | None = f.fq
                while cur is not None:
                    out.append(cur)
                    cur = prev[cur]
                return list(reversed(out))
            for g, node in self.callees(f):
                if g.fq in prev or (site, exc) not in self._esc.get(g.fq, ()):  # only along escaping edges
                    continue
                if not self.uncaught(f, node, exc):
                    continue
                prev[g.fq] = f.fq
                q.append(g)
        return [root.fq, "...", target]
