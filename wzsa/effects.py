"""E5: exception-effect analysis.

For every function reachable from a set of entry points over the resolved call
graph, compute which (origin site, exception class) pairs can escape it:

* explicit ``raise X``;
* *modelled* operations of builtins / stdlib (the MODEL table below; each entry
  is a fact about CPython 3.12 with its justification);
* calls into the package (fix-point over the call graph; ``self.m()`` resolved
  in the class's MRO, properties / cached properties / descriptors included);

each filtered through the enclosing ``try`` handlers with the real exception
class lattice (``except UnicodeEncodeError`` does not cover ``UnicodeError``).

Discharge of a modelled site, in this order: covering handler (here or in a
caller on the path), a recognised *guard idiom* that dominates it, or a line in
the rule module's reviewed table (with a machine-checked premise where the
reason depends on other code).
"""

from __future__ import annotations

import ast
import builtins
import re
import typing as t

from . import astq
from .cfg import cfg_of
from .loader import AnalysisError, BuiltinClass, ClassInfo, FuncInfo, Module, Repo, dotted, norm, walk_no_nested

# ---------------------------------------------------------------------
# exception lattice

_EXTRA_BUILTIN = {
    "binascii.Error": "ValueError",
    "json.JSONDecodeError": "ValueError",
    "json.decoder.JSONDecodeError": "ValueError",
    "UnicodeDecodeError": "UnicodeError",
    "UnicodeEncodeError": "UnicodeError",
}


class Lattice:
    def __init__(self, repo: Repo):
        self.repo = repo
        self._http: set[str] = set()
        for c in repo.all_classes():
            if any(k.fq == "werkzeug.exceptions.HTTPException" for k in repo.mro(c)):
                self._http.add(c.fq)

    def canon(self, module: Module, expr: ast.AST | None, local_imports=None) -> str:
        if expr is None:
            return "BaseException"
        if isinstance(expr, ast.Call):
            expr = expr.func
        d = dotted(expr)
        if d is None:
            return "?"
        fq = self.repo.resolve(module, d, local_imports) or d
        if fq.startswith("builtins."):
            return fq[len("builtins."):]
        return fq

    def ancestors(self, name: str) -> list[str]:
        """name and all its base classes (canonical names)."""
        if name.startswith("werkzeug."):
            c = self.repo.try_cls(name)
            if c is None:
                return [name]
            out = []
            for k in self.repo.mro(c):
                fq = k.fq
                if fq.startswith("builtins."):
                    fq = fq[len("builtins."):]
                out.append(fq)
                if isinstance(k, BuiltinClass):
                    out.extend(a for a in self.ancestors(fq) if a not in out)
            return out
        if name in _EXTRA_BUILTIN:
            return [name] + self.ancestors(_EXTRA_BUILTIN[name])
        cls = getattr(builtins, name, None)
        if isinstance(cls, type) and issubclass(cls, BaseException):
            return [k.__name__ for k in cls.__mro__ if k is not object]
        return [name, "Exception", "BaseException"]

    def covers(self, handler: str, exc: str) -> bool:
        return handler in self.ancestors(exc)

    def allowed(self, exc: str) -> bool:
        return exc in self._http or any(a in self._http for a in self.ancestors(exc))


# ---------------------------------------------------------------------
# the library model: operation -> exceptions, with justification

MODEL_DOC = {
    "int": "int(str) raises ValueError for a non-numeric string (and for more than 4300 digits)",
    "float": "float(str) raises ValueError for a non-numeric string",
    "decode": "bytes.decode(enc, errors='strict') raises UnicodeDecodeError; total with errors in {replace, ignore, <registered handler>} or a single-byte total codec (latin-1)",
    "encode": "str.encode('ascii'|'latin1', strict) raises UnicodeEncodeError; codec 'idna' raises UnicodeError (Lib/encodings/idna.py); utf-8 is total without lone surrogates",
    "b64decode": "base64.b64decode raises binascii.Error; for a non-ASCII str argument a bare ValueError (Lib/base64.py _bytes_from_decode_data)",
    "urlsplit": "urllib.parse.urlsplit raises ValueError ('Invalid IPv6 URL', NFKC netloc check)",
    "port": "SplitResult.port raises ValueError for a non-numeric or out-of-range port",
    "parsedate_to_datetime": "email.utils.parsedate_to_datetime raises ValueError for unparsable input, TypeError (<3.10 style None) and OverflowError for a year/hour that does not fit a C int",
    "timedelta": "datetime.timedelta(...) raises OverflowError beyond 999999999 days",
    "next": "next(it) without default raises StopIteration",
    "index": "str/list.index raises ValueError when absent",
    "unpack-split": "unpacking s.split(sep, n) / rsplit into k names raises ValueError when fewer separators are present",
    "const-index": "seq[k] with a constant index raises IndexError on a shorter sequence",
    "match-attr": "re.Pattern.match/search/fullmatch return None: .group()/.end()/.groups() on it raises AttributeError, m[k] TypeError",
    "assert": "assert raises AssertionError",
    "enum": "Enum(value) raises ValueError for an unknown value",
    "nested-def": "a nested `def` whose name has no other binding in the enclosing function is followed like any callee at the places where the enclosing function calls it by name or passes it as an argument (callbacks of re.sub / sorted / map); closures that are returned or stored and called later by someone else are followed from the entry point that calls them, not from here",
    "lookup": "codecs.lookup raises LookupError for an unknown codec name and, for a non-constant name, ValueError when the name contains a NUL (the C argument converter: 'embedded null character')",
    "to_bytes": "int.to_bytes(1, ...) raises OverflowError for values >= 256",
    "loads": "json.loads raises ValueError (JSONDecodeError)",
    "fromtimestamp": "datetime.fromtimestamp raises OverflowError / OSError / ValueError out of range",
    "size": "<stream>.read(n) / bytearray(n) / bytes(n) convert n to a C ssize_t and allocate n bytes: OverflowError (or MemoryError) for an arbitrarily large n; modelled only where n provably flows, without an upper bound, from a text -> int conversion",
    "datetime-range": "operations that move a datetime fail at the ends of datetime.min..max (CPython Modules/_datetimemodule.c: 'date value out of range', 'year 0 is out of range'): "
    "d.astimezone(tz) / d.utctimetuple() subtract d's UTC offset (OverflowError; astimezone of a naive d first looks up the local zone with the platform's localtime: also ValueError); "
    "d + timedelta / d - timedelta / d += ... (OverflowError); d.replace(year= / month= / day=) re-validates the date against d's other fields (ValueError, e.g. Feb 29); "
    "d.timestamp() of a naive d goes through local time (OverflowError / ValueError; total for an aware d: (d - epoch).total_seconds());. "
    "Modelled only where the receiver provably may hold a datetime that a parser built from external text / numbers (email.utils.parsedate_to_datetime, datetime.strptime / "
    "fromisoformat / fromtimestamp / utcfromtimestamp, or a package function / property / header_property returning one): such a value lies anywhere in the range, ends "
    "included, with any UTC offset. datetime.now() and application-supplied datetimes are not at the range ends (outside the property's input domain)",
    "rawio-dispatch": "io.RawIOBase.read(n) calls self.readall() for n < 0 and self.readinto(bytearray(n)) otherwise (CPython Modules/_io/iobase.c)",
}


class Site(t.NamedTuple):
    func: FuncInfo
    node: ast.AST
    kind: str  # 'raise' | model key
    exc: str
    text: str


# the spellings of a codec name (Lib/encodings/aliases.py), lower-cased and with `_` written as `-`
_ASCII_CODECS = {"ascii", "us-ascii", "646", "ansi-x3.4-1968", "iso646-us", "us", "cp367", "ibm367"}
_LATIN1_CODECS = {"latin1", "latin-1", "latin", "l1", "iso-8859-1", "iso8859-1", "iso8859", "8859", "cp819", "ibm819", "iso-ir-100"}
_UTF8_CODECS = {"utf-8", "utf8", "u8", "utf", "utf8-ucs2", "utf8-ucs4", "cp65001"}
# (_ASCII_COMPATIBLE, below: codecs that map ASCII text to the same bytes and back; idna is not one - it also limits the
# length of a label)
_UNBOUND_CODEC_TYPES = ("bytes", "bytearray", "str")
_CODECS_FUNCS = ("codecs.decode", "codecs.encode")


def _arg(c: ast.Call, pos: int, name: str) -> ast.AST | None:
    """the argument at a position / under a keyword, a literal `**{"name": value}` display counting as the keyword."""
    v = astq.arg_or_kw(c, pos, name)
    if v is not None:
        return v
    for kw in c.keywords:
        if kw.arg is None and isinstance(kw.value, ast.Dict):
            for k, val in zip(kw.value.keys, kw.value.values):
                if k is not None and astq.const_str(k) == name:
                    return val
    return None


def _keyword_names(c: ast.Call) -> list[str | None]:
    """the keyword names a call passes, a literal `**{"name": ...}` display counting as its keys; None for any other `**`."""
    out: list[str | None] = []
    for kw in c.keywords:
        if kw.arg is None and isinstance(kw.value, ast.Dict) and all(k is not None and astq.const_str(k) is not None for k in kw.value.keys):
            out.extend(astq.const_str(k) for k in kw.value.keys)
        else:
            out.append(kw.arg)
    return out


def _opaque_args(c: ast.Call) -> bool:
    """arguments handed over by unpacking something that is not a literal display with constant keys: which parameter gets
    what is not known from the call."""
    if any(isinstance(a, ast.Starred) for a in c.args):
        return True
    for kw in c.keywords:
        if kw.arg is None and not (isinstance(kw.value, ast.Dict) and all(k is not None and astq.const_str(k) is not None for k in kw.value.keys)):
            return True
    return False


def codec_parts(c: ast.AST, fq: str | None = None):
    """(kind, receiver, encoding expression | None, errors expression | None, opaque) for every spelling of a codec call:
    X.decode(enc, err) / X.encode(enc, err); the unbound bytes.decode(X, enc, err) / str.encode(X, enc, err);
    codecs.decode(X, enc, err) / codecs.encode(X, enc, err); str(X, enc, err) / bytes(X, enc, err) / bytearray(X, enc, err).
    `opaque`: some argument is passed by unpacking (an expression that is None may then still be given)."""
    if not isinstance(c, ast.Call):
        return None
    d = dotted(c.func)
    opaque = _opaque_args(c)
    if d in _CODECS_FUNCS or fq in _CODECS_FUNCS:
        kind = (fq or d).rsplit(".", 1)[-1]  # type: ignore[union-attr]
        recv = _arg(c, 0, "obj")
        if recv is None:
            return None
        return kind, recv, _arg(c, 1, "encoding"), _arg(c, 2, "errors"), opaque
    if isinstance(c.func, ast.Attribute) and c.func.attr in ("decode", "encode"):
        if isinstance(c.func.value, ast.Name) and c.func.value.id in _UNBOUND_CODEC_TYPES:
            if not c.args or isinstance(c.args[0], ast.Starred):
                return None
            return c.func.attr, c.args[0], _arg(c, 1, "encoding"), _arg(c, 2, "errors"), opaque
        return c.func.attr, c.func.value, _arg(c, 0, "encoding"), _arg(c, 1, "errors"), opaque
    if d in ("str", "bytes", "bytearray") and c.args and not isinstance(c.args[0], ast.Starred) and (len(c.args) >= 2 or _arg(c, 1, "encoding") is not None or _arg(c, 2, "errors") is not None):
        return ("decode" if d == "str" else "encode"), c.args[0], _arg(c, 1, "encoding"), _arg(c, 2, "errors"), opaque
    return None


def codec_call(c: ast.AST, fq: str | None = None):
    """(kind, receiver, encoding, errors) of a codec call in any spelling (codec_parts); encoding / errors are lower-cased
    constants (defaults utf-8 / strict), None when not constant."""
    cp = codec_parts(c, fq)
    if cp is None:
        return None
    kind, recv, enc_e, err_e, _ = cp
    if enc_e is None:
        enc: str | None = "utf-8"
    else:
        v = astq.const_str(enc_e)
        enc = v.lower().replace("_", "-") if v is not None else None
    return kind, recv, enc, (astq.const_str(err_e) if err_e is not None else "strict")


class Effects:
    def __init__(self, repo: Repo, registered_error_handlers: set[str]):
        self.repo = repo
        self.lat = Lattice(repo)
        self.handlers_ok = {"replace", "ignore", "backslashreplace", "xmlcharrefreplace", "surrogateescape", "surrogatepass"} | registered_error_handlers
        self._sites: dict[str, list[Site]] = {}
        self._calls: dict[str, list[tuple[FuncInfo, ast.AST]]] = {}
        self._esc: dict[str, set[tuple[Site, str]]] = {}
        self.unresolved: dict[str, list[str]] = {}
        # `if <guard>: raise` inside a handler is treated as dead when the rule has established that the guard is false
        # on every path from its entry points (set by the rule module together with a recorded obligation)
        self.dead_reraise_guards: set[str] = set()
        self.dead_reraises: set[int] = set()  # id() of bare `raise` statements the rule has shown to be dead
        # optional predicate (fi, call, size expression) -> bool: the size argument provably flows, unbounded, from a
        # parsed client integer (set by the rule module once the call graph is known)
        self.size_hook: t.Callable[[FuncInfo, ast.Call, ast.AST], bool] | None = None
        # optional (fi, operation node, receiver expression) -> (may hold a datetime parsed from external text / numbers,
        # provably timezone-aware); None = the datetime-range kind is not modelled (set by the rule module, like size_hook)
        self.dt_hook: t.Callable[[FuncInfo, ast.AST, ast.AST], tuple[bool, bool]] | None = None
        # optional (fi, call, errors expression) -> the constant texts a non-constant errors handler may be (None = unknown):
        # the handler is decided by its value, not by being spelled as a literal at the call (set by the rule module)
        self.text_hook: t.Callable[[FuncInfo, ast.Call, ast.AST], set[str] | None] | None = None
        self.enum_classes = {c.fq for c in repo.all_classes() if any(b.fq.endswith("Enum") for b in repo.mro(c)[1:])}

    # -- per function facts ----------------------------------------------
    def sites(self, fi: FuncInfo) -> list[Site]:
        if fi.fq in self._sites:
            return self._sites[fi.fq]
        out: list[Site] = []
        li = fi.module.local_imports(fi.node)
        fn = fi.node

        def add(node, kind, exc):
            out.append(Site(fi, node, kind, exc, norm(node)[:80]))

        def handler(call: ast.Call, err: str | None, e: ast.AST | None) -> str | None:
            """the errors handler of a codec call: the constant, or - for a name / conditional expression / parameter whose
            possible values are all known and all total - one of them; None when it may be something that raises."""
            if err is not None or self.text_hook is None:
                return err
            vals = self.text_hook(fi, call, e) if e is not None else None
            if vals and all(v in self.handlers_ok for v in vals):
                return sorted(vals)[0]
            return None

        def codec_site(n: ast.Call, fq: str | None) -> None:
            cp = codec_parts(n, fq)
            if cp is None:
                return
            kind, _recv, enc, err = codec_call(n, fq)
            if cp[4] and (cp[2] is None or cp[3] is None):
                raise AnalysisError(f"{fi.qualname}: `{norm(n)[:60]}` passes its arguments by unpacking: the codec / errors handler is not known")
            err = handler(n, err, cp[3])
            if kind == "decode":
                if not (err in self.handlers_ok or enc in _LATIN1_CODECS):
                    add(n, "decode", "UnicodeError" if enc == "idna" else "UnicodeDecodeError")
            elif enc == "idna":
                add(n, "encode", "UnicodeError")
            elif enc not in _UTF8_CODECS and err not in self.handlers_ok:
                add(n, "encode", "UnicodeEncodeError")

        for n in walk_no_nested(fn):
            if isinstance(n, ast.Raise):
                if n.exc is None:
                    continue  # bare re-raise handled by handler logic
                add(n, "raise", self.lat.canon(fi.module, n.exc, li))
            elif isinstance(n, ast.Assert):
                add(n, "assert", "AssertionError")
            elif isinstance(n, ast.Call):
                d = dotted(n.func)
                fq = self.repo.resolve(fi.module, d, li) if d else None
                last = (d or "").rsplit(".", 1)[-1]
                if fq in ("builtins.int",) and n.args and not isinstance(n.args[0], ast.Constant):
                    a0 = n.args[0]
                    # int(<float / int expression>) is total; int(str) is not. Numeric when the argument is arithmetic or a len()/total_seconds() call
                    numeric = isinstance(a0, (ast.BinOp,)) or (isinstance(a0, ast.Call) and (dotted(a0.func) or "").rsplit(".", 1)[-1] in ("len", "total_seconds", "time", "timestamp", "mktime", "round", "floor"))
                    if not numeric:
                        add(n, "int", "ValueError")
                elif fq == "builtins.float" and n.args and not isinstance(n.args[0], ast.Constant):
                    add(n, "float", "ValueError")
                elif fq in ("base64.b64decode", "base64.urlsafe_b64decode", "base64.standard_b64decode"):
                    add(n, "b64decode", "binascii.Error")
                    add(n, "b64decode", "ValueError")
                elif fq in ("urllib.parse.urlsplit", "urllib.parse.urlparse"):
                    add(n, "urlsplit", "ValueError")
                elif fq == "email.utils.parsedate_to_datetime":
                    for e in ("ValueError", "TypeError", "OverflowError"):
                        add(n, "parsedate_to_datetime", e)
                elif fq == "datetime.timedelta" and (n.args or n.keywords):
                    if not all(isinstance(a, ast.Constant) for a in list(n.args) + [k.value for k in n.keywords]):
                        add(n, "timedelta", "OverflowError")
                elif fq == "builtins.next" and len(n.args) == 1:
                    add(n, "next", "StopIteration")
                elif fq == "codecs.lookup":
                    add(n, "lookup", "LookupError")
                    if not (n.args and isinstance(n.args[0], ast.Constant)):
                        add(n, "lookup", "ValueError")
                elif fq in ("json.loads",):
                    add(n, "loads", "ValueError")
                elif fq in self.enum_classes and n.args:
                    add(n, "enum", "ValueError")
                elif (fq in ("builtins.str", "builtins.bytes", "builtins.bytearray") or fq in _CODECS_FUNCS) and codec_parts(n, fq) is not None:
                    codec_site(n, fq)
                elif fq in ("builtins.bytearray", "builtins.bytes") and len(n.args) == 1 and not n.keywords and not isinstance(n.args[0], ast.Constant):
                    if self.size_hook is not None and self.size_hook(fi, n, n.args[0]):
                        add(n, "size", "OverflowError")
                elif isinstance(n.func, ast.Attribute):
                    m = n.func.attr
                    if m in ("decode", "encode") and not (fq and fq.startswith("werkzeug.")):
                        codec_site(n, fq)
                    elif m == "index" and len(n.args) >= 1 and not (fq and fq.startswith("werkzeug.")):
                        add(n, "index", "ValueError")
                    elif m == "to_bytes":
                        add(n, "to_bytes", "OverflowError")
                    elif m in ("fromtimestamp", "utcfromtimestamp"):
                        add(n, "fromtimestamp", "OverflowError")
                    elif m in ("read", "read1", "readline", "recv") and len(n.args) == 1 and not n.keywords and not isinstance(n.args[0], ast.Constant):
                        if self.size_hook is not None and self.size_hook(fi, n, n.args[0]):
                            add(n, "size", "OverflowError")
                    elif self.dt_hook is not None and m in ("astimezone", "utctimetuple", "timestamp") and not (fq and fq.startswith("werkzeug.")):
                        client, aware = self.dt_hook(fi, n, n.func.value)
                        if client and not (m == "timestamp" and aware):
                            add(n, "datetime-range", "OverflowError")
                            if not aware and m != "utctimetuple":
                                add(n, "datetime-range", "ValueError")
                    elif self.dt_hook is not None and m == "replace" and not (fq and fq.startswith("werkzeug.")) and (n.args or any(k in ("year", "month", "day", None) for k in _keyword_names(n))):
                        # the date fields (positional: year, month, day first); a text receiver never has a datetime origin
                        if self.dt_hook(fi, n, n.func.value)[0]:
                            add(n, "datetime-range", "ValueError")
            elif self.dt_hook is not None and isinstance(n, ast.BinOp) and isinstance(n.op, (ast.Add, ast.Sub)):
                if self.dt_hook(fi, n, n)[0]:
                    add(n, "datetime-range", "OverflowError")
            elif self.dt_hook is not None and isinstance(n, ast.AugAssign) and isinstance(n.op, (ast.Add, ast.Sub)) and isinstance(n.target, ast.Name):
                if self.dt_hook(fi, n, ast.BinOp(ast.Name(n.target.id, ast.Load()), n.op, n.value))[0]:
                    add(n, "datetime-range", "OverflowError")
            elif isinstance(n, ast.Attribute) and n.attr == "port" and isinstance(n.ctx, ast.Load) and not astq.is_self_attr(n):
                add(n, "port", "ValueError")
            elif isinstance(n, ast.Assign) and isinstance(n.targets[0], (ast.Tuple, ast.List)) and isinstance(n.value, ast.Call) and isinstance(n.value.func, ast.Attribute) and n.value.func.attr in ("split", "rsplit"):
                k = len(n.targets[0].elts)
                if not any(isinstance(e, ast.Starred) for e in n.targets[0].elts):
                    add(n, "unpack-split", "ValueError")
            elif isinstance(n, ast.Subscript) and isinstance(n.ctx, ast.Load) and isinstance(n.slice, (ast.Constant, ast.UnaryOp)):
                idx = n.slice
                val = idx.value if isinstance(idx, ast.Constant) else (-idx.operand.value if isinstance(idx, ast.UnaryOp) and isinstance(idx.op, ast.USub) and isinstance(idx.operand, ast.Constant) and isinstance(idx.operand.value, int) else None)
                if isinstance(val, int) and not isinstance(val, bool):
                    add(n, "const-index", "IndexError")
        # match-attr: m = P.match(..); m.group() without a dominating test on m
        for n in walk_no_nested(fn):
            if isinstance(n, ast.Attribute) and n.attr in ("group", "groups", "end", "start", "span", "groupdict") and isinstance(n.value, ast.Name) and isinstance(n.ctx, ast.Load):
                nm = n.value.id
                defs = [v for _, v in astq.assigns_to(fn, nm) if v is not None]
                if defs and all(isinstance(v, ast.Call) and isinstance(v.func, ast.Attribute) and v.func.attr in ("match", "search", "fullmatch") for v in defs):
                    add(n, "match-attr", "AttributeError")
            elif isinstance(n, ast.Subscript) and isinstance(n.value, ast.Name) and isinstance(n.ctx, ast.Load):
                defs = [v for _, v in astq.assigns_to(fn, n.value.id) if v is not None]
                if defs and all(isinstance(v, ast.Call) and isinstance(v.func, ast.Attribute) and v.func.attr in ("match", "search", "fullmatch") and dotted(v.func.value) for v in defs):
                    add(n, "match-attr", "TypeError")
        self._sites[fi.fq] = out
        return out

    # -- call resolution ---------------------------------------------------
    def callees(self, fi: FuncInfo) -> list[tuple[FuncInfo, ast.AST]]:
        if fi.fq in self._calls:
            return self._calls[fi.fq]
        out: list[tuple[FuncInfo, ast.AST]] = []
        li = fi.module.local_imports(fi.node)
        unresolved: list[str] = []
        selfname = fi.params[0] if fi.params and fi.cls is not None else None
        for n in walk_no_nested(fi.node):
            if isinstance(n, ast.Call):
                tg = self._resolve_call(fi, n, li, selfname)
                # a package function passed as an argument (callback of re.sub, map, sorted key ...) may be called
                for a in list(n.args) + [k.value for k in n.keywords]:
                    da = dotted(a)
                    if da and "." not in da and self._nested_def(fi, da) is not None:
                        out.append((self._nested_def(fi, da), n))
                        continue
                    if da and not (selfname and da == selfname):
                        fqa = self.repo.resolve(fi.module, da, li)
                        fa = self.repo.try_func(fqa) if fqa and fqa.startswith("werkzeug.") else None
                        if fa is not None:
                            out.append((fa, n))
                if tg:
                    out.extend((x, n) for x in tg)
                else:
                    d = dotted(n.func)
                    if d is None or (selfname and d.startswith(selfname + ".") and d.count(".") == 1):
                        unresolved.append(norm(n.func)[:40])
            elif isinstance(n, ast.Attribute) and isinstance(n.ctx, ast.Load) and selfname and isinstance(n.value, ast.Name) and n.value.id == selfname and fi.cls is not None:
                # property / cached_property / descriptor on self
                for g in self._getters(fi.cls, n.attr):
                    out.append((g, n))
        self._calls[fi.fq] = out
        self.unresolved[fi.fq] = unresolved
        return out

    def _getters(self, cls: ClassInfo, attr: str) -> list[FuncInfo]:
        owner, what = self.repo.lookup(cls, attr)
        res: list[FuncInfo] = []
        if isinstance(what, FuncInfo):
            decs = what.decorators
            if any(d.rsplit(".", 1)[-1] in ("property", "cached_property") for d in decs):
                res.append(what)
        elif isinstance(what, ast.Call):
            f = what.func.value if isinstance(what.func, ast.Subscript) else what.func
            dn = dotted(f)
            if dn and dn.rsplit(".", 1)[-1] in ("header_property", "environ_property"):
                res.extend(self.descriptor_funcs(owner, what))
        # overriding subclasses (the entry class may be a subclass)
        return res

    def descriptor_funcs(self, owner, call: ast.Call) -> list[FuncInfo]:
        """functions run by reading a header_property/environ_property: its load_func (when a package function)."""
        res = []
        load = astq.arg_or_kw(call, 2, "load_func")
        if load is not None:
            d = dotted(load)
            if d and isinstance(owner, ClassInfo):
                fq = self.repo.resolve(owner.module, d)
                f = self.repo.try_func(fq) if fq and fq.startswith("werkzeug.") else None
                if f is not None:
                    res.append(f)
        return res

    def _nested_def(self, fi: FuncInfo, name: str) -> FuncInfo | None:
        """the function a bare local name denotes when the only binding of the name in `fi` is one nested `def`
        (MODEL_DOC["nested-def"]): its body runs, with its own handlers, where the enclosing function calls it or hands
        it to a callee as a callback."""
        cache = self.__dict__.setdefault("_nested_cache", {})
        key = (fi.fq, id(fi.node), name)
        if key not in cache:
            defs = [x for x in walk_no_nested(fi.node) if isinstance(x, (ast.FunctionDef, ast.AsyncFunctionDef)) and x.name == name]
            other = [x for x in walk_no_nested(fi.node) if isinstance(x, ast.Name) and x.id == name and isinstance(x.ctx, (ast.Store, ast.Del))]
            if len(defs) == 1 and not other and name not in fi.params:
                cache[key] = FuncInfo(fi.module, defs[0], f"{fi.qualname}.<locals>.{name}", None)
            else:
                cache[key] = None
        return cache[key]

    def _resolve_call(self, fi: FuncInfo, n: ast.Call, li, selfname) -> list[FuncInfo]:
        f = n.func
        d = dotted(f)
        if d is not None and "." not in d:
            nd = self._nested_def(fi, d)
            if nd is not None:
                return [nd]
        if d is None:
            # super().m(...)
            if isinstance(f, ast.Attribute) and isinstance(f.value, ast.Call) and dotted(f.value.func) == "super" and fi.cls is not None:
                o, w = self.repo.lookup(fi.cls, f.attr, after=fi.cls.fq)
                return [w] if isinstance(w, FuncInfo) else []
            return []
        if selfname and d.startswith(selfname + ".") and d.count(".") == 2 and fi.cls is not None:
            # self.<property>.<method>(...): the classes the property's getter constructs (through package helpers)
            _, attr, meth = d.split(".")
            res = []
            for c in self._attr_classes(fi.cls, attr):
                for w in self._method_targets(c, meth):
                    if w not in res:
                        res.append(w)
            if res:
                return res
        if selfname and d.startswith(selfname + ".") and d.count(".") == 1 and fi.cls is not None:
            name = d.split(".", 1)[1]
            res = []
            o, w = self.repo.lookup(fi.cls, name)
            if isinstance(w, FuncInfo):
                res.append(w)
            elif name == "read":
                res.extend(self._method_targets(fi.cls, name))
            elif isinstance(w, ast.AST) and not isinstance(w, ast.Call) and dotted(w) and isinstance(o, ClassInfo):
                fqc = self.repo.resolve(o.module, dotted(w))
                c = self.repo.try_cls(fqc) if fqc and fqc.startswith("werkzeug.") else None
                if c is not None:
                    for nm in ("__init__", "__new__"):
                        o2, w2 = self.repo.lookup(c, nm)
                        if isinstance(w2, FuncInfo):
                            res.append(w2)
                    return res
            for sub in self.repo.subclasses(fi.cls.fq):
                if name in sub.methods and sub.methods[name] not in res:
                    res.append(sub.methods[name])
            return res
        # <local>(...) where the local is bound to bound methods of self: parse_func = self._parse_multipart
        if "." not in d and selfname and fi.cls is not None:
            defs = [v for _, v in astq.assigns_to(fi.node, d)]
            if defs and all(v is not None and astq.is_self_attr(v, None, selfname) for v in defs):
                res = []
                for v in defs:
                    o, w = self.repo.lookup(fi.cls, v.attr)  # type: ignore[union-attr]
                    if isinstance(w, FuncInfo) and w not in res:
                        res.append(w)
                if res:
                    return res
        # <local>.method(...) where the local is bound to an instance of a package class
        if "." in d and not d.startswith((selfname or "\0") + "."):
            head, _, meth = d.partition(".")
            if "." not in meth:
                c = self._local_class(fi, head, li)
                if c is not None:
                    o, w = self.repo.lookup(c, meth)
                    if isinstance(w, FuncInfo):
                        res = [w]
                        for sub in self.repo.subclasses(c.fq):
                            if meth in sub.methods and sub.methods[meth] not in res:
                                res.append(sub.methods[meth])
                        return res
        fq = self.repo.resolve(fi.module, d, li)
        if not fq or not fq.startswith("werkzeug."):
            return []
        fn = self.repo.try_func(fq)
        if fn is not None:
            return [fn]
        c = self.repo.try_cls(fq)
        if c is not None:
            res = []
            for nm in ("__init__", "__new__"):
                o, w = self.repo.lookup(c, nm)
                if isinstance(w, FuncInfo):
                    res.append(w)
            return res
        # Class.method / module.Class.method
        head, _, meth = fq.rpartition(".")
        c = self.repo.try_cls(head)
        if c is not None:
            o, w = self.repo.lookup(c, meth)
            if isinstance(w, FuncInfo):
                return [w]
        return []

    def _method_targets(self, c: ClassInfo, meth: str) -> list[FuncInfo]:
        o, w = self.repo.lookup(c, meth)
        if isinstance(w, FuncInfo):
            return [w]
        if meth == "read" and any(getattr(k, "fq", "") in ("io.RawIOBase", "_io._RawIOBase") for k in self.repo.mro(c)):
            # MODEL_DOC["rawio-dispatch"]
            out = []
            for nm in ("readall", "readinto"):
                o2, w2 = self.repo.lookup(c, nm)
                if isinstance(w2, FuncInfo):
                    out.append(w2)
            return out
        return []

    def _attr_classes(self, cls: ClassInfo, attr: str) -> list[ClassInfo]:
        out: list[ClassInfo] = []
        for g in self._getters(cls, attr):
            if any(d.rsplit(".", 1)[-1] in ("property", "cached_property") for d in g.decorators):
                for c in self._ret_classes(g, 0):
                    if c not in out:
                        out.append(c)
        return out

    def _ret_classes(self, g: FuncInfo, depth: int) -> list[ClassInfo]:
        out: list[ClassInfo] = []
        if depth > 3:
            return out
        li = g.module.local_imports(g.node)
        for r in astq.returns_of(g.node):
            v = r.value
            while isinstance(v, ast.Call) and (dotted(v.func) or "").rsplit(".", 1)[-1] == "cast" and len(v.args) == 2:
                v = v.args[1]
            if not isinstance(v, ast.Call):
                continue
            d = dotted(v.func)
            fq = self.repo.resolve(g.module, d, li) if d else None
            if not fq or not fq.startswith("werkzeug."):
                continue
            c = self.repo.try_cls(fq)
            if c is not None:
                if c not in out:
                    out.append(c)
                continue
            f2 = self.repo.try_func(fq)
            if f2 is not None:
                for c2 in self._ret_classes(f2, depth + 1):
                    if c2 not in out:
                        out.append(c2)
        return out

    def _class_of_expr(self, fi: FuncInfo, v: ast.AST | None, li) -> ClassInfo | None:
        """class of the instance an expression evaluates to, for: ClassName(...), self.<attr holding a class>(...),
        f(...) / self.m(...) with a return annotation naming a package class."""
        if not isinstance(v, ast.Call):
            return None
        d = dotted(v.func)
        if d is None:
            return None
        selfname = fi.params[0] if fi.params and fi.cls is not None else None
        if selfname and d.startswith(selfname + ".") and d.count(".") == 1 and fi.cls is not None:
            name = d.split(".", 1)[1]
            o, w = self.repo.lookup(fi.cls, name)
            if isinstance(w, ast.AST) and not isinstance(w, ast.Call):
                dn = dotted(w)
                if dn and isinstance(o, ClassInfo):
                    fq = self.repo.resolve(o.module, dn)
                    return self.repo.try_cls(fq) if fq and fq.startswith("werkzeug.") else None
            if isinstance(w, FuncInfo):
                return self._ret_class(w)
            return None
        fq = self.repo.resolve(fi.module, d, li)
        if not fq or not fq.startswith("werkzeug."):
            return None
        c = self.repo.try_cls(fq)
        if c is not None:
            return c
        f = self.repo.try_func(fq)
        return self._ret_class(f) if f is not None else None

    def _ret_class(self, f: FuncInfo) -> ClassInfo | None:
        ann = getattr(f.node, "returns", None)
        dn = dotted(ann) if ann is not None else None
        if dn:
            fq = self.repo.resolve(f.module, dn)
            return self.repo.try_cls(fq) if fq and fq.startswith("werkzeug.") else None
        return None

    def _local_class(self, fi: FuncInfo, name: str, li) -> ClassInfo | None:
        defs = [v for _, v in astq.assigns_to(fi.node, name)]
        if not defs:
            return None
        cs = [self._class_of_expr(fi, v, li) for v in defs]
        if all(c is not None for c in cs) and len({c.fq for c in cs}) == 1:
            return cs[0]
        return None

    # -- handler filtering -------------------------------------------------
    def uncaught(self, fi: FuncInfo, node: ast.AST, exc: str) -> bool:
        """does `exc` raised at `node` escape fi (considering enclosing try/except, bare re-raise)?"""
        li = None
        cur = node
        parent = astq.parent(cur)
        while parent is not None and cur is not fi.node:
            if isinstance(parent, ast.Try):
                in_body = any(cur is s for s in parent.body)
                if in_body:
                    for h in parent.handlers:
                        if li is None:
                            li = fi.module.local_imports(fi.node)
                        types = [self.lat.canon(fi.module, e, li) for e in (h.type.elts if isinstance(h.type, ast.Tuple) else [h.type])] if h.type is not None else ["BaseException"]
                        if any(self.lat.covers(tn, exc) for tn in types):
                            # caught; does the handler re-raise it bare?
                            rer = [x for s in h.body for x in [s, *walk_no_nested(s)] if isinstance(x, ast.Raise) and x.exc is None]
                            live = []
                            for x in rer:
                                g = astq.enclosing(x, (ast.If,))
                                dead = isinstance(g, ast.If) and any(x is y for st in g.body for y in [st, *walk_no_nested(st)]) and norm(g.test) in self.dead_reraise_guards and any(g is y for st in h.body for y in [st, *walk_no_nested(st)])
                                if not dead and id(x) not in self.dead_reraises:
                                    live.append(x)
                            if live:
                                break  # continues outward from the try statement
                            return False
                    # not caught (or re-raised): continue outward
            cur = parent
            parent = astq.parent(cur)
        return True

    # -- fix point ---------------------------------------------------------
    def reachable(self, roots: list[FuncInfo]) -> dict[str, FuncInfo]:
        reach: dict[str, FuncInfo] = {}
        stack = list(roots)
        while stack:
            f = stack.pop()
            if f.fq in reach:
                continue
            reach[f.fq] = f
            for g, _ in self.callees(f):
                stack.append(g)
        self.reach = reach
        return reach

    def escapes(self, roots: list[FuncInfo]) -> dict[str, set[tuple[Site, str]]]:
        """fq -> {(origin site, exception)} escaping that function, for everything reachable from roots."""
        reach = self.reachable(roots)
        esc: dict[str, set[tuple[Site, str]]] = {fq: set() for fq in reach}
        for fq, f in reach.items():
            for s in self.sites(f):
                if self.uncaught(f, s.node, s.exc):
                    esc[fq].add((s, s.exc))
        changed = True
        while changed:
            changed = False
            for fq, f in reach.items():
                for g, node in self.callees(f):
                    for s, e in list(esc[g.fq]):
                        if (s, e) not in esc[fq] and self.uncaught(f, node, e):
                            esc[fq].add((s, e))
                            changed = True
        self.reach = reach
        self._esc = esc
        return esc

    def chain(self, root: FuncInfo, site: Site, exc: str) -> list[str]:
        """one call chain root -> ... -> site.func along which exc escapes."""
        target = site.func.fq
        prev: dict[str, str | None] = {root.fq: None}
        q = [root]
        while q:
            f = q.pop(0)
            if f.fq == target:
                out = []
                cur: str | None = f.fq
                while cur is not None:
                    out.append(cur)
                    cur = prev[cur]
                return list(reversed(out))
            for g, node in self.callees(f):
                if g.fq in prev or (site, exc) not in self._esc.get(g.fq, ()):  # only along escaping edges
                    continue
                if not self.uncaught(f, node, exc):
                    continue
                prev[g.fq] = f.fq
                q.append(g)
        return [root.fq, "...", target]


# =====================================================================
# E5b: value origins (used by the C07 guard idioms and reviewed roles)
#
# A small abstract evaluator over *where a value comes from*: reaching definitions inside a function, tuple / list /
# dict projections, parameter binding to the call sites that are reachable from the entry points, return values of
# package helpers (context sensitive: a helper's parameter is bound to the argument of the call being followed), and
# the canonical guard atoms that dominate the use (with a freshness check: no rebinding of a tested name between the
# test and the use).  All answers are lower bounds / must-facts: "unknown" is always the weakest answer.

INF = 10**9


class _NoneSentinel:
    """the value None among the alternatives of an `int | None` expression (Flow.int_alts)."""

    def __repr__(self) -> str:
        return "NONE"


NONE: t.Any = _NoneSentinel()

from .dataflow import ReachingDefs, bound_in_enclosing_comp  # noqa: E402
from .fold import Folder, RegexConst, group_width, width  # noqa: E402
from .guards import Aliases  # noqa: E402


class Atom(t.NamedTuple):
    op: str  # truthy | is | eq | in | lt
    a: ast.AST
    b: ast.AST | None
    truth: bool
    test: t.Any  # cfg Node
    label: str
    names: frozenset


def _unwalrus(e: ast.AST) -> ast.AST:
    return e.target if isinstance(e, ast.NamedExpr) else e


def satoms(e: ast.AST, truth: bool) -> list[tuple[str, ast.AST, ast.AST | None, bool]]:
    """structured canonical atoms of one condition atom: polarity folded into `truth`; > >= <= rewritten to <."""
    while isinstance(e, ast.UnaryOp) and isinstance(e.op, ast.Not):
        e, truth = e.operand, not truth
    out: list[tuple[str, ast.AST, ast.AST | None, bool]] = []
    if isinstance(e, ast.NamedExpr):
        out.append(("truthy", e.target, None, truth))
        out.append(("truthy", e.value, None, truth))
        return out
    if isinstance(e, ast.Compare):
        if len(e.ops) > 1 and not truth:
            return out  # a false chain says nothing about its links
        left = e.left
        for op, right in zip(e.ops, e.comparators):
            a, b = _unwalrus(left), _unwalrus(right)
            if isinstance(op, ast.Is):
                out.append(("is", a, b, truth))
            elif isinstance(op, ast.IsNot):
                out.append(("is", a, b, not truth))
            elif isinstance(op, ast.Eq):
                out.append(("eq", a, b, truth))
            elif isinstance(op, ast.NotEq):
                out.append(("eq", a, b, not truth))
            elif isinstance(op, ast.In):
                out.append(("in", a, b, truth))
            elif isinstance(op, ast.NotIn):
                out.append(("in", a, b, not truth))
            elif isinstance(op, ast.Lt):
                out.append(("lt", a, b, truth))
            elif isinstance(op, ast.Gt):
                out.append(("lt", b, a, truth))
            elif isinstance(op, ast.LtE):
                out.append(("lt", b, a, not truth))
            elif isinstance(op, ast.GtE):
                out.append(("lt", a, b, not truth))
            left = right
        return out
    out.append(("truthy", e, None, truth))
    return out


def _conjuncts(e: ast.AST, truth: bool) -> list[tuple[ast.AST, bool]]:
    """atoms known from `e is truth`: an `and` that is true makes every operand true, an `or` that is false every operand false."""
    while isinstance(e, ast.UnaryOp) and isinstance(e.op, ast.Not):
        e, truth = e.operand, not truth
    if isinstance(e, ast.BoolOp):
        if (isinstance(e.op, ast.And) and truth) or (isinstance(e.op, ast.Or) and not truth):
            out: list[tuple[ast.AST, bool]] = []
            for v in e.values:
                out.extend(_conjuncts(v, truth))
            return out
        return []
    return [(e, truth)]


def const_int(e: ast.AST | None) -> int | None:
    if isinstance(e, ast.Constant) and isinstance(e.value, int) and not isinstance(e.value, bool):
        return e.value
    if isinstance(e, ast.UnaryOp) and isinstance(e.op, ast.USub) and isinstance(e.operand, ast.Constant) and isinstance(e.operand.value, int) and not isinstance(e.operand.value, bool):
        return -e.operand.value
    return None


def const_text(e: ast.AST | None) -> str | bytes | None:
    if isinstance(e, ast.Constant) and isinstance(e.value, (str, bytes)):
        return e.value
    return None


_CASE_METHODS = {"lower", "upper", "casefold", "swapcase", "title", "capitalize"}
_NO_NEW_ELEMENTS = {"pop", "get", "clear", "remove", "discard", "popitem", "copy", "keys", "items", "values", "index", "count", "sort", "reverse", "join", "__contains__", "__len__"}


_ASCII_COMPATIBLE = _UTF8_CODECS | _LATIN1_CODECS
# methods of str / bytes whose result (or every piece of it) holds only characters of the receiver (or ASCII padding)
_ASCII_KEEPING = {
    "strip", "lstrip", "rstrip", "lower", "upper", "casefold", "title", "capitalize", "swapcase", "split", "rsplit",
    "partition", "rpartition", "splitlines", "removeprefix", "removesuffix", "expandtabs", "zfill",
}


def _below_128(op: str, a: ast.AST, b: ast.AST | None, truth: bool, c: str) -> bool:
    """the atom says that the element named c (a character: ord(c) / c against a one-character text; a byte: c) is < 128."""

    def is_elem(x: ast.AST | None) -> str | None:
        if isinstance(x, ast.Name) and x.id == c:
            return "raw"
        if isinstance(x, ast.Call) and dotted(x.func) == "ord" and len(x.args) == 1 and not x.keywords and isinstance(x.args[0], ast.Name) and x.args[0].id == c:
            return "ord"
        return None

    def bound(x: ast.AST | None, how: str) -> int | None:
        k = const_int(x)
        if k is not None:
            return k  # ord(c) < k, or a byte c < k (a character never compares with an int: TypeError, not a wrong answer)
        v = const_text(x)
        if how == "raw" and v is not None and len(v) == 1:
            return ord(v) if isinstance(v, str) else v[0]
        return None

    if op != "lt":
        return False
    if truth:  # a < b
        how = is_elem(a)
        k = bound(b, how) if how else None
        return k is not None and k <= 128
    how = is_elem(b)  # not (a < b): b <= a
    k = bound(a, how) if how else None
    return k is not None and k <= 127


class St(t.NamedTuple):
    cs: tuple = ()  # call strings: ((caller fi, call node, callee fi), ...)
    seen: frozenset = frozenset()
    hops: int = 0


class Flow:
    def __init__(self, eff: "Effects", folder: Folder, entry_fqs: set[str]):
        self.eff = eff
        self.repo = eff.repo
        self.folder = folder
        self.entry_fqs = entry_fqs
        self._rd: dict[str, ReachingDefs] = {}
        self._al: dict[str, Aliases] = {}
        self._atoms: dict[tuple[str, int], list[Atom]] = {}
        self._callers: dict[str, list[tuple[FuncInfo, ast.AST, str]]] | None = None
        self.cur: tuple[Site, str] | None = None  # the (site, exception) being discharged: restricts callers to escaping chains
        self.site_ast: ast.AST | None = None  # its AST node: the conditional expressions around it count as guards
        self._live: dict[tuple[int, str], set[str]] = {}
        self._li: dict[str, dict[str, str]] = {}
        self._callee: dict[tuple[str, int], tuple[ast.AST, list[FuncInfo]]] = {}
        self.sim: t.Any = None  # PathSim over this flow (set by the rule module): path-wise facts as a second opinion
        self._sim_lb: dict[tuple[str, str, int], int | None] = {}
        self._in_sim = False

    # -- per function caches ---------------------------------------------
    def cfg(self, fi: FuncInfo):
        return cfg_of(fi)

    def rd(self, fi: FuncInfo) -> ReachingDefs:
        if fi.fq not in self._rd:
            self._rd[fi.fq] = ReachingDefs(cfg_of(fi), fi.params)
        return self._rd[fi.fq]

    def al(self, fi: FuncInfo) -> Aliases:
        if fi.fq not in self._al:
            self._al[fi.fq] = Aliases(cfg_of(fi), self.rd(fi))
        return self._al[fi.fq]

    def node(self, fi: FuncInfo, a: ast.AST):
        return cfg_of(fi).node_of(a)

    # -- call graph ------------------------------------------------------
    def callers(self, g: FuncInfo) -> list[tuple[FuncInfo, ast.AST, str]]:
        """(caller, node, kind) with kind call | callback | attr, over the functions reachable from the entry points;
        while a site is being discharged only call sites on a chain along which its exception escapes to an entry."""
        if self._callers is None:
            idx: dict[str, list[tuple[FuncInfo, ast.AST, str]]] = {}
            for f in self.eff.reach.values():
                for h, n in self.eff.callees(f):
                    kind = "attr"
                    if isinstance(n, ast.Call):
                        fn_last = (dotted(n.func) or (n.func.attr if isinstance(n.func, ast.Attribute) else "")).rsplit(".", 1)[-1]
                        as_arg = any((dotted(a) or "").rsplit(".", 1)[-1] == h.name for a in list(n.args) + [k.value for k in n.keywords])
                        kind = "callback" if as_arg and fn_last != h.name and not (h.name in ("__init__", "__new__")) else "call"
                    idx.setdefault(h.fq, []).append((f, n, kind))
            self._callers = idx
        res = self._callers.get(g.fq, [])
        if self.cur is not None:
            live = self.live(*self.cur)
            s, e = self.cur
            res = [(f, n, k) for f, n, k in res if f.fq in live and self.eff.uncaught(f, n, e)]
        return res

    def live(self, s: "Site", e: str) -> set[str]:
        """functions on some chain entry -> ... -> site along which e escapes all the way to the entry."""
        key = (id(s.node), e)
        if key in self._live:
            return self._live[key]
        esc = self.eff._esc
        carrying = {fq for fq, v in esc.items() if (s, e) in v}
        live = {fq for fq in carrying if fq in self.entry_fqs}
        changed = True
        while changed:
            changed = False
            for fq in list(live):
                f = self.eff.reach[fq]
                for h, n in self.eff.callees(f):
                    if h.fq in carrying and h.fq not in live and self.eff.uncaught(f, n, e):
                        live.add(h.fq)
                        changed = True
        self._live[key] = live
        return live

    def bind(self, g: FuncInfo, call: ast.AST, pname: str):
        """argument expression bound to parameter pname of g at this call: ('arg', expr) | ('default', expr) | None."""
        if not isinstance(call, ast.Call):
            return None
        a = g.node.args  # type: ignore[attr-defined]
        pos = [x.arg for x in a.posonlyargs + a.args]
        static = any(d.rsplit(".", 1)[-1] == "staticmethod" for d in g.decorators)
        off = 1 if (g.cls is not None and not static) else 0
        if any(kw.arg is None for kw in call.keywords):
            return None
        for kw in call.keywords:
            if kw.arg == pname:
                return ("arg", kw.value)
        if pname in pos:
            i = pos.index(pname) - off
            if i < 0:
                return None
            if any(isinstance(x, ast.Starred) for x in call.args[: i + 1]):
                return None
            if i < len(call.args):
                return ("arg", call.args[i])
            j = pos.index(pname) - (len(pos) - len(a.defaults))
            if j >= 0:
                return ("default", a.defaults[j])
            return None
        kwo = [x.arg for x in a.kwonlyargs]
        if pname in kwo:
            d = a.kw_defaults[kwo.index(pname)]
            return ("default", d) if d is not None else None
        return None

    def param_sources(self, fi: FuncInfo, pname: str, st: St):
        """[(fi', expr, node', st')] the parameter may be bound to, or None when unknown."""
        if fi.params and fi.cls is not None and pname == fi.params[0] and not any(d.rsplit(".", 1)[-1] == "staticmethod" for d in fi.decorators):
            return None
        if st.cs and st.cs[-1][2] is fi:
            cf, call, _ = st.cs[-1]
            b = self.bind(fi, call, pname)
            if b is None:
                return None
            st2 = st._replace(cs=st.cs[:-1])
            if b[0] == "default":
                return [(fi, b[1], cfg_of(fi).entry, st2)] if isinstance(b[1], ast.Constant) else None
            return [(cf, b[1], cfg_of(cf).node_of(call), st2)]
        if fi.fq in self.entry_fqs or st.hops >= 5:
            return None
        cal = self.callers(fi)
        if not cal:
            return None
        out = []
        for f, n, kind in cal:
            if kind != "call":
                return None
            b = self.bind(fi, n, pname)
            if b is None:
                return None
            st2 = St((), st.seen, st.hops + 1)
            if b[0] == "default":
                if not isinstance(b[1], ast.Constant):
                    return None
                out.append((fi, b[1], cfg_of(fi).entry, st2))
            else:
                nn = cfg_of(f).node_of(n)
                if nn is None:
                    return None
                out.append((f, b[1], nn, st2))
        return out

    def local_imports(self, fi: FuncInfo) -> dict[str, str]:
        if fi.fq not in self._li:
            self._li[fi.fq] = fi.module.local_imports(fi.node)
        return self._li[fi.fq]

    def resolve_callee(self, fi: FuncInfo, call: ast.Call) -> list[FuncInfo]:
        key = (fi.fq, id(call))
        if key in self._callee:
            return self._callee[key][1]
        li = self.local_imports(fi)
        selfname = fi.params[0] if fi.params and fi.cls is not None else None
        try:
            res = [g for g in self.eff._resolve_call(fi, call, li, selfname) if g.name not in ("__init__", "__new__")]
        except Exception:
            res = []
        self._callee[key] = (call, res)  # the node is kept alive so that its id stays unique
        return res

    # -- guard atoms -------------------------------------------------------
    def atoms(self, fi: FuncInfo, node) -> list[Atom]:
        """structured canonical atoms that hold whenever `node` is evaluated: the dominating test edges (plain and with
        local aliases expanded, boolean flags `ok = a <= b` replaced by the condition they hold), plus - for the site
        currently being discharged - the conditions of the conditional expressions / short-circuit operands it sits in."""
        key = (fi.fq, node.id)
        if key not in self._atoms:
            cfg = cfg_of(fi)
            out: list[Atom] = []
            for tn, label in cfg.guards(node):
                if tn.kind != "test":
                    continue
                out.extend(self._atoms_of(fi, tn.ast, label == "T", tn, label))
            self._atoms[key] = out
        res = self._atoms[key]
        sa = self.site_ast
        if sa is not None and node.ast is not None and any(x is sa for x in ast.walk(node.ast)):
            res = res + self._expr_atoms(fi, node, sa)
        return res

    def _atoms_of(self, fi: FuncInfo, cond: ast.AST, truth: bool, tn, label: str) -> list[Atom]:
        al = self.al(fi)
        forms = [cond]
        names = set(astq.names_in(cond))
        try:
            ex = al.expand(cond, tn)
            if norm(ex) != norm(cond):
                forms.append(ex)
                names |= astq.names_in(ex)
        except Exception:
            pass
        out: list[Atom] = []
        for f in forms:
            for op, a, b, tr in satoms(f, truth):
                out.append(Atom(op, a, b, tr, tn, label, frozenset(names)))
                # a boolean flag: `fits = size <= limit` ... `if fits`
                if op == "truthy" and isinstance(a, ast.Name):
                    defs = list(self.rd(fi).reaching(tn, a.id))
                    if len(defs) == 1 and defs[0].kind == "assign" and defs[0].index is None and isinstance(defs[0].value, (ast.Compare, ast.BoolOp, ast.UnaryOp, ast.Call)) and defs[0].node is not None:
                        fv = defs[0].value
                        fn = set(astq.names_in(fv))
                        if self._unchanged_between(fi, fn, defs[0].node, tn):
                            for c, ctruth in _conjuncts(fv, tr):
                                for op2, a2, b2, tr2 in satoms(c, ctruth):
                                    out.append(Atom(op2, a2, b2, tr2, tn, label, frozenset(names | fn)))
        return out

    def _expr_atoms(self, fi: FuncInfo, node, site: ast.AST) -> list[Atom]:
        out: list[Atom] = []
        child = site
        cur = getattr(site, "_parent", None)
        while cur is not None and child is not node.ast:
            if isinstance(cur, ast.IfExp) and child is not cur.test:
                for c, ctruth in _conjuncts(cur.test, child is cur.body):
                    out.extend(self._atoms_of(fi, c, ctruth, node, "expr"))
            elif isinstance(cur, ast.BoolOp):
                i = next((k for k, v in enumerate(cur.values) if v is child), 0)
                for v in cur.values[:i]:
                    for c, ctruth in _conjuncts(v, isinstance(cur.op, ast.And)):
                        out.extend(self._atoms_of(fi, c, ctruth, node, "expr"))
            child, cur = cur, getattr(cur, "_parent", None)
        return out

    def _unchanged_between(self, fi: FuncInfo, names: set[str], a_node, b_node) -> bool:
        """no name of `names` is rebound on a path a -> b that does not pass a again."""
        cfg = cfg_of(fi)
        starts = [s for s, _ in a_node.succs if s is not a_node]
        if not starts:
            return True
        r1 = cfg.reach(starts, avoid_nodes=[a_node])
        gen = self.rd(fi).gen
        for n in cfg.nodes:
            if n.id not in r1 or n is a_node:
                continue
            if any(d.name in names for d in gen.get(n.id, [])):
                if n is b_node:
                    continue  # a walrus in b itself is evaluated with b
                succs = [s for s, _ in n.succs if s is not a_node]
                if succs and b_node.id in cfg.reach(succs, avoid_nodes=[a_node]):
                    return False
        return True

    def fresh(self, fi: FuncInfo, at: Atom, use) -> bool:
        """no name the atom mentions is rebound on a path test-edge -> use that does not re-evaluate the test."""
        cfg = cfg_of(fi)
        tn = at.test
        if at.label == "expr":
            return True  # evaluated within the same expression as the use
        starts = [s for s, l in tn.succs if l == at.label and s is not tn]
        if not starts:
            return True
        r1 = cfg.reach(starts, avoid_nodes=[tn])
        gen = self.rd(fi).gen
        for n in cfg.nodes:
            if n.id not in r1 or n is tn:
                continue
            if any(d.name in at.names for d in gen.get(n.id, [])):
                succs = [s for s, _ in n.succs if s is not tn]
                if succs and use.id in cfg.reach(succs, avoid_nodes=[tn]):
                    return False
        return True

    def keys(self, fi: FuncInfo, e: ast.AST, node) -> set[str]:
        ks = {norm(e)}
        try:
            ks.add(norm(self.al(fi).expand(e, node)))
        except Exception:
            pass
        return ks

    def holds(self, fi: FuncInfo, node, pred: t.Callable[[Atom], bool]) -> Atom | None:
        for at in self.atoms(fi, node):
            if pred(at) and self.fresh(fi, at, node):
                return at
        return None

    # -- regex behind a match object ---------------------------------------
    def fold_regex(self, fi: FuncInfo, e: ast.AST) -> RegexConst | None:
        d = dotted(e)
        if not d:
            return None
        try:
            v = self.folder.name(fi.module, d)
        except Exception:
            return None
        return v if isinstance(v, RegexConst) else None

    def regex_of_match(self, fi: FuncInfo, e: ast.AST, node, st: St = St()) -> RegexConst | None:
        """the regex whose match object e is (all reaching definitions agree), through callback parameters of R.sub."""
        if isinstance(e, ast.NamedExpr):
            e = e.value
        if isinstance(e, ast.Call) and isinstance(e.func, ast.Attribute) and e.func.attr in ("match", "search", "fullmatch"):
            return self.fold_regex(fi, e.func.value)
        if not isinstance(e, ast.Name) or node is None:
            return None
        found: list[RegexConst] = []
        for d in self.rd(fi).reaching(node, e.id):
            if d.kind in ("assign", "walrus") and d.index is None and d.value is not None:
                r = self.regex_of_match(fi, d.value, d.node, st)
            elif d.kind == "param":
                r = None
                cal = self.callers(fi)
                rs = []
                for f, n, kind in cal:
                    if kind == "callback" and isinstance(n, ast.Call) and isinstance(n.func, ast.Attribute) and n.func.attr in ("sub", "subn"):
                        rs.append(self.fold_regex(f, n.func.value))
                    else:
                        rs.append(None)
                if rs and all(x is not None and x.pattern == rs[0].pattern and x.flags == rs[0].flags for x in rs):
                    r = rs[0]
            else:
                r = None
            if r is None:
                return None
            found.append(r)
        if found and all(x.pattern == found[0].pattern and x.flags == found[0].flags for x in found):
            return found[0]
        return None

    # -- lower bound of len(value) ------------------------------------------
    def minlen(self, fi: FuncInfo, e: ast.AST | None, node, path: tuple = (), st: St = St()) -> int:
        """lower bound of len(<e projected by path>) at CFG node `node` of fi (0 = unknown).
        path items: ('elem', i) | ('any',) | ('key',) | ('val',); projections assume the element exists."""
        if e is None:
            return 0
        key = (fi.fq, ("n:" + e.id) if isinstance(e, ast.Name) else id(e), node.id if node is not None else -1, path, tuple(id(c[1]) for c in st.cs))
        if key in st.seen:
            return INF  # inductive: a cyclic definition cannot lower the bound established by the base cases
        if len(st.seen) > 400:
            return 0
        st = st._replace(seen=st.seen | {key})
        v = self._minlen(fi, e, node, path, st)
        if not path and node is not None and not isinstance(e, ast.Constant):
            g = self._guard_minlen(fi, e, node, v)
            if g > v:
                v = g
        return v

    def _minlen(self, fi, e, node, path, st) -> int:
        ml = self.minlen
        if isinstance(e, ast.Constant):
            if e.value is None:
                return INF  # None is not subscriptable: no IndexError can come from it (TypeError is out of model)
            if not path:
                return len(e.value) if isinstance(e.value, (str, bytes, tuple)) else 0
            return 0
        if isinstance(e, ast.NamedExpr):
            return ml(fi, e.value, node, path, st)
        if isinstance(e, (ast.Tuple, ast.List, ast.Set)):
            plain = [x for x in e.elts if not isinstance(x, ast.Starred)]
            if not path:
                return len(plain)
            h, rest = path[0], path[1:]
            if h[0] == "elem" and isinstance(e, (ast.Tuple, ast.List)):
                i = h[1]
                seg = e.elts[: i + 1] if i >= 0 else e.elts[i:]
                if -len(e.elts) <= i < len(e.elts) and not any(isinstance(x, ast.Starred) for x in seg):
                    return ml(fi, e.elts[i], node, rest, st)
            if h[0] in ("elem", "any", "item"):
                vals = [ml(fi, x.value, node, path, st) if isinstance(x, ast.Starred) else ml(fi, x, node, rest, st) for x in e.elts]
                return min(vals) if vals else INF
            return 0
        if isinstance(e, ast.Dict):
            if not path:
                return len([k for k in e.keys if k is not None])
            h, rest = path[0], path[1:]
            if h[0] in ("key", "val", "any", "item"):  # iterating a dict yields its keys, subscripting it a value
                vals = []
                for k, v in zip(e.keys, e.values):
                    if k is None:
                        vals.append(ml(fi, v, node, path, st))
                    else:
                        vals.append(ml(fi, v if h[0] in ("val", "item") else k, node, rest, st))
                return min(vals) if vals else INF
            return 0
        if isinstance(e, (ast.ListComp, ast.SetComp, ast.GeneratorExp)):
            if path and path[0][0] in ("any", "elem", "item"):
                return ml(fi, e.elt, node, path[1:], st)
            return 0
        if isinstance(e, ast.DictComp):
            if path and path[0][0] in ("key", "any"):
                return ml(fi, e.key, node, path[1:], st)
            if path and path[0][0] in ("val", "item"):
                return ml(fi, e.value, node, path[1:], st)
            return 0
        if isinstance(e, ast.IfExp):
            return min(ml(fi, e.body, node, path, st), ml(fi, e.orelse, node, path, st))
        if isinstance(e, ast.BoolOp):
            vals = []
            for i, v in enumerate(e.values):
                x = ml(fi, v, node, path, st)
                if isinstance(e.op, ast.Or) and i < len(e.values) - 1 and not path:
                    x = max(x, 1)  # a non-final operand of `or` is the result only when truthy
                elif isinstance(e.op, ast.And) and i < len(e.values) - 1:
                    x = 0
                vals.append(x)
            return min(vals)
        if isinstance(e, ast.JoinedStr):
            if path:
                return 0
            return sum(len(v.value) for v in e.values if isinstance(v, ast.Constant) and isinstance(v.value, str))
        if isinstance(e, ast.BinOp) and isinstance(e.op, ast.Add):
            a, b = ml(fi, e.left, node, path, st), ml(fi, e.right, node, path, st)
            return min(a, b) if path else min(INF, a + b)
        if isinstance(e, ast.Name):
            return self._minlen_name(fi, e, node, path, st)
        if isinstance(e, ast.Attribute):
            return self._minlen_attr(fi, e, node, path, st)
        if isinstance(e, ast.Subscript):
            if isinstance(e.slice, ast.Slice):
                sl = e.slice
                if path:
                    p2 = tuple(("any",) if (i == 0 and h[0] == "elem") else h for i, h in enumerate(path))
                    return ml(fi, e.value, node, p2, st)
                if sl.step is None and (sl.lower is None or const_int(sl.lower) == 0) and sl.upper is not None:
                    hi = self.int_lb(fi, sl.upper, node, st)
                    if hi is not None and hi >= 0:
                        return min(ml(fi, e.value, node, (), st), hi)
                return 0
            i = const_int(e.slice)
            if i is not None:
                return ml(fi, e.value, node, (("elem", i),) + path, st)
            # a computed index / key: some element of a sequence, some value of a mapping
            return ml(fi, e.value, node, (("item",),) + path, st)
        if isinstance(e, ast.Call):
            return self._minlen_call(fi, e, node, path, st)
        return 0

    def _comp_binding(self, fi: FuncInfo, e: ast.Name):
        g = bound_in_enclosing_comp(e, stop=fi.node)
        if g is None:
            return None
        if isinstance(g.target, ast.Name):
            return g, (("any",),)
        if isinstance(g.target, (ast.Tuple, ast.List)):
            for i, x in enumerate(g.target.elts):
                if isinstance(x, ast.Name) and x.id == e.id and not any(isinstance(y, ast.Starred) for y in g.target.elts):
                    return g, (("any",), ("elem", i))
        return g, None

    def _minlen_name(self, fi, e: ast.Name, node, path, st) -> int:
        cb = self._comp_binding(fi, e) if hasattr(e, "_parent") else None
        if cb is not None:
            g, sub = cb
            return self.minlen(fi, g.iter, node, sub + path, st) if sub is not None else 0
        if node is None:
            return 0
        defs = self.rd(fi).reaching(node, e.id)
        if defs and all(d.kind == "param" for d in defs):
            rx = self.regex_of_match(fi, e, node, st)
            if rx is not None:
                return _match_minlen(rx, path)  # the match object handed to a callback of R.sub
        if not defs:
            try:
                v = self.folder.name(fi.module, e.id)
            except Exception:
                return 0
            if not path and isinstance(v, (str, bytes, tuple, list, frozenset, set, dict)):
                return len(v)
            return 0
        vals = []
        for d in defs:
            vals.append(self._minlen_def(fi, d, path, st))
        res = min(vals)
        if path and res > 0:
            res = min(res, self._mutations(fi, e.id, path, st))
        return res

    def _minlen_def(self, fi, d, path, st) -> int:
        if d.kind == "param":
            kwa = fi.node.args.kwarg  # type: ignore[attr-defined]
            if kwa is not None and kwa.arg == d.name:
                return self._minlen_kwargs(fi, path, st)
            srcs = self.param_sources(fi, d.name, st)
            if srcs is None:
                return self._annotation_arity(fi, d.name) if not path else 0
            return min(self.minlen(f, x, n, path, s2) for f, x, n, s2 in srcs)
        if d.kind in ("assign", "walrus"):
            if d.value is None:
                return 0
            if d.index is None:
                return self.minlen(fi, d.value, d.node, path, st)
            return 0
        if d.kind == "unpack":
            if d.value is None or d.index is None:
                return 0
            tg = getattr(d.stmt, "targets", [None])[0] if isinstance(d.stmt, ast.Assign) else None
            if isinstance(tg, (ast.Tuple, ast.List)) and any(isinstance(x, ast.Starred) for x in tg.elts):
                return 0
            return self.minlen(fi, d.value, d.node, (("elem", d.index),) + path, st)
        if d.kind == "for":
            if d.value is None:
                return 0
            tg = getattr(d.stmt, "target", None)
            if isinstance(tg, (ast.Tuple, ast.List)) and any(isinstance(x, ast.Starred) for x in tg.elts):
                return 0
            sub = (("any",),) if d.index is None else (("any",), ("elem", d.index))
            return self.minlen(fi, d.value, d.node, sub + path, st)
        if d.kind == "aug":
            if path and d.value is not None:
                return self.minlen(fi, d.value, d.node, path, st)
            return 0
        if d.kind == "del":
            return INF
        return 0

    def _minlen_kwargs(self, fi: FuncInfo, path, st: St) -> int:
        """keys of a **kwargs parameter: the keyword names written at the call sites (non-empty identifiers), or the
        keys of a dict passed with ** there."""
        if not path or path[0] != ("key",) or fi.fq in self.entry_fqs or st.hops >= 5:
            return 0
        cal = self.callers(fi)
        if not cal:
            return 0
        a = fi.node.args  # type: ignore[attr-defined]
        named = {x.arg for x in a.posonlyargs + a.args + a.kwonlyargs}
        vals = [INF]
        for f, n, kind in cal:
            if kind != "call" or not isinstance(n, ast.Call):
                return 0
            nn = cfg_of(f).node_of(n)
            for kw in n.keywords:
                if kw.arg is None:
                    vals.append(self.minlen(f, kw.value, nn, path, St((), st.seen, st.hops + 1)))
                elif kw.arg not in named:
                    vals.append(len(kw.arg) if len(path) == 1 else 0)
        return min(vals)

    def _annotation_arity(self, fi: FuncInfo, pname: str) -> int:
        """a parameter annotated with a fixed-arity tuple type (optionally `| None`): its arity."""
        a = fi.node.args  # type: ignore[attr-defined]
        for x in a.posonlyargs + a.args + a.kwonlyargs:
            if x.arg == pname and x.annotation is not None:
                ann = x.annotation
                if isinstance(ann, ast.Constant) and isinstance(ann.value, str):
                    try:
                        ann = ast.parse(ann.value, mode="eval").body
                    except SyntaxError:
                        return 0
                alts = []

                def split(n):
                    if isinstance(n, ast.BinOp) and isinstance(n.op, ast.BitOr):
                        split(n.left)
                        split(n.right)
                    elif isinstance(n, ast.Subscript) and (dotted(n.value) or "").rsplit(".", 1)[-1] == "Optional":
                        split(n.slice)
                        alts.append(ast.Constant(None))
                    else:
                        alts.append(n)

                split(ann)
                ar = []
                for n in alts:
                    if isinstance(n, ast.Constant) and n.value is None:
                        continue
                    if isinstance(n, ast.Subscript) and (dotted(n.value) or "").rsplit(".", 1)[-1] in ("tuple", "Tuple"):
                        elts = n.slice.elts if isinstance(n.slice, ast.Tuple) else [n.slice]
                        if any(isinstance(x2, ast.Constant) and x2.value is Ellipsis for x2 in elts):
                            return 0
                        ar.append(len(elts))
                    else:
                        return 0
                return min(ar) if ar else 0
        return 0

    def _minlen_attr(self, fi, e: ast.Attribute, node, path, st) -> int:
        if astq.is_self_attr(e, None, fi.params[0] if fi.params else "self") and fi.cls is not None:
            vals = []
            classes = [k for k in self.repo.mro(fi.cls) if isinstance(k, ClassInfo)] + list(self.repo.subclasses(fi.cls.fq))
            seen_c = set()
            for k in classes:
                if k.fq in seen_c:
                    continue
                seen_c.add(k.fq)
                for m in k.methods.values():
                    sn = m.params[0] if m.params else "self"
                    for s_ in walk_no_nested(m.node):
                        if isinstance(s_, (ast.Assign, ast.AnnAssign)) and getattr(s_, "value", None) is not None:
                            tgs = s_.targets if isinstance(s_, ast.Assign) else [s_.target]
                            if any(astq.is_self_attr(tg, e.attr, sn) for tg in tgs):
                                vals.append(self.minlen(m, s_.value, cfg_of(m).node_of(s_), path, St((), st.seen, st.hops + 1)))
                            elif any(isinstance(tg, (ast.Tuple, ast.List)) and any(astq.is_self_attr(x, e.attr, sn) for x in ast.walk(tg)) for tg in tgs):
                                vals.append(0)
                        elif isinstance(s_, ast.AugAssign) and astq.is_self_attr(s_.target, e.attr, sn):
                            vals.append(0)
            if vals:
                return min(vals)
        return 0

    def _ret_minlen(self, fi, call, node, g: FuncInfo, path, st) -> int:
        if any(isinstance(x, (ast.Yield, ast.YieldFrom)) for x in walk_no_nested(g.node)):
            return 0
        rets = astq.returns_of(g.node)
        st2 = st._replace(cs=st.cs + ((fi, call, g),))
        if len(st2.cs) > 3:
            return 0
        vals = []
        for r in rets:
            if r.value is None:
                vals.append(INF)
            else:
                vals.append(self.minlen(g, r.value, cfg_of(g).node_of(r), path, st2))
        # falling off the end returns None (never raises IndexError)
        return min(vals) if vals else INF

    def _minlen_call(self, fi, e: ast.Call, node, path, st) -> int:
        ml = self.minlen
        f = e.func
        d = dotted(f)
        li = fi.module.local_imports(fi.node)
        fq = self.repo.resolve(fi.module, d, li) if d else None
        last = (d or "").rsplit(".", 1)[-1]
        if fq in ("builtins.sorted", "builtins.list", "builtins.tuple", "builtins.reversed", "builtins.set", "builtins.frozenset") and len(e.args) >= 1:
            p2 = tuple(("any",) if (i == 0 and h[0] == "elem") else h for i, h in enumerate(path))
            if fq in ("builtins.set", "builtins.frozenset") and not path:
                return min(1, ml(fi, e.args[0], node, (), st))
            return ml(fi, e.args[0], node, p2, st)
        if fq == "builtins.enumerate" and e.args:
            if path and path[0][0] in ("any", "elem", "item"):
                if len(path) == 1:
                    return 2
                if path[1] == ("elem", 1):
                    return ml(fi, e.args[0], node, (("any",),) + path[2:], st)
                return 0
            return ml(fi, e.args[0], node, (), st) if not path else 0
        if last == "cast" and len(e.args) == 2:
            return ml(fi, e.args[1], node, path, st)
        if fq in ("urllib.parse.unquote", "urllib.parse.unquote_plus") and e.args and not path:
            err = astq.arg_or_kw(e, 2, "errors")
            if err is None or astq.const_str(err) in ("replace", "backslashreplace", "surrogateescape") or astq.const_str(err) in self.eff.handlers_ok - {"ignore"}:
                return min(1, ml(fi, e.args[0], node, (), st))
            return 0
        if fq in ("os.path.split", "os.path.splitext", "posixpath.split", "posixpath.splitext"):
            return 2 if not path else 0
        if isinstance(f, ast.Attribute):
            m = f.attr
            recv = f.value
            rx = self.fold_regex(fi, recv)
            if rx is None:
                if m in _CASE_METHODS and not e.args:
                    return ml(fi, recv, node, path, st) if not path else 0
                if m == "replace" and len(e.args) >= 2 and not path and const_text(e.args[1]):
                    return min(1, ml(fi, recv, node, (), st))  # replacing by a non-empty text keeps a non-empty text non-empty
                if m in ("partition", "rpartition"):
                    return 3 if not path else 0
                if m in ("split", "rsplit"):
                    if path:
                        return 0
                    sep = const_text(e.args[0]) if e.args else None
                    if sep and sep in self.contained(fi, recv, node, st):
                        return 2
                    return 1
                if m == "items" and not e.args and len(path) >= 2 and path[0][0] in ("any", "elem") and path[1][0] == "elem" and path[1][1] in (0, 1):
                    return ml(fi, recv, node, (("key",) if path[1][1] == 0 else ("val",),) + path[2:], st)
                if m == "items" and not e.args and len(path) == 1 and path[0][0] in ("any", "elem"):
                    return 2
                if m == "keys" and not e.args and path and path[0][0] in ("any", "elem"):
                    return ml(fi, recv, node, (("key",),) + path[1:], st)
                if m == "values" and not e.args and path and path[0][0] in ("any", "elem"):
                    return ml(fi, recv, node, (("val",),) + path[1:], st)
                if m == "copy" and not e.args:
                    return ml(fi, recv, node, path, st)
                if m in ("span", "regs") and not e.args and self.regex_of_match(fi, recv, node, st) is not None:
                    return 2 if not path else 0
                if m in ("group", "groups"):
                    r = self.regex_of_match(fi, recv, node, st)
                    if r is not None:
                        try:
                            if m == "group" and not path:
                                k = const_int(e.args[0]) if e.args else 0
                                if k is None or len(e.args) > 1:
                                    return 0
                                return width(r)[0] if k == 0 else group_width(r, k)[0]
                            if m == "groups" and path and path[0][0] == "elem" and len(path) == 1 and path[0][1] >= 0:
                                return group_width(r, path[0][1] + 1)[0]
                            if m == "groups" and not path:
                                return r.parsed().state.groups - 1
                        except Exception:
                            return 0
                    return 0
            else:
                if m in ("match", "search", "fullmatch"):
                    return _match_minlen(rx, path)
                if m == "split" and not path and e.args:
                    try:
                        plain = not _has_anchor(rx)
                    except Exception:
                        plain = False
                    if plain:
                        for c in self.contained(fi, e.args[0], node, st):
                            try:
                                if isinstance(c, type(rx.pattern)) and re.compile(rx.pattern, rx.flags).fullmatch(c):
                                    return 2
                            except Exception:
                                pass
                    return 1
                return 0
        if isinstance(f, (ast.Name, ast.Attribute)) or d is None:
            gs = self.resolve_callee(fi, e)
            if gs:
                return min(self._ret_minlen(fi, e, node, g, path, st) for g in gs)
        return 0

    def _mutations(self, fi: FuncInfo, name: str, path, st) -> int:
        """elements / keys added to the container bound to local `name` anywhere in fi (flow-insensitive)."""
        h, rest = path[0], path[1:]
        vals = [INF]
        cfg = cfg_of(fi)
        # what the local is bound to decides what iterating it yields
        binds = [v for _, v in astq.assigns_to(fi.node, name) if v is not None]
        is_dict = bool(binds) and all(isinstance(v, (ast.Dict, ast.DictComp)) or (isinstance(v, ast.Call) and dotted(v.func) == "dict") for v in binds)
        is_list = bool(binds) and all(isinstance(v, (ast.List, ast.ListComp)) or (isinstance(v, ast.Call) and dotted(v.func) == "list") for v in binds)
        for n in walk_no_nested(fi.node):
            if isinstance(n, ast.Call) and isinstance(n.func, ast.Attribute) and isinstance(n.func.value, ast.Name) and n.func.value.id == name:
                m = n.func.attr
                nn = cfg.node_of(n)
                if m in ("append", "add") and len(n.args) == 1:
                    vals.append(self.minlen(fi, n.args[0], nn, rest, st) if h[0] in ("any", "elem", "item") else 0)
                elif m == "insert" and len(n.args) == 2:
                    vals.append(self.minlen(fi, n.args[1], nn, rest, st) if h[0] in ("any", "elem", "item") else 0)
                elif m in ("extend", "update") and len(n.args) == 1 and not n.keywords:
                    p2 = (("any",),) + rest if h[0] == "elem" else path
                    vals.append(self.minlen(fi, n.args[0], nn, p2, st))
                elif m == "setdefault" and len(n.args) == 2:
                    if h[0] == "key" or (is_dict and h[0] not in ("val", "item")):
                        vals.append(self.minlen(fi, n.args[0], nn, rest, st))
                    elif h[0] in ("val", "item"):
                        vals.append(self.minlen(fi, n.args[1], nn, rest, st))
                    else:
                        vals.append(min(self.minlen(fi, n.args[0], nn, rest, st), self.minlen(fi, n.args[1], nn, rest, st)))
                elif m in _NO_NEW_ELEMENTS:
                    pass
                else:
                    vals.append(0)
            elif isinstance(n, ast.Assign):
                for tg in n.targets:
                    if isinstance(tg, ast.Subscript) and isinstance(tg.value, ast.Name) and tg.value.id == name:
                        nn = cfg.node_of(n)
                        if isinstance(tg.slice, ast.Slice):
                            vals.append(0)
                        elif h[0] == "key" or (is_dict and h[0] not in ("val", "item")):
                            vals.append(self.minlen(fi, tg.slice, nn, rest, st))
                        elif h[0] in ("val", "item") or is_list:
                            vals.append(self.minlen(fi, n.value, nn, rest, st))
                        else:
                            # iterating the container: a dict yields its keys, a list its items - the type is not known
                            vals.append(min(self.minlen(fi, tg.slice, nn, rest, st), self.minlen(fi, n.value, nn, rest, st)))
            elif isinstance(n, ast.AugAssign) and isinstance(n.target, ast.Subscript) and isinstance(n.target.value, ast.Name) and n.target.value.id == name:
                if h[0] != "key":
                    vals.append(0)
            elif isinstance(n, ast.Call):
                # the container handed to a package function that stores into its parameter
                for i, a in enumerate(n.args):
                    if isinstance(a, ast.Name) and a.id == name:
                        for g in self.resolve_callee(fi, n):
                            if self._param_mutated(g, n, i):
                                vals.append(0)
        return min(vals)

    def _param_mutated(self, g: FuncInfo, call: ast.Call, argi: int) -> bool:
        a = g.node.args  # type: ignore[attr-defined]
        pos = [x.arg for x in a.posonlyargs + a.args]
        off = 1 if (g.cls is not None and not any(d.rsplit(".", 1)[-1] == "staticmethod" for d in g.decorators)) else 0
        if argi + off >= len(pos):
            return True
        p = pos[argi + off]
        for n in walk_no_nested(g.node):
            if isinstance(n, ast.Call) and isinstance(n.func, ast.Attribute) and isinstance(n.func.value, ast.Name) and n.func.value.id == p and n.func.attr not in _NO_NEW_ELEMENTS and n.func.attr in ("append", "add", "insert", "extend", "update", "setdefault", "__setitem__"):
                return True
            if isinstance(n, (ast.Assign, ast.AugAssign)):
                for tg in (n.targets if isinstance(n, ast.Assign) else [n.target]):
                    if isinstance(tg, ast.Subscript) and isinstance(tg.value, ast.Name) and tg.value.id == p:
                        return True
        return False

    def _guard_minlen(self, fi: FuncInfo, e: ast.AST, node, base: int = 0) -> int:
        """lower bound of len(e) from the conditions that hold at node: e / len(e) truthy, len(e) compared with a
        constant in any spelling (>= 2, > 1, not < 2, != 0, == 3), e compared with a text constant, a constant prefix /
        suffix / member of e."""
        ks = self.keys(fi, e, node)

        def is_len(x):
            return isinstance(x, ast.Call) and dotted(x.func) == "len" and len(x.args) == 1 and norm(x.args[0]) in ks

        best = base if base < INF else 0
        excluded: list[tuple[int, Atom]] = []  # len(e) != k
        for at in self.atoms(fi, node):
            v = 0
            if at.op == "truthy" and at.truth:
                if norm(at.a) in ks or is_len(at.a):
                    v = 1
                elif isinstance(at.a, ast.Call) and isinstance(at.a.func, ast.Attribute) and at.a.func.attr in ("startswith", "endswith") and norm(at.a.func.value) in ks and len(at.a.args) == 1 and const_text(at.a.args[0]):
                    v = len(const_text(at.a.args[0]))
            elif at.op == "lt":
                if is_len(at.a) and const_int(at.b) is not None and not at.truth:
                    v = const_int(at.b)
                elif const_int(at.a) is not None and is_len(at.b) and at.truth:
                    v = const_int(at.a) + 1
            elif at.op == "eq":
                for x, y in ((at.a, at.b), (at.b, at.a)):
                    if is_len(x) and const_int(y) is not None:
                        if at.truth:
                            v = max(v, const_int(y))
                        else:
                            excluded.append((const_int(y), at))
                    c = const_text(y)
                    if c is not None and norm(x) in ks:
                        if at.truth:
                            v = max(v, len(c))
                        elif len(c) == 0:
                            v = max(v, 1)
                    if c and at.truth and isinstance(x, ast.Subscript) and isinstance(x.slice, ast.Slice) and norm(x.value) in ks:
                        v = max(v, len(c))
            elif at.op == "in" and at.truth and norm(at.b) in ks:
                c = const_text(at.a)
                v = 1 if (c is None or len(c) >= 1) else 0  # membership / non-empty substring: the container is not empty
            if v > best and self.fresh(fi, at, node):
                best = v
        changed = True
        while changed:
            changed = False
            for k, at in excluded:
                if k == best and self.fresh(fi, at, node):
                    best += 1
                    changed = True
        return best

    # -- lower bound of an int ------------------------------------------------
    def int_lb(self, fi: FuncInfo, e: ast.AST | None, node, st: St = St()) -> int | None:
        """lower bound of the int e at node (None = unknown, INF = no value reaches)."""
        alts = self.int_alts(fi, e, node, st)
        if any(v is None or v is NONE for v, _ in alts):
            return None
        return min([v for v, _ in alts], default=INF)

    def int_alts(self, fi: FuncInfo, e: ast.AST | None, node, st: St = St()) -> list[tuple[int | None, bool]]:
        """the int e at node as a union of alternatives (v, exact): exactly the constant v, or some value >= v (v None:
        unknown).  Sentinels keep their identity - `find` is -1 or >= 0, a helper returns -1 or an index >= 2 - so
        that a dominating `!= -1` / `>= 0` / `< 0` / truthiness test in any spelling removes the sentinel instead of
        merely nudging one bound."""
        if e is None:
            return [(None, False)]
        key = ("int", fi.fq, ("n:" + e.id) if isinstance(e, ast.Name) else id(e), node.id if node is not None else -1, tuple(id(c[1]) for c in st.cs))
        if key in st.seen:
            return [(INF, False)]
        if len(st.seen) > 400:
            return [(None, False)]
        st = st._replace(seen=st.seen | {key})
        alts = self._int_alts(fi, e, node, st)
        if node is not None and isinstance(e, (ast.Name, ast.Attribute, ast.NamedExpr)):
            alts = self._guard_alts(fi, _unwalrus(e), node, alts)
        if isinstance(e, ast.Name) and node is not None and not st.cs and any(v is None or v is NONE for v, _ in alts):
            lb = self._sim_int_lb(fi, e.id, node)
            if lb is not None:
                alts = [(lb, False)]
        uniq = list(dict.fromkeys(alts))
        if len(uniq) > 12:
            uniq = [(None if any(v is None or v is NONE for v, _ in uniq) else min(v for v, _ in uniq), False)]
        return uniq

    def _sim_int_lb(self, fi: FuncInfo, name: str, node) -> int | None:
        """lower bound of the local int `name` whenever `node` is reached, from the path-wise facts (PathSim): holds on
        every acyclic path from the function's entry, for every caller.  This follows what the reaching-definition walk
        cannot: a value unpacked from a helper's result whose components are related (`found, end = scan(text)` /
        `if found:`), bounds established by order comparisons between locals."""
        sim = self.sim
        if sim is None or self._in_sim or name not in sim.locals_of(fi):
            return None
        key = (fi.fq, name, node.id)
        if key in self._sim_lb:
            return self._sim_lb[key]
        self._sim_lb[key] = None
        if any(d.name == name for d in self.rd(fi).gen.get(node.id, [])):
            return None  # (re)bound by the node itself
        lows: list[int | None] = []

        def on_goal(n, ps) -> None:
            b = ps.db.get((ZERO, name))
            if ps.null.get(name) is not False or b is None:
                lows.append(None)
            else:
                lows.append(-b[0] + (1 if b[1] and name in ps.ints else 0))

        save = (sim.steps, sim.cur_node, sim.call_tag, self.cur, self.site_ast)
        self._in_sim = True
        try:
            sim.steps, sim.call_tag = 0, None
            self.cur, self.site_ast = None, None
            lim, sim.LIMIT = sim.LIMIT, 20000
            try:
                sim.walk(fi, [node], on_goal)
            finally:
                sim.LIMIT = lim
        except AnalysisError:
            lows = [None]
        finally:
            sim.steps, sim.cur_node, sim.call_tag, self.cur, self.site_ast = save
            self._in_sim = False
        res = None if not lows or any(v is None for v in lows) else min(lows)
        self._sim_lb[key] = res
        return res

    def _int_alts(self, fi, e, node, st) -> list[tuple[int | None, bool]]:
        unknown: list[tuple[int | None, bool]] = [(None, False)]
        c = const_int(e)
        if c is not None:
            return [(c, True)]
        if isinstance(e, ast.Constant) and e.value is None:
            return [(NONE, True)]  # the `not found` sentinel of an `int | None` helper: removed by an `is not None` test
        if isinstance(e, ast.NamedExpr):
            return self.int_alts(fi, e.value, node, st)
        if isinstance(e, ast.BinOp) and isinstance(e.op, (ast.Add, ast.Sub)):
            la = self.int_alts(fi, e.left, node, st)
            if any(v is NONE for v, _ in la):
                return unknown
            if isinstance(e.op, ast.Add):
                ra = self.int_alts(fi, e.right, node, st)
            else:
                cr = const_int(e.right)
                if cr is None:
                    return unknown
                ra = [(-cr, True)]
            if any(v is NONE for v, _ in ra):
                return unknown
            return [(None if a is None or b is None else (INF if a >= INF or b >= INF else a + b), ea and eb) for a, ea in la for b, eb in ra]
        if isinstance(e, ast.IfExp):
            return self.int_alts(fi, e.body, node, st) + self.int_alts(fi, e.orelse, node, st)
        if isinstance(e, ast.Call):
            d = dotted(e.func)
            if d == "len" and len(e.args) == 1:
                return [(self.minlen(fi, e.args[0], node, (), St(st.cs, frozenset(), st.hops)), False)]
            if d in ("max",) and e.args and not e.keywords:
                ks = [self.int_lb(fi, a, node, st) for a in e.args]
                ks = [k for k in ks if k is not None]
                return [(max(ks), False)] if ks else unknown
            if d in ("min",) and e.args and not e.keywords:
                ks = [self.int_lb(fi, a, node, st) for a in e.args]
                return unknown if any(k is None for k in ks) else [(min(ks), False)]
            if isinstance(e.func, ast.Attribute):
                m = e.func.attr
                if m in ("find", "rfind"):
                    return [(-1, True), (0, False)]
                if m in ("index", "rindex", "count"):
                    return [(0, False)]
                if m in ("start", "end") and not e.args and self.regex_of_match(fi, e.func.value, node, st) is not None:
                    return [(0, False)]
            gs = self.resolve_callee(fi, e)
            if gs:
                out: list[tuple[int | None, bool]] = []
                for g in gs:
                    if any(isinstance(x, (ast.Yield, ast.YieldFrom)) for x in walk_no_nested(g.node)):
                        return unknown
                    st2 = st._replace(cs=st.cs + ((fi, e, g),))
                    if len(st2.cs) > 3:
                        return unknown
                    rets = astq.returns_of(g.node)
                    if not rets:
                        return unknown
                    for r in rets:
                        out += self.int_alts(g, r.value, cfg_of(g).node_of(r), st2) if r.value is not None else unknown
                return out
            return unknown
        if isinstance(e, ast.Name):
            if node is None:
                return unknown
            defs = self.rd(fi).reaching(node, e.id)
            if not defs:
                return unknown
            out = []
            for d_ in defs:
                if d_.kind in ("assign", "walrus") and d_.index is None and d_.value is not None:
                    out += self.int_alts(fi, d_.value, d_.node, st)
                elif d_.kind == "aug" and isinstance(d_.stmt, ast.AugAssign) and isinstance(d_.stmt.op, ast.Add):
                    inc = self.int_lb(fi, d_.value, d_.node, st)
                    prev = self.int_lb(fi, ast.Name(e.id, ast.Load()), d_.node, st) if inc is not None and inc >= 0 else None
                    out.append((None if prev is None or inc is None else (INF if prev >= INF else prev + inc), False))
                elif d_.kind == "param":
                    srcs = self.param_sources(fi, d_.name, st)
                    if srcs is None:
                        out += unknown
                    else:
                        for f2, x, n2, s2 in srcs:
                            out += self.int_alts(f2, x, n2, s2)
                else:
                    out += unknown
            return out
        return unknown

    def _guard_alts(self, fi, e, node, alts: list[tuple[int | None, bool]]) -> list[tuple[int | None, bool]]:
        """the alternatives that survive the conditions holding at node: `e >= c`, `e > c`, `e < c`, `e <= c`, `e == c`,
        `e != c` in any spelling (canonical atoms), `if e` / `if not e` (an int is false exactly when it is 0)."""
        ks = self.keys(fi, e, node)

        def at_least(c: int) -> t.Callable:
            return lambda v, ex: ((v, ex) if v is not None and v >= c else None) if ex else ((c if v is None or v < c else v), False)

        def at_most(c: int) -> t.Callable:
            return lambda v, ex: ((v, ex) if v is not None and v <= c else None) if ex else (None if v is not None and c < v < INF else (v, False))

        def equal(c: int) -> t.Callable:
            return lambda v, ex: ((v, ex) if v == c else None) if ex else (None if v is not None and c < v < INF else (c, True))

        def differs(c: int) -> t.Callable:
            return lambda v, ex: (None if v == c else (v, ex)) if ex else ((v + 1, False) if v == c else (v, False))

        for at in self.atoms(fi, node):
            fn = None
            if at.op == "is" and norm(at.a) in ks and astq.is_none(at.b):
                fn = (lambda v, ex: (v, ex) if v is NONE or v is None else None) if at.truth else (lambda v, ex: None if v is NONE else (v, ex))
                if self.fresh(fi, at, node):
                    alts = [r for r in (fn(v, ex) for v, ex in alts) if r is not None]
                continue
            if at.op == "lt":
                if norm(at.a) in ks and const_int(at.b) is not None:
                    fn = at_most(const_int(at.b) - 1) if at.truth else at_least(const_int(at.b))
                elif const_int(at.a) is not None and norm(at.b) in ks:
                    fn = at_least(const_int(at.a) + 1) if at.truth else at_most(const_int(at.a))
            elif at.op == "eq":
                for x, y in ((at.a, at.b), (at.b, at.a)):
                    if norm(x) in ks and const_int(y) is not None:
                        fn = equal(const_int(y)) if at.truth else differs(const_int(y))
            elif at.op == "truthy" and norm(at.a) in ks:
                fn = differs(0) if at.truth else equal(0)
            if fn is None or not self.fresh(fi, at, node):
                continue
            if at.op == "eq" and not at.truth:
                keep_none = True  # None != c
            elif at.op == "truthy" and not at.truth:
                keep_none = True  # `not e` holds for None as well
            else:
                keep_none = False
            alts = [r for r in ((((v, ex) if keep_none else None) if v is NONE else fn(v, ex)) for v, ex in alts) if r is not None]
        return alts

    # -- integers parsed from client text, without an upper bound ---------------------
    def unbounded_client_int(self, fi: FuncInfo, e: ast.AST | None, node, st: St = St()) -> bool:
        """e PROVABLY flows from a text -> int conversion (int(<text>), a package helper returning one) through
        arithmetic, max(), attributes assigned from constructor parameters and parameter binding, and no upper bound is
        established on the way (min() with a bounded operand, a dominating comparison with a bounded value).
        Unknown origins answer False: this only ever adds a finding."""
        if e is None:
            return False
        key = ("ub", fi.fq, ("n:" + e.id) if isinstance(e, ast.Name) else norm(e) if isinstance(e, ast.Attribute) else id(e), node.id if node is not None else -1, tuple(id(c[1]) for c in st.cs))
        if key in st.seen or len(st.seen) > 300:
            return False
        st = st._replace(seen=st.seen | {key})
        ub = self.unbounded_client_int
        if isinstance(e, ast.Constant):
            return False
        if isinstance(e, ast.NamedExpr):
            return ub(fi, e.value, node, st)
        if isinstance(e, ast.IfExp):
            # each alternative under the test that selects it: `a if a < b else b` is min(a, b)
            for branch, truth in ((e.body, True), (e.orelse, False)):
                if node is not None and isinstance(branch, (ast.Name, ast.Attribute)):
                    extra = [at for c, ctruth in _conjuncts(e.test, truth) for at in self._atoms_of(fi, c, ctruth, node, "expr")]
                    if self._upper_bounded(fi, branch, node, st, extra):
                        continue
                if ub(fi, branch, node, st):
                    return True
            return False
        if isinstance(e, ast.BinOp) and isinstance(e.op, (ast.Add, ast.Sub, ast.Mult)):
            return ub(fi, e.left, node, st) or ub(fi, e.right, node, st)
        if isinstance(e, ast.Call):
            d = dotted(e.func)
            li = fi.module.local_imports(fi.node)
            fq = self.repo.resolve(fi.module, d, li) if d else None
            if fq == "builtins.int" and e.args and not isinstance(e.args[0], (ast.Constant, ast.BinOp)) and not (isinstance(e.args[0], ast.Call) and (dotted(e.args[0].func) or "").rsplit(".", 1)[-1] in ("len", "total_seconds", "time", "timestamp", "round", "floor")):
                return True
            if fq == "builtins.len":
                return False
            if fq == "builtins.max" and e.args and not e.keywords:
                return any(ub(fi, a, node, st) for a in e.args)
            if fq == "builtins.min" and e.args and not e.keywords:
                return all(ub(fi, a, node, st) for a in e.args)
            for g in self.resolve_callee(fi, e):
                st2 = st._replace(cs=st.cs + ((fi, e, g),))
                if len(st2.cs) > 4:
                    continue
                for r in astq.returns_of(g.node):
                    if r.value is not None and ub(g, r.value, cfg_of(g).node_of(r), st2):
                        return True
            return False
        if isinstance(e, (ast.Name, ast.Attribute)) and node is not None:
            if self._upper_bounded(fi, e, node, st):
                return False
        if isinstance(e, ast.Name):
            if node is None:
                return False
            for d_ in self.rd(fi).reaching(node, e.id):
                if d_.kind in ("assign", "walrus") and d_.index is None and d_.value is not None:
                    if ub(fi, d_.value, d_.node, st):
                        return True
                elif d_.kind == "aug" and d_.value is not None:
                    if ub(fi, d_.value, d_.node, st) or ub(fi, ast.Name(e.id, ast.Load()), d_.node, st):
                        return True
                elif d_.kind == "param":
                    srcs = self.param_sources(fi, d_.name, st)
                    for f2, x, n2, s2 in srcs or []:
                        if ub(f2, x, n2, s2):
                            return True
            return False
        if isinstance(e, ast.Attribute) and fi.cls is not None and fi.params and astq.is_self_attr(e, None, fi.params[0]):
            classes = [k for k in self.repo.mro(fi.cls) if isinstance(k, ClassInfo)] + list(self.repo.subclasses(fi.cls.fq))
            for k in classes:
                for m in k.methods.values():
                    sn = m.params[0] if m.params else "self"
                    for s_ in walk_no_nested(m.node):
                        if isinstance(s_, (ast.Assign, ast.AnnAssign)) and getattr(s_, "value", None) is not None:
                            tgs = s_.targets if isinstance(s_, ast.Assign) else [s_.target]
                            if any(astq.is_self_attr(tg, e.attr, sn) for tg in tgs):
                                if ub(m, s_.value, cfg_of(m).node_of(s_), St((), st.seen, st.hops + 1)):
                                    return True
            return False
        return False

    def _upper_bounded(self, fi: FuncInfo, e: ast.AST, node, st: St, extra: t.Iterable["Atom"] = ()) -> bool:
        ks = self.keys(fi, e, node)
        for at in list(self.atoms(fi, node)) + list(extra):
            other = None
            if at.op == "lt" and at.truth and norm(at.a) in ks:
                other = at.b  # e < B
            elif at.op == "lt" and not at.truth and norm(at.b) in ks:
                other = at.a  # not (B < e)
            elif at.op == "eq" and at.truth:
                other = at.b if norm(at.a) in ks else at.a if norm(at.b) in ks else None
            if other is not None and not self.unbounded_client_int(fi, other, at.test, st) and self.fresh(fi, at, node):
                return True
        return False

    # -- datetimes built by a parser from external text / numbers ------------------------
    _DT_PARSERS = {
        "email.utils.parsedate_to_datetime", "datetime.datetime.strptime", "datetime.datetime.fromisoformat", "datetime.datetime.fromtimestamp",
        "datetime.datetime.utcfromtimestamp", "datetime.datetime.fromordinal", "datetime.datetime.fromisocalendar",
    }
    _DT_NOW = {"datetime.datetime.now", "datetime.datetime.utcnow", "datetime.datetime.today"}
    _DT_KEEP = ("replace", "astimezone")  # datetime methods whose result is as extreme as the receiver

    def client_datetime(self, fi: FuncInfo, e: ast.AST | None, node, st: St = St()) -> bool:
        """e MAY hold a datetime that a parser built from external text / numbers - a value anywhere in
        datetime.min..max, ends included, with any UTC offset: the result of parsedate_to_datetime / strptime / fromisoformat /
        fromtimestamp, of a package function, property or header_property returning one, carried through local names,
        conditional expressions, `or`, datetime.replace / astimezone, +/- and parameter binding (the argument of the
        call being followed, else of any call site reachable from the entry points).  Unknown origins (application values,
        datetime.now()) answer False: this only ever adds a finding."""
        if e is None:
            return False
        key = ("cdt", fi.fq, ("n:" + e.id) if isinstance(e, ast.Name) else norm(e) if isinstance(e, ast.Attribute) else id(e), node.id if node is not None else -1, tuple(id(c[1]) for c in st.cs))
        if key in st.seen or len(st.seen) > 300:
            return False
        st = st._replace(seen=st.seen | {key})
        cd = self.client_datetime
        if isinstance(e, ast.Constant):
            return False
        if isinstance(e, ast.NamedExpr):
            return cd(fi, e.value, node, st)
        if isinstance(e, ast.IfExp):
            return cd(fi, e.body, node, st) or cd(fi, e.orelse, node, st)
        if isinstance(e, ast.BoolOp):
            return any(cd(fi, v, node, st) for v in e.values)
        if isinstance(e, ast.BinOp) and isinstance(e.op, (ast.Add, ast.Sub)):
            if isinstance(e.op, ast.Add):
                return cd(fi, e.left, node, st) or cd(fi, e.right, node, st)
            return cd(fi, e.left, node, st) and not self._is_datetime(fi, e.right, node, st)  # datetime - datetime is a timedelta
        if isinstance(e, ast.Call):
            d = dotted(e.func)
            fq = self.repo.resolve(fi.module, d, self.local_imports(fi)) if d else None
            if fq in self._DT_PARSERS:
                return bool(e.args or e.keywords) and not all(isinstance(a, ast.Constant) for a in list(e.args) + [k.value for k in e.keywords])
            if fq in self._DT_NOW:
                return False
            if fq == "datetime.datetime.combine" and e.args:
                return cd(fi, e.args[0], node, st)
            if fq in ("typing.cast", "typing_extensions.cast") and len(e.args) == 2:
                return cd(fi, e.args[1], node, st)
            gs = self.resolve_callee(fi, e)
            if gs:
                for g in gs:
                    st2 = st._replace(cs=st.cs + ((fi, e, g),))
                    if len(st2.cs) > 4 or any(isinstance(x, (ast.Yield, ast.YieldFrom)) for x in walk_no_nested(g.node)):
                        continue
                    for r in astq.returns_of(g.node):
                        if r.value is not None and cd(g, r.value, cfg_of(g).node_of(r), st2):
                            return True
                return False
            if isinstance(e.func, ast.Attribute) and e.func.attr in self._DT_KEEP:
                return cd(fi, e.func.value, node, st)
            return False
        if isinstance(e, ast.Name):
            if node is None or (hasattr(e, "_parent") and bound_in_enclosing_comp(e, stop=fi.node) is not None):
                return False
            for d_ in self.rd(fi).reaching(node, e.id):
                if d_.kind in ("assign", "walrus") and d_.index is None and d_.value is not None:
                    if cd(fi, d_.value, d_.node, st):
                        return True
                elif d_.kind == "unpack" and isinstance(d_.index, int) and isinstance(d_.value, (ast.Tuple, ast.List)) and isinstance(d_.stmt, ast.Assign) and isinstance(d_.stmt.targets[0], (ast.Tuple, ast.List)) and len(d_.stmt.targets[0].elts) == len(d_.value.elts) and not any(isinstance(x, ast.Starred) for x in d_.value.elts + d_.stmt.targets[0].elts):
                    if cd(fi, d_.value.elts[d_.index], d_.node, st):  # a, b = x, y
                        return True
                elif d_.kind == "aug" and d_.value is not None:
                    if cd(fi, ast.Name(e.id, ast.Load()), d_.node, st):
                        return True
                elif d_.kind == "param":
                    for f2, x, n2, s2 in self._may_param_sources(fi, d_.name, st):
                        if cd(f2, x, n2, s2):
                            return True
            return False
        if isinstance(e, ast.Attribute) and fi.cls is not None and fi.params and astq.is_self_attr(e, None, fi.params[0]) and st.hops < 5:
            st2 = St((), st.seen, st.hops + 1)
            for g in self.eff._getters(fi.cls, e.attr):  # property / cached_property getter, load_func of a header_property
                for r in astq.returns_of(g.node):
                    if r.value is not None and cd(g, r.value, cfg_of(g).node_of(r), st2):
                        return True
            classes = [k for k in self.repo.mro(fi.cls) if isinstance(k, ClassInfo)] + list(self.repo.subclasses(fi.cls.fq))
            for k in classes:
                for m in k.methods.values():
                    sn = m.params[0] if m.params else "self"
                    for s_ in walk_no_nested(m.node):
                        if isinstance(s_, (ast.Assign, ast.AnnAssign)) and getattr(s_, "value", None) is not None:
                            tgs = s_.targets if isinstance(s_, ast.Assign) else [s_.target]
                            if any(astq.is_self_attr(tg, e.attr, sn) for tg in tgs) and cd(m, s_.value, cfg_of(m).node_of(s_), st2):
                                return True
            return False
        return False

    def _may_param_sources(self, fi: FuncInfo, pname: str, st: St):
        """[(fi', expr, node', st')] argument expressions the parameter MAY be bound to: the call being followed, else every
        resolvable call site among the functions reachable from the entry points (unresolvable ones are skipped)."""
        if fi.params and fi.cls is not None and pname == fi.params[0] and not any(d.rsplit(".", 1)[-1] == "staticmethod" for d in fi.decorators):
            return []
        if st.cs and st.cs[-1][2] is fi:
            cf, call, _ = st.cs[-1]
            b = self.bind(fi, call, pname)
            nn = cfg_of(cf).node_of(call)
            return [(cf, b[1], nn, st._replace(cs=st.cs[:-1]))] if b is not None and b[0] == "arg" and nn is not None else []
        if st.hops >= 5:
            return []
        out = []
        for f, n, kind in self.callers(fi):
            b = self.bind(fi, n, pname) if kind == "call" else None
            nn = cfg_of(f).node_of(n) if b is not None else None
            if b is not None and b[0] == "arg" and nn is not None:
                out.append((f, b[1], nn, St((), st.seen, st.hops + 1)))
        return out

    def _is_datetime(self, fi: FuncInfo, e: ast.AST, node, st: St, depth: int = 0) -> bool:
        """e is provably a datetime (not a timedelta): a parsed one, datetime.now() / combine(), a datetime method result,
        a package helper annotated to return one, a local name all of whose definitions are / a parameter annotated so."""
        if depth > 6:
            return False
        if self.client_datetime(fi, e, node, st):
            return True
        if isinstance(e, ast.NamedExpr):
            return self._is_datetime(fi, e.value, node, st, depth + 1)
        if isinstance(e, ast.Call):
            d = dotted(e.func)
            fq = self.repo.resolve(fi.module, d, self.local_imports(fi)) if d else None
            if fq in self._DT_NOW or fq in self._DT_PARSERS or fq in ("datetime.datetime", "datetime.datetime.combine"):
                return True
            gs = self.resolve_callee(fi, e)
            if gs:
                return all(self._annotated_datetime(g.node.returns) for g in gs)  # type: ignore[attr-defined]
            if isinstance(e.func, ast.Attribute) and e.func.attr in ("replace", "astimezone"):
                return self._is_datetime(fi, e.func.value, node, st, depth + 1)
            return False
        if isinstance(e, ast.Name) and node is not None:
            defs = list(self.rd(fi).reaching(node, e.id))
            if not defs:
                return False
            for d_ in defs:
                if d_.kind in ("assign", "walrus") and d_.index is None and d_.value is not None:
                    ann = d_.stmt.annotation if isinstance(d_.stmt, ast.AnnAssign) else None
                    if not (self._annotated_datetime(ann) or self._is_datetime(fi, d_.value, d_.node, st, depth + 1)):
                        return False
                elif d_.kind == "param":
                    a = fi.node.args  # type: ignore[attr-defined]
                    arg = next((x for x in a.posonlyargs + a.args + a.kwonlyargs if x.arg == d_.name), None)
                    if arg is None or not self._annotated_datetime(arg.annotation):
                        return False
                else:
                    return False
            return True
        return False

    @staticmethod
    def _annotated_datetime(ann: ast.AST | None) -> bool:
        """the annotation names datetime (possibly | None) and not timedelta / date / a number."""
        if ann is None:
            return False
        if isinstance(ann, ast.Constant) and isinstance(ann.value, str):
            try:
                ann = ast.parse(ann.value, mode="eval").body
            except SyntaxError:
                return False
        parts = ann_parts(ann)
        return bool(parts) and all(p in ("datetime", "datetime.datetime", "None") for p in parts) and any(p != "None" for p in parts)

    def client_dt_arith(self, fi: FuncInfo, e: ast.BinOp, node) -> bool:
        """`a + b` / `a - b` moves a parsed datetime by a timedelta (a - <datetime> yields a timedelta and cannot overflow)."""
        if isinstance(e.op, ast.Add):
            return self.client_datetime(fi, e.left, node) or self.client_datetime(fi, e.right, node)
        return self.client_datetime(fi, e.left, node) and not self._is_datetime(fi, e.right, node, St())

    def aware_datetime(self, fi: FuncInfo, e: ast.AST | None, node, st: St = St()) -> bool:
        """e PROVABLY has a tzinfo (or is None / not a datetime at all - the claim is only used on a receiver): a dominating
        test on <e>.tzinfo / <e>.utcoffset(), or every origin is aware: X.replace(tzinfo=<not None>), X.astimezone(..),
        now(tz) / fromtimestamp(.., tz), a package helper all of whose returns are, a parameter whose every call site is."""
        if e is None:
            return False
        key = ("adt", fi.fq, ("n:" + e.id) if isinstance(e, ast.Name) else id(e), node.id if node is not None else -1, tuple(id(c[1]) for c in st.cs))
        if key in st.seen or len(st.seen) > 300:
            return False
        st = st._replace(seen=st.seen | {key})
        aw = self.aware_datetime
        if isinstance(e, ast.Constant):
            return e.value is None
        if isinstance(e, ast.NamedExpr):
            return aw(fi, e.value, node, st)
        if isinstance(e, (ast.Name, ast.Attribute)) and node is not None:
            ks = self.keys(fi, e, node)
            tz = {k + ".tzinfo" for k in ks} | {k + ".utcoffset()" for k in ks}
            if self.holds(fi, node, lambda at: (at.op == "truthy" and at.truth and norm(at.a) in tz) or (at.op in ("is", "eq") and not at.truth and norm(at.a) in tz and astq.is_none(at.b))) is not None:
                return True
        if isinstance(e, ast.IfExp):
            return aw(fi, e.body, node, st) and aw(fi, e.orelse, node, st)
        if isinstance(e, ast.Attribute) and fi.cls is not None and fi.params and astq.is_self_attr(e, None, fi.params[0]) and st.hops < 5:
            gs = self.eff._getters(fi.cls, e.attr)  # property / cached_property getter, load_func of a header_property (its default is None)
            st2 = St((), st.seen, st.hops + 1)
            return bool(gs) and all(r.value is None or aw(g, r.value, cfg_of(g).node_of(r), st2) for g in gs for r in astq.returns_of(g.node))
        if isinstance(e, ast.Call):
            d = dotted(e.func)
            fq = self.repo.resolve(fi.module, d, self.local_imports(fi)) if d else None
            if fq in ("datetime.datetime.now", "datetime.datetime.fromtimestamp"):
                tzv = astq.arg_or_kw(e, 0 if fq.endswith("now") else 1, "tz")
                return tzv is not None and not astq.is_none(tzv)
            gs = self.resolve_callee(fi, e)
            if gs:
                for g in gs:
                    st2 = st._replace(cs=st.cs + ((fi, e, g),))
                    rets = astq.returns_of(g.node)
                    if len(st2.cs) > 4 or not rets or any(isinstance(x, (ast.Yield, ast.YieldFrom)) for x in walk_no_nested(g.node)):
                        return False
                    if not all(r.value is None or aw(g, r.value, cfg_of(g).node_of(r), st2) for r in rets):
                        return False
                return True
            if isinstance(e.func, ast.Attribute):
                if e.func.attr == "astimezone":
                    return True
                if e.func.attr == "replace":
                    tzv = astq.kwarg(e, "tzinfo")
                    if tzv is not None:
                        return not astq.is_none(tzv)
                    return not any(k.arg is None for k in e.keywords) and len(e.args) < 8 and aw(fi, e.func.value, node, st)
            return False
        if isinstance(e, ast.Name) and node is not None:
            defs = list(self.rd(fi).reaching(node, e.id))
            if not defs:
                return False
            for d_ in defs:
                if d_.kind in ("assign", "walrus") and d_.index is None and d_.value is not None:
                    if not aw(fi, d_.value, d_.node, st):
                        return False
                elif d_.kind == "param":
                    srcs = self.param_sources(fi, d_.name, st)
                    if srcs is None or not all(aw(f2, x, n2, s2) for f2, x, n2, s2 in srcs):
                        return False
                else:
                    return False
            return True
        return False

    # -- constants known to occur inside a string ---------------------------------
    def contained(self, fi: FuncInfo, e: ast.AST | None, node, st: St = St()) -> set:
        """constant substrings c with `c in <e>` established (guards, reaching definitions, callers)."""
        if e is None or node is None:
            return set()
        key = ("in", fi.fq, ("n:" + e.id) if isinstance(e, ast.Name) else id(e), node.id, tuple(id(c[1]) for c in st.cs))
        if key in st.seen or len(st.seen) > 400:
            return set()
        st = st._replace(seen=st.seen | {key})
        out: set = set()
        ks = self.keys(fi, e, node)
        for at in self.atoms(fi, node):
            if at.op == "in" and at.truth and norm(at.b) in ks and const_text(at.a) and self.fresh(fi, at, node):
                out.add(const_text(at.a))
                continue
            c = self._search_hit(at, ks)
            if c and self.fresh(fi, at, node):
                out.add(c)
        if isinstance(e, ast.Call) and isinstance(e.func, ast.Attribute) and not e.args and not e.keywords:
            inner = self.contained(fi, e.func.value, node, st)
            if e.func.attr in _CASE_METHODS:
                out |= {c for c in inner if c.lower() == c == c.upper()}
            elif e.func.attr in ("strip", "lstrip", "rstrip"):
                if self.stripped(fi, e.func.value, node):
                    out |= inner
                else:
                    out |= {c for c in inner if c.strip() == c}
        elif isinstance(e, ast.Name):
            defs = self.rd(fi).reaching(node, e.id)
            sets = []
            for d_ in defs:
                if d_.kind in ("assign", "walrus") and d_.index is None and d_.value is not None:
                    sets.append(self.contained(fi, d_.value, d_.node, st))
                elif d_.kind == "param":
                    srcs = self.param_sources(fi, d_.name, st)
                    if srcs is None:
                        sets.append(set())
                    else:
                        for f2, x, n2, s2 in srcs:
                            sets.append(self.contained(f2, x, n2, s2))
                else:
                    sets.append(set())
            if sets:
                out |= set.intersection(*sets)
        return out

    @staticmethod
    def _search_hit(at: "Atom", ks: set[str]):
        """the constant c when the atom says that c occurs in the text: X.startswith(c) / X.endswith(c) / X.count(c)
        truthy; X.find(c) / X.rfind(c) / X.index(c) compared with -1 / 0 and X.count(c) compared with 0 / 1 in any
        spelling that means `found`."""

        def search(x):
            if isinstance(x, ast.Call) and isinstance(x.func, ast.Attribute) and x.func.attr in ("find", "rfind", "count", "startswith", "endswith", "index", "rindex") and len(x.args) == 1 and not x.keywords and norm(x.func.value) in ks:
                c = const_text(x.args[0])
                return (x.func.attr, c) if c else None
            return None

        if at.op == "truthy":
            sc = search(at.a)
            if sc and at.truth and sc[0] in ("startswith", "endswith", "count"):
                return sc[1]
            return None
        if at.op not in ("lt", "eq"):
            return None
        for x, y, x_is_left in ((at.a, at.b, True), (at.b, at.a, False)):
            sc, k = search(x), const_int(y)
            if sc is None or k is None or sc[0] in ("startswith", "endswith"):
                continue
            floor = 0 if sc[0] == "count" else -1  # the smallest value the call can return = `not found`
            if at.op == "eq":
                found = (at.truth and k > floor) or (not at.truth and k == floor)
            elif x_is_left:  # x < k
                found = (not at.truth) and k > floor  # x >= k > floor
            else:  # k < x
                found = at.truth and k >= floor
            if found:
                return sc[1]
        return None

    def stripped(self, fi: FuncInfo, e: ast.AST, node) -> bool:
        """e's value is already the result of a no-argument strip() (so e.strip() == e)."""
        if isinstance(e, ast.Call) and isinstance(e.func, ast.Attribute) and e.func.attr == "strip" and not e.args:
            return True
        if isinstance(e, ast.Name) and node is not None:
            defs = self.rd(fi).reaching(node, e.id)
            return bool(defs) and all(d_.kind in ("assign", "walrus") and d_.index is None and d_.value is not None and isinstance(d_.value, ast.Call) and isinstance(d_.value.func, ast.Attribute) and d_.value.func.attr == "strip" and not d_.value.args for d_ in defs)
        return False

    # -- ASCII-only text / bytes ----------------------------------------------------
    def ascii_only(self, fi: FuncInfo, e: ast.AST | None, node, st: St = St(), depth: int = 0) -> bool:
        """every character / byte of e's value is < 128 whenever `node` is evaluated: established by a dominating test
        that means `is ASCII` (X.isascii() true in any polarity / early-return spelling, all(ord(c) < 128 for c in X), a
        package predicate that returns such a test of its parameter), by the value's origin (an ASCII constant, the result
        of a strict ascii codec call - it would have raised otherwise -, an ASCII-compatible codec call or an
        ASCII-preserving method of an ASCII value, a piece / element / character of one), through local definitions,
        comprehension variables and - for a parameter - the argument at every call site on the request path.
        Not: str.isdigit() / isdecimal() / isalnum() ... (true for non-ASCII digits and letters)."""
        if e is None or depth > 12:
            return False
        if isinstance(e, ast.Constant):
            v = e.value
            # None holds no characters (a method called on it is an AttributeError, which is not this analysis' business)
            return v is None or (isinstance(v, bytes) and all(c < 128 for c in v)) or (isinstance(v, str) and v.isascii())
        if node is not None:
            ks = self.keys(fi, e, node)
            for at in self.atoms(fi, node):
                if self._ascii_test(fi, at.op, at.a, at.b, at.truth, ks) and self.fresh(fi, at, node) and not self._mutated_in_place(fi, at.names):
                    return True
        if isinstance(e, ast.NamedExpr):
            return self.ascii_only(fi, e.value, node, st, depth + 1)
        if isinstance(e, ast.IfExp):
            return self.ascii_only(fi, e.body, node, st, depth + 1) and self.ascii_only(fi, e.orelse, node, st, depth + 1)
        if isinstance(e, ast.BinOp) and isinstance(e.op, ast.Add):
            return self.ascii_only(fi, e.left, node, st, depth + 1) and self.ascii_only(fi, e.right, node, st, depth + 1)
        if isinstance(e, (ast.Tuple, ast.List)):
            return bool(e.elts) and all(not isinstance(x, ast.Starred) and self.ascii_only(fi, x, node, st, depth + 1) for x in e.elts)
        cc = codec_call(e)
        if cc is not None:
            kind, recv, enc, err = cc
            enc = enc or ""
            if enc in _ASCII_CODECS:
                # the ascii codec hands back nothing but ASCII (strict raises instead); the handlers that could put
                # something else into the result: decode 'replace' (U+FFFD), 'surrogateescape' (U+DCxx / bytes >= 0x80)
                return err in (("strict", "ignore", "backslashreplace") if kind == "decode" else ("strict", "ignore", "replace", "backslashreplace", "xmlcharrefreplace", "namereplace"))
            if enc in _ASCII_COMPATIBLE:
                # ASCII text <-> the same ASCII bytes in every ASCII-compatible codec
                return self.ascii_only(fi, recv, node, st, depth + 1)
            return False
        if isinstance(e, ast.Call) and isinstance(e.func, ast.Attribute):
            m = e.func.attr
            if m in _ASCII_KEEPING:
                return self.ascii_only(fi, e.func.value, node, st, depth + 1)
            if m == "replace" and len(e.args) >= 2 and not e.keywords:
                return self.ascii_only(fi, e.args[1], node, st, depth + 1) and self.ascii_only(fi, e.func.value, node, st, depth + 1)
            if m == "join" and len(e.args) == 1 and not e.keywords:
                return self.ascii_only(fi, e.func.value, node, st, depth + 1) and self._ascii_elements(fi, e.args[0], node, st, depth + 1)
            return False
        if isinstance(e, ast.Call) and dotted(e.func) in ("bytes", "bytearray", "memoryview") and len(e.args) == 1 and not e.keywords:
            return self.ascii_only(fi, e.args[0], node, st, depth + 1)
        if isinstance(e, ast.Call):
            # a function of the package: every value it returns (evaluated in the callee, its parameters bound at this call)
            gs = self.resolve_callee(fi, e)
            if not gs or len(st.cs) >= 3:
                return False
            for g in gs:
                if any(isinstance(x, (ast.Yield, ast.YieldFrom)) for x in walk_no_nested(g.node)):
                    return False
                st2 = st._replace(cs=st.cs + ((fi, e, g),))
                for r in astq.returns_of(g.node):
                    if r.value is not None and not self.ascii_only(g, r.value, cfg_of(g).node_of(r), st2, depth + 1):
                        return False
            return True
        if isinstance(e, ast.Subscript):
            return self.ascii_only(fi, e.value, node, st, depth + 1)
        if isinstance(e, ast.Name):
            cb = self._comp_binding(fi, e) if hasattr(e, "_parent") else None
            if cb is not None:
                return self.ascii_only(fi, cb[0].iter, node, st, depth + 1)
            if node is None:
                return False
            defs = self.rd(fi).reaching(node, e.id)
            if not defs or self._mutated_in_place(fi, {e.id}):
                return False  # a buffer / list that is extended after its definition holds more than its definition says
            for d in defs:
                if d.kind in ("assign", "walrus", "unpack", "for") and d.value is not None:
                    if not self.ascii_only(fi, d.value, d.node, st, depth + 1):
                        return False
                elif d.kind == "param":
                    srcs = self.param_sources(fi, d.name, st)
                    if srcs is None:
                        return False
                    for f2, x, n2, s2 in srcs:
                        if not self.ascii_only(f2, x, n2, s2, depth + 1):
                            return False
                else:
                    return False
            return True
        return False

    def _ascii_elements(self, fi: FuncInfo, e: ast.AST, node, st: St, depth: int) -> bool:
        """every element of the iterable e is ASCII-only: a comprehension / generator whose element is, or pieces of one."""
        if isinstance(e, (ast.GeneratorExp, ast.ListComp, ast.SetComp)):
            return self.ascii_only(fi, e.elt, node, st, depth + 1)
        return self.ascii_only(fi, e, node, st, depth + 1)

    def _mutated_in_place(self, fi: FuncInfo, names: t.Iterable[str]) -> bool:
        """one of the names is a buffer changed in place somewhere in the function (a test of its content then says
        nothing about a later use; rebinding is the freshness check's business)."""
        names = set(names)
        for n in walk_no_nested(fi.node):
            if isinstance(n, ast.Call) and isinstance(n.func, ast.Attribute) and isinstance(n.func.value, ast.Name) and n.func.value.id in names and n.func.attr in ("extend", "append", "insert", "__setitem__", "__iadd__", "readinto"):
                return True
            if isinstance(n, ast.Subscript) and isinstance(n.ctx, (ast.Store, ast.Del)) and isinstance(n.value, ast.Name) and n.value.id in names:
                return True
            if isinstance(n, ast.Call) and isinstance(n.func, ast.Attribute) and n.func.attr in ("readinto", "readinto1", "recv_into", "recvfrom_into", "pack_into") and any(isinstance(a, ast.Name) and a.id in names for a in n.args):
                return True
        return False

    def _ascii_test(self, fi: FuncInfo, op: str, a: ast.AST, b: ast.AST | None, truth: bool, ks: set[str], depth: int = 0) -> bool:
        """the atom (op, a, b) being `truth` means: the value spelled as one of `ks` is ASCII-only."""
        if op != "truthy" or not isinstance(a, ast.Call) or a.keywords:
            return False
        if isinstance(a.func, ast.Attribute) and a.func.attr == "isascii" and not a.args:
            return truth and norm(a.func.value) in ks
        if dotted(a.func) in ("all", "any") and len(a.args) == 1 and isinstance(a.args[0], (ast.GeneratorExp, ast.ListComp)):
            # all(ord(c) < 128 for c in X) is true / any(ord(c) > 127 for c in X) is false: the element test is decided
            # the same way for every element
            if truth != (dotted(a.func) == "all"):
                return False
            comp = a.args[0]
            if len(comp.generators) == 1 and not comp.generators[0].ifs and isinstance(comp.generators[0].target, ast.Name) and norm(comp.generators[0].iter) in ks:
                c = comp.generators[0].target.id
                return any(_below_128(o, x, y, tr, c) for el, tr0 in _conjuncts(comp.elt, truth) for o, x, y, tr in satoms(el, tr0))
            return False
        if depth < 2 and not any(isinstance(x, ast.Starred) for x in a.args):
            # a predicate of the package: `def _is_ascii(text): return text.isascii()` (its only statement is the return),
            # in either polarity (`return not text.isascii()` ... `if _has_wide(x): return`)
            gs = self.resolve_callee(fi, a)
            for g in gs:
                body = [s_ for s_ in g.node.body if not (isinstance(s_, ast.Expr) and isinstance(s_.value, ast.Constant))]  # type: ignore[attr-defined]
                if len(body) != 1 or not isinstance(body[0], ast.Return) or body[0].value is None:
                    return False
                hit = False
                for el, tr0 in _conjuncts(body[0].value, truth):
                    for o, x, y, tr in satoms(el, tr0):
                        for p in g.params:
                            bd = self.bind(g, a, p)
                            if bd is not None and bd[0] == "arg" and norm(bd[1]) in ks and self._ascii_test(g, o, x, y, tr, {p}, depth + 1):
                                hit = True
                if not hit:
                    return False
            return bool(gs)
        return False

    # -- dependence on parameters ---------------------------------------------------
    def param_deps(self, fi: FuncInfo, e: ast.AST, node, _seen: frozenset = frozenset()) -> set[str]:
        """parameters of fi that the value of e may depend on (data dependence through local definitions)."""
        out: set[str] = set()
        for n in ast.walk(e):
            if isinstance(n, ast.Name) and isinstance(n.ctx, ast.Load):
                if hasattr(n, "_parent") and bound_in_enclosing_comp(n, stop=fi.node) is not None:
                    continue
                defs = self.rd(fi).reaching(node, n.id) if node is not None else frozenset()
                for d_ in defs:
                    if d_.kind == "param":
                        out.add(d_.name)
                    elif d_.value is not None and d_.node is not None:
                        k = (id(d_.value), d_.node.id)
                        if k not in _seen:
                            out |= self.param_deps(fi, d_.value, d_.node, _seen | {k})
        return out


def ann_parts(ann: ast.AST) -> list[str]:
    """the alternatives of an annotation: `A | B | None`, Optional[A], Union[A, B] flattened to dotted names ('?' = other)."""
    if isinstance(ann, ast.BinOp) and isinstance(ann.op, ast.BitOr):
        return ann_parts(ann.left) + ann_parts(ann.right)
    if isinstance(ann, ast.Constant) and ann.value is None:
        return ["None"]
    if isinstance(ann, ast.Subscript):
        head = (dotted(ann.value) or "").rsplit(".", 1)[-1]
        if head == "Optional":
            return ann_parts(ann.slice) + ["None"]
        if head == "Union":
            elts = ann.slice.elts if isinstance(ann.slice, ast.Tuple) else [ann.slice]
            return [p for x in elts for p in ann_parts(x)]
        return ["?"]
    return [dotted(ann) or "?"]


def _match_minlen(rx: RegexConst, path: tuple) -> int:
    """a match object: m[0] .. m[<number of groups>] exist (None is not subscriptable: that is the `match-attr` site,
    not an IndexError); m[k] is group k."""
    try:
        if not path:
            return rx.parsed().state.groups
        if path[0][0] == "elem" and len(path) == 1 and path[0][1] >= 0:
            return width(rx)[0] if path[0][1] == 0 else group_width(rx, path[0][1])[0]
    except Exception:
        return 0
    return 0


def _has_anchor(rx: RegexConst) -> bool:
    from .fold import sre_c

    def rec(seq) -> bool:
        for op, av in seq:
            if op in (sre_c.AT, sre_c.ASSERT, sre_c.ASSERT_NOT, sre_c.GROUPREF, sre_c.GROUPREF_EXISTS):
                return True
            if op in (sre_c.MAX_REPEAT, sre_c.MIN_REPEAT) or (hasattr(sre_c, "POSSESSIVE_REPEAT") and op is sre_c.POSSESSIVE_REPEAT):
                if rec(av[2]):
                    return True
            elif op is sre_c.SUBPATTERN:
                if rec(av[3]):
                    return True
            elif op is sre_c.BRANCH:
                if any(rec(b) for b in av[1]):
                    return True
            elif hasattr(sre_c, "ATOMIC_GROUP") and op is sre_c.ATOMIC_GROUP:
                if rec(av):
                    return True
        return False

    return rec(rx.parsed())


# =====================================================================
# E5c: path-wise must-facts (used by the C07 "validated pairs" role)
#
# A small path-sensitive abstract interpreter.  Along ONE path of a function's CFG it keeps, per local value,
#   * nullness            (is None / is not None / unknown),
#   * "is an int"         (when not None),
#   * difference bounds   x - y <= c  /  x - y < c  between values and the constant 0 (a closed difference-bound matrix:
#                         `a >= b`, `not b < a`, `b <= a`, `a == b + 1`, `x = y + 1` ... all become the same constraints),
#   * components          of values that are tuples (pair = (b, e); b2, e2 = pair; pair[0]),
#   * truthiness          of boolean flags (`ok = a < b` splits the path),
#   * other condition atoms as canonical text (only to prune paths that test the same thing twice).
# Conditional expressions, `and` / `or` values and calls of package helpers split the path; a helper is summarised by the
# abstract values it can return, related to the values of its parameters at entry (so a guard may live in the helper and
# the use in the caller, or the reverse).  Loop heads forget every name the loop assigns, so that enumerating the
# acyclic paths is a sound over-approximation of all executions.  Everything is a must-fact: unknown = no fact.

ZERO = "0"
_GID = [0]


def _tighter(a: tuple[int, bool], b: tuple[int, bool]) -> bool:
    return a[0] < b[0] or (a[0] == b[0] and a[1] and not b[1])


class PS:
    """facts along one path."""

    __slots__ = ("null", "ints", "db", "gen", "tup", "opq", "grp", "deps", "truth", "org", "mt", "wm", "tags")

    def __init__(self) -> None:
        self.null: dict[str, bool] = {}
        self.ints: set[str] = set()
        self.db: dict[tuple[str, str], tuple[int, bool]] = {}
        self.gen: dict[str, tuple[bool, frozenset]] = {}
        self.tup: dict[str, tuple[str, ...]] = {}
        self.opq: set[str] = set()
        self.grp: dict[str, int] = {}
        self.deps: dict[str, frozenset] = {}
        self.truth: dict[str, bool] = {}
        self.org: dict[str, str] = {}  # value produced by a tagged call (a `progress maker`)
        self.mt: dict[str, tuple] = {}  # match object: (regex, subject local | None, (position var, offset) | None, method)
        self.wm: dict[str, str] = {}  # text that is the whole match of that match object
        self.tags: set[str] = set()  # tagged calls evaluated on this path

    def copy(self) -> "PS":
        s = PS()
        s.null = dict(self.null)
        s.ints = set(self.ints)
        s.db = dict(self.db)
        s.gen = dict(self.gen)
        s.tup = dict(self.tup)
        s.opq = set(self.opq)
        s.grp = dict(self.grp)
        s.deps = dict(self.deps)
        s.truth = dict(self.truth)
        s.org = dict(self.org)
        s.mt = dict(self.mt)
        s.wm = dict(self.wm)
        s.tags = set(self.tags)
        return s

    # -- variables -----------------------------------------------------------
    def members(self, v: str) -> list[str]:
        g = self.grp.get(v)
        if g is None:
            return [v]
        return [w for w, h in self.grp.items() if h == g]

    def union(self, v: str, w: str) -> None:
        gv, gw = self.grp.get(v), self.grp.get(w)
        if gv is None and gw is None:
            _GID[0] += 1
            self.grp[v] = self.grp[w] = _GID[0]
        elif gv is None:
            self.grp[v] = gw  # type: ignore[assignment]
        elif gw is None:
            self.grp[w] = gv
        elif gv != gw:
            for x, h in list(self.grp.items()):
                if h == gw:
                    self.grp[x] = gv

    def set_null(self, v: str, b: bool) -> bool:
        for w in self.members(v):
            cur = self.null.get(w)
            if cur is not None and cur != b:
                return False
            self.null[w] = b
            if b:
                self.truth[w] = False
        return True

    def is_int(self, v: str) -> bool:
        return v == ZERO or v in self.ints

    def kill(self, v: str) -> None:
        for c in self.tup.pop(v, ()):
            self.kill(c)
        self.null.pop(v, None)
        self.ints.discard(v)
        self.opq.discard(v)
        self.grp.pop(v, None)
        self.truth.pop(v, None)
        self.deps.pop(v, None)
        self.org.pop(v, None)
        self.mt.pop(v, None)
        self.wm.pop(v, None)
        if self.mt:
            for k3 in [k3 for k3, m_ in self.mt.items() if m_[1] == v or (m_[2] is not None and m_[2][0] == v)]:
                del self.mt[k3]
        if self.wm:
            for k3 in [k3 for k3, m_ in self.wm.items() if m_ == v]:
                del self.wm[k3]
        if self.db:
            for k in [k for k in self.db if k[0] == v or k[1] == v]:
                del self.db[k]
        for t_, names in list(self.deps.items()):
            if v in names:
                self.kill(t_)
        for k2 in [k2 for k2, (_, names) in self.gen.items() if v in names]:
            del self.gen[k2]

    def unknown(self, v: str, opaque: bool = False) -> None:
        self.kill(v)
        if opaque:
            self.opq.add(v)

    def copy_var(self, src: str, dst: str) -> None:
        """dst (fresh) becomes the same value as src."""
        if src in self.null:
            self.null[dst] = self.null[src]
        if src in self.ints:
            self.ints.add(dst)
        if src in self.opq:
            self.opq.add(dst)
        if src in self.truth:
            self.truth[dst] = self.truth[src]
        if src in self.org:
            self.org[dst] = self.org[src]
        if src in self.mt:
            self.mt[dst] = self.mt[src]
        if src in self.wm:
            self.wm[dst] = self.wm[src]
        if src in self.tup:
            comps = []
            for i, c in enumerate(self.tup[src]):
                d = f"{dst}#{i}"
                self.copy_var(c, d)
                comps.append(d)
            self.tup[dst] = tuple(comps)
            return
        self.union(src, dst)
        if self.null.get(src) is not True:
            self.add(dst, src, 0)
            self.add(src, dst, 0)
        ls = f"len({src})"
        if ls in self.deps:
            ld = self.lenvar(dst)
            self.add(ld, ls, 0)
            self.add(ls, ld, 0)

    def lenvar(self, v: str) -> str:
        """the variable that stands for len(v) (created on demand; forgotten when v is rebound)."""
        k = f"len({v})"
        if k not in self.deps:
            self.deps[k] = frozenset({v})
            self.null[k] = False
            self.ints.add(k)
            self.add(ZERO, k, 0)
        return k

    # -- difference bounds ----------------------------------------------------
    def bound(self, x: str, y: str) -> tuple[int, bool] | None:
        if x == y:
            return (0, False)
        return self.db.get((x, y))

    def add(self, x: str, y: str, c: int, strict: bool = False) -> bool:
        """x - y <= c (< c when strict); False when the facts become contradictory."""
        if strict and self.is_int(x) and self.is_int(y):
            c, strict = c - 1, False
        if x == y:
            return c > 0 or (c == 0 and not strict)
        cur = self.db.get((x, y))
        if cur is not None and not _tighter((c, strict), cur):
            return True
        vs = {ZERO, x, y}
        for a, b in self.db:
            vs.add(a)
            vs.add(b)
        to_x = {i: self.bound(i, x) for i in vs}
        from_y = {j: self.bound(y, j) for j in vs}
        for i, dix in to_x.items():
            if dix is None:
                continue
            for j, dyj in from_y.items():
                if dyj is None:
                    continue
                nb = (dix[0] + c + dyj[0], dix[1] or strict or dyj[1])
                if nb[1] and self.is_int(i) and self.is_int(j):
                    nb = (nb[0] - 1, False)
                if i == j:
                    if nb[0] < 0 or (nb[0] == 0 and nb[1]):
                        return False
                    continue
                cur = self.db.get((i, j))
                if cur is None or _tighter(nb, cur):
                    self.db[(i, j)] = nb
        return True

    def entails(self, x: str, y: str, c: int, strict: bool = False) -> bool:
        b = self.bound(x, y)
        return b is not None and (b == (c, strict) or _tighter(b, (c, strict)))

    def exact(self, v: str) -> int | None:
        hi, lo = self.db.get((v, ZERO)), self.db.get((ZERO, v))
        if hi is not None and lo is not None and not hi[1] and not lo[1] and hi[0] == -lo[0]:
            return hi[0]
        return None

    # -- restriction ----------------------------------------------------------
    def closure_of(self, roots: t.Iterable[str]) -> set[str]:
        keep: set[str] = set()
        work = list(roots)
        while work:
            v = work.pop()
            if v in keep:
                continue
            keep.add(v)
            work.extend(self.tup.get(v, ()))
        return keep

    def project(self, roots: t.Iterable[str], gen_names: t.Iterable[str] = ()) -> "PS":
        keep = self.closure_of(roots)
        s = PS()
        gn = set(gen_names)
        if gn:
            s.gen = {k: v for k, v in self.gen.items() if v[1] and v[1] <= gn}
        s.null = {v: b for v, b in self.null.items() if v in keep}
        s.ints = {v for v in self.ints if v in keep}
        s.opq = {v for v in self.opq if v in keep}
        s.truth = {v: b for v, b in self.truth.items() if v in keep}
        s.tup = {v: c for v, c in self.tup.items() if v in keep}
        s.grp = {v: g for v, g in self.grp.items() if v in keep}
        k2 = keep | {ZERO}
        s.db = {k: b for k, b in self.db.items() if k[0] in k2 and k[1] in k2}
        return s

    def key(self) -> tuple:
        groups: dict[int, list[str]] = {}
        for v, g in self.grp.items():
            groups.setdefault(g, []).append(v)
        gs = sorted(tuple(sorted(m)) for m in groups.values() if len(m) > 1)
        return (tuple(sorted((k, v[0]) for k, v in self.gen.items())), tuple(sorted(self.null.items())), tuple(sorted(self.ints)), tuple(sorted(self.opq)), tuple(sorted(self.truth.items())), tuple(sorted(self.tup.items())), tuple(sorted(self.db.items())), tuple(gs))

    def renamed(self, ren: t.Callable[[str], str | None]) -> "PS":
        """a copy with every variable v replaced by ren(v); facts about a variable mapped to None are dropped."""
        s = PS()
        for v, b in self.null.items():
            if ren(v) is not None:
                s.null[ren(v)] = b  # type: ignore[index]
        s.ints = {ren(v) for v in self.ints if ren(v) is not None}  # type: ignore[misc]
        s.opq = {ren(v) for v in self.opq if ren(v) is not None}  # type: ignore[misc]
        for v, b in self.truth.items():
            if ren(v) is not None:
                s.truth[ren(v)] = b  # type: ignore[index]
        for v, comps in self.tup.items():
            if ren(v) is not None and all(ren(c) is not None for c in comps):
                s.tup[ren(v)] = tuple(ren(c) for c in comps)  # type: ignore[index,misc]
        for v, g in self.grp.items():
            if ren(v) is not None:
                s.grp[ren(v)] = g  # type: ignore[index]
        for (x, y), b in self.db.items():
            rx = ZERO if x == ZERO else ren(x)
            ry = ZERO if y == ZERO else ren(y)
            if rx is not None and ry is not None:
                s.db[(rx, ry)] = b
        return s

    def merge(self, other: "PS") -> bool:
        """conjoin the facts of `other` (already renamed into this state's variables); False when contradictory."""
        for v, b in other.null.items():
            if not self.set_null(v, b):
                return False
        self.ints |= other.ints
        self.opq |= other.opq
        for v, b in other.truth.items():
            cur = self.truth.get(v)
            if cur is not None and cur != b:
                return False
            self.truth[v] = b
        for v, comps in other.tup.items():
            self.tup[v] = comps
        groups: dict[int, list[str]] = {}
        for v, g in other.grp.items():
            groups.setdefault(g, []).append(v)
        for m in groups.values():
            for w in m[1:]:
                self.union(m[0], w)
        for v in list(other.null):
            # nullness learnt for one member of a group holds for all
            if not self.set_null(v, other.null[v]):
                return False
        for (x, y), (c, strict) in other.db.items():
            if not self.add(x, y, c, strict):
                return False
        return True

    def describe(self, vs: t.Iterable[str]) -> str:
        out = []
        for v in vs:
            if self.null.get(v) is True:
                out.append(f"{v} is None")
                continue
            bits = []
            if self.null.get(v) is False:
                bits.append("not None")
            if v in self.ints:
                bits.append("int")
            if v in self.opq:
                bits.append("origin not modelled")
            for (x, y), (c, strict) in sorted(self.db.items()):
                if x == v and (y == ZERO or y in vs):
                    bits.append(f"{x} - {y} {'<' if strict else '<='} {c}")
                elif y == v and x == ZERO:
                    bits.append(f"{y} {'>' if strict else '>='} {-c}")
            out.append(f"{v}: " + (", ".join(bits) if bits else "nothing known"))
        return "; ".join(out)


class _TooMany(Exception):
    pass


def _strip_walrus(e: ast.AST) -> ast.AST:
    """the expression with every `(x := value)` replaced by x (the assignment has been evaluated already)."""
    if not any(isinstance(x, ast.NamedExpr) for x in ast.walk(e)):
        return e

    class T(ast.NodeTransformer):
        def visit_NamedExpr(self, n):  # noqa: N802
            return ast.Name(n.target.id, ast.Load())

    return ast.fix_missing_locations(T().visit(ast.parse(ast.unparse(e), mode="eval").body))


def _empty_needs_end(seq) -> bool:
    """the regex sequence can match the empty string only by passing an end-of-string assertion."""
    from .fold import sre_c

    for op, av in seq:
        if op is sre_c.AT:
            if av in (sre_c.AT_END, sre_c.AT_END_STRING):
                return True
            continue
        if op in (sre_c.MAX_REPEAT, sre_c.MIN_REPEAT):
            if av[0] >= 1 and (av[2].getwidth()[0] >= 1 or _empty_needs_end(av[2])):
                return True
            continue
        if op is sre_c.SUBPATTERN:
            if av[3].getwidth()[0] >= 1 or _empty_needs_end(av[3]):
                return True
            continue
        if op is sre_c.BRANCH:
            if all(b.getwidth()[0] >= 1 or _empty_needs_end(b) for b in av[1]):
                return True
            continue
        if op in (sre_c.ASSERT, sre_c.ASSERT_NOT, sre_c.GROUPREF, sre_c.GROUPREF_EXISTS):
            continue
        return True  # literal / class / any: width >= 1
    return False


def _pure_text(e: ast.AST) -> bool:
    """an expression whose value depends only on the names in it (names, constants, attribute / item access, str methods)."""
    if isinstance(e, (ast.Name, ast.Constant)):
        return True
    if isinstance(e, ast.Attribute):
        return _pure_text(e.value)
    if isinstance(e, ast.Subscript):
        return _pure_text(e.value) and (isinstance(e.slice, ast.Constant) or (isinstance(e.slice, ast.Slice) and all(x is None or const_int(x) is not None for x in (e.slice.lower, e.slice.upper, e.slice.step))))
    if isinstance(e, ast.Call) and isinstance(e.func, ast.Attribute) and e.func.attr in _NONNULL_METHODS and not e.keywords:
        return _pure_text(e.func.value) and all(isinstance(x, ast.Constant) for x in e.args)
    return False


def _subst_key(key: str, mp: dict[str, ast.AST]) -> tuple[str, bool, set[str]] | None:
    """the canonical atom `key` with names replaced by expressions: (new key, polarity, names)."""
    from .guards import canon

    try:
        tree = ast.parse(key, mode="eval").body
    except SyntaxError:
        return None

    class T(ast.NodeTransformer):
        def visit_Name(self, n):  # noqa: N802
            if n.id in mp:
                return ast.parse(ast.unparse(mp[n.id]), mode="eval").body
            return n

    new = ast.fix_missing_locations(T().visit(tree))
    k, pol = canon(new)
    return k, pol, set(astq.names_in(new))


def _import_generic(st: "PS", other: "PS", binding: dict[str, t.Any]) -> bool:
    """conjoin other's textual atoms (over parameter names) into st, rewritten over the bound argument expressions."""
    for key, (truth, names) in other.gen.items():
        mp = {}
        for nm in names:
            b = binding.get(nm)
            if b is None or not _pure_text(b[1]):
                mp = None
                break
            mp[nm] = b[1]
        if mp is None:
            continue
        got = _subst_key(key, mp)
        if got is None:
            continue
        k2, pol, names2 = got
        val = truth == pol
        cur = st.gen.get(k2)
        if cur is not None:
            if cur[0] != val:
                return False
            continue
        st.gen[k2] = (val, frozenset(names2))
    return True


_NONNULL_METHODS = {
    "strip", "lstrip", "rstrip", "lower", "upper", "casefold", "title", "split", "rsplit", "partition", "rpartition", "replace", "join",
    "format", "encode", "decode", "startswith", "endswith", "splitlines", "find", "rfind", "index", "count", "isdigit", "items", "keys", "values", "copy",
}
_INT_METHODS = {"find", "rfind", "index", "rindex", "count"}
_INT_ANN = {"int"}
_OPT_INT_ANN = {"int | None", "None | int", "Optional[int]", "t.Optional[int]", "typing.Optional[int]"}


class PathSim:
    LIMIT = 200000

    def __init__(self, flow: "Flow"):
        self.flow = flow
        self.repo = flow.repo
        self._sum: dict[str, list[PS] | None] = {}
        self._busy: set[str] = set()
        self._n = 0
        self._locals: dict[str, set[str]] = {}
        self._loops: dict[str, dict[int, set[str]]] = {}
        self._mono: dict[tuple[str, int], dict[str, set[str]]] = {}
        self._inv: dict[tuple, tuple] = {}
        self.steps = 0
        self.cur_node = None  # CFG node being evaluated (for the guard-based bounds of Flow)
        self.call_tag: t.Callable[[FuncInfo, ast.Call], str | None] | None = None  # marks `progress maker` calls

    def tmp(self, tag: str = "") -> str:
        self._n += 1
        return f"${tag}{self._n}"

    # -- per function ----------------------------------------------------------
    def locals_of(self, fi: FuncInfo) -> set[str]:
        if fi.fq not in self._locals:
            a = fi.node.args  # type: ignore[attr-defined]
            names = {x.arg for x in a.posonlyargs + a.args + a.kwonlyargs}
            for x in (a.vararg, a.kwarg):
                if x is not None:
                    names.add(x.arg)
            for n in walk_no_nested(fi.node):
                if isinstance(n, ast.Name) and isinstance(n.ctx, (ast.Store, ast.Del)):
                    names.add(n.id)
                elif isinstance(n, ast.ExceptHandler) and n.name:
                    names.add(n.name)
            self._locals[fi.fq] = names
        return self._locals[fi.fq]

    def loop_assigned(self, fi: FuncInfo) -> dict[int, set[str]]:
        """CFG head node id of every loop -> names (re)bound somewhere in that loop."""
        if fi.fq not in self._loops:
            cfg = cfg_of(fi)
            out: dict[int, set[str]] = {}
            for n in walk_no_nested(fi.node):
                if isinstance(n, (ast.For, ast.AsyncFor, ast.While)):
                    names: set[str] = set()
                    for x in [n, *walk_no_nested(n)]:
                        if isinstance(x, ast.Name) and isinstance(x.ctx, (ast.Store, ast.Del)):
                            names.add(x.id)
                        elif isinstance(x, ast.ExceptHandler) and x.name:
                            names.add(x.name)
                    for h in cfg.by_ast.get(id(n), []):
                        if h.kind in ("loop", "join"):
                            out[h.id] = names
            self._loops[fi.fq] = out
        return self._loops[fi.fq]

    def entry_state(self, fi: FuncInfo, shadows: bool = False) -> PS:
        st = PS()
        a = fi.node.args  # type: ignore[attr-defined]
        for x in a.posonlyargs + a.args + a.kwonlyargs:
            ann = x.annotation
            if isinstance(ann, ast.Constant) and isinstance(ann.value, str):
                txt = " ".join(ann.value.split())
            else:
                txt = norm(ann) if ann is not None else ""
            if txt in _INT_ANN:
                st.null[x.arg] = False
                st.ints.add(x.arg)
            elif txt in _OPT_INT_ANN:
                st.ints.add(x.arg)
            elif txt in ("str", "bytes", "bool"):
                st.null[x.arg] = False
            if shadows:
                st.copy_var(x.arg, x.arg + "@")
        return st

    # -- expressions -------------------------------------------------------------
    def var_of(self, fi: FuncInfo, st: PS, e: ast.AST) -> str | None:
        """the state variable an expression denotes (a local, a component of a tuple-valued local)."""
        if isinstance(e, ast.NamedExpr):
            e = e.target
        if isinstance(e, ast.Name):
            return e.id
        if isinstance(e, ast.Subscript):
            k = const_int(e.slice)
            base = self.var_of(fi, st, e.value)
            if k is not None and base is not None and base in st.tup:
                comps = st.tup[base]
                if -len(comps) <= k < len(comps):
                    return comps[k]
        return None

    def operand(self, fi: FuncInfo, st: PS, e: ast.AST) -> tuple[str, int] | None:
        """(variable, offset) with value(e) == variable + offset, for the operands of an order comparison."""
        c = const_int(e)
        if c is not None:
            return (ZERO, c)
        if isinstance(e, ast.BinOp) and isinstance(e.op, (ast.Add, ast.Sub)):
            cr, cl = const_int(e.right), const_int(e.left)
            if cr is not None:
                o = self.operand(fi, st, e.left)
                return None if o is None else (o[0], o[1] + (cr if isinstance(e.op, ast.Add) else -cr))
            if cl is not None and isinstance(e.op, ast.Add):
                o = self.operand(fi, st, e.right)
                return None if o is None else (o[0], o[1] + cl)
            return None
        if isinstance(e, ast.Call) and dotted(e.func) == "len" and len(e.args) == 1 and not e.keywords:
            av = self.var_of(fi, st, e.args[0])
            if av is not None:
                return (st.lenvar(av), 0)
            key = norm(e)
            if key not in st.deps:
                st.deps[key] = frozenset(astq.names_in(e))
                st.null[key] = False
                st.ints.add(key)
                st.add(ZERO, key, 0)
            return (key, 0)
        v = self.var_of(fi, st, e)
        if v is None or v in st.tup or st.null.get(v) is True:
            return None
        return (v, 0)

    def eval(self, fi: FuncInfo, st: PS, e: ast.AST | None, tv: str) -> list[PS]:
        """bind the fresh variable tv to the value of e; consumes st, returns the resulting states."""
        if e is None or (isinstance(e, ast.Constant) and e.value is None):
            st.set_null(tv, True)
            return [st]
        c = const_int(e)
        if c is not None:
            st.null[tv] = False
            st.ints.add(tv)
            st.truth[tv] = c != 0
            st.add(tv, ZERO, c)
            st.add(ZERO, tv, -c)
            return [st]
        if isinstance(e, ast.Constant):
            st.null[tv] = False
            if isinstance(e.value, (bool, str, bytes)):
                st.truth[tv] = bool(e.value)
            if isinstance(e.value, (str, bytes)):
                lv = st.lenvar(tv)
                st.add(lv, ZERO, len(e.value))
                st.add(ZERO, lv, -len(e.value))
            return [st]
        if isinstance(e, ast.Name):
            if e.id not in self.locals_of(fi) and not (hasattr(e, "_parent") and bound_in_enclosing_comp(e, stop=fi.node) is not None):
                try:
                    v = self.flow.folder.name(fi.module, e.id)
                except Exception:
                    v = None
                if isinstance(v, int) and not isinstance(v, bool):
                    return self.eval(fi, st, ast.Constant(v), tv)
                st.opq.add(tv)
                return [st]
            st.copy_var(e.id, tv)
            return [st]
        if isinstance(e, ast.NamedExpr):
            out = []
            for s in self.eval(fi, st, e.value, tv):
                s.kill(e.target.id)
                s.copy_var(tv, e.target.id)
                out.append(s)
            return out
        if isinstance(e, ast.IfExp):
            out = []
            for s in self.assume(fi, st.copy(), e.test, True):
                out += self.eval(fi, s, e.body, tv)
            for s in self.assume(fi, st, e.test, False):
                out += self.eval(fi, s, e.orelse, tv)
            return out
        if isinstance(e, ast.BoolOp):
            return self._eval_boolop(fi, st, list(e.values), isinstance(e.op, ast.And), tv)
        if isinstance(e, ast.Compare) or (isinstance(e, ast.UnaryOp) and isinstance(e.op, ast.Not)):
            return self._eval_bool(fi, st, e, tv)
        if isinstance(e, ast.UnaryOp) and isinstance(e.op, (ast.USub, ast.UAdd)):
            t1 = self.tmp()
            out = []
            for s in self.eval(fi, st, e.operand, t1):
                s.null[tv] = False
                if t1 in s.ints:
                    s.ints.add(tv)
                if t1 in s.opq:
                    s.opq.add(tv)
                if isinstance(e.op, ast.UAdd):
                    s.add(tv, t1, 0)
                    s.add(t1, tv, 0)
                else:
                    lo, hi = s.db.get((ZERO, t1)), s.db.get((t1, ZERO))
                    if lo is not None:
                        s.add(tv, ZERO, lo[0], lo[1])
                    if hi is not None:
                        s.add(ZERO, tv, hi[0], hi[1])
                s.kill(t1)
                out.append(s)
            return out
        if isinstance(e, ast.BinOp):
            return self._eval_binop(fi, st, e, tv)
        if isinstance(e, (ast.Tuple, ast.List)):
            if any(isinstance(x, ast.Starred) for x in e.elts):
                st.null[tv] = False
                st.opq.add(tv)
                return [st]
            states = [st]
            comps = tuple(f"{tv}#{i}" for i in range(len(e.elts)))
            for x, cv in zip(e.elts, comps):
                nxt: list[PS] = []
                for s in states:
                    nxt += self.eval(fi, s, x, cv)
                states = nxt
            for s in states:
                s.tup[tv] = comps
                s.null[tv] = False
                s.truth[tv] = bool(comps)
            return states
        if isinstance(e, ast.Subscript) and isinstance(e.slice, ast.Slice):
            return self._eval_slice(fi, st, e, tv)
        if isinstance(e, ast.Subscript):
            v = self.var_of(fi, st, e)
            if v is not None:
                st.copy_var(v, tv)
                return [st]
            k = const_int(e.slice)
            mv = self.var_of(fi, st, e.value)
            if k is not None and mv is not None and mv in st.mt:
                return self._match_part(fi, st, mv, "group", [k], tv)
            if k is not None and k >= 1 and isinstance(e.value, ast.Call) and isinstance(e.value.func, ast.Attribute) and e.value.func.attr == "split" and e.value.args and const_text(e.value.args[0]):
                # element k >= 1 of X.split(sep, ...): at least one separator was cut off in front of it
                t1 = self.tmp()
                out = []
                for s in self.eval(fi, st, e.value.func.value, t1):
                    s.null[tv] = False
                    s.add(s.lenvar(tv), s.lenvar(t1), -len(const_text(e.value.args[0])))
                    s.kill(t1)
                    out.append(s)
                return out
            if k is not None and isinstance(e.value, ast.Call):
                t1 = self.tmp()
                out = []
                for s in self.eval(fi, st, e.value, t1):
                    comps = s.tup.get(t1)
                    if comps is not None and -len(comps) <= k < len(comps):
                        s.copy_var(comps[k], tv)
                    else:
                        s.opq.add(tv)
                    s.kill(t1)
                    out.append(s)
                return out
            st.opq.add(tv)
            return [st]
        if isinstance(e, ast.Call):
            return self._eval_call(fi, st, e, tv)
        if isinstance(e, (ast.JoinedStr, ast.Dict, ast.Set, ast.ListComp, ast.SetComp, ast.DictComp, ast.GeneratorExp, ast.Lambda)):
            st.null[tv] = False
            return [st]
        st.opq.add(tv)
        return [st]

    def _eval_bool(self, fi: FuncInfo, st: PS, e: ast.AST, tv: str) -> list[PS]:
        out = []
        for truth in (True, False):
            for s in self.assume(fi, st.copy(), e, truth):
                s.null[tv] = False
                s.truth[tv] = truth
                out.append(s)
        return out

    def _eval_boolop(self, fi: FuncInfo, st: PS, values: list[ast.AST], is_and: bool, tv: str) -> list[PS]:
        """`a and b` is a when a is falsy else b; `a or b` is a when a is truthy else b."""
        if len(values) == 1:
            return self.eval(fi, st, values[0], tv)
        out: list[PS] = []
        t1 = self.tmp()
        for s in self.eval(fi, st, values[0], t1):
            known = s.truth.get(t1)
            for truth in (True, False):
                if known is not None and known != truth:
                    continue
                for s2 in self.assume(fi, s.copy(), values[0], truth):
                    if truth != is_and:  # the first operand is the result
                        s2.copy_var(t1, tv)
                        s2.truth[tv] = truth
                        if truth:
                            s2.set_null(tv, False)
                        s2.kill(t1)
                        out.append(s2)
                    else:
                        s2.kill(t1)
                        out += self._eval_boolop(fi, s2, values[1:], is_and, tv)
        return out

    def _eval_binop(self, fi: FuncInfo, st: PS, e: ast.BinOp, tv: str) -> list[PS]:
        t1, t2 = self.tmp(), self.tmp()
        out = []
        for s1 in self.eval(fi, st, e.left, t1):
            for s in self.eval(fi, s1, e.right, t2):
                s.null[tv] = False
                if t1 in s.ints and t2 in s.ints and isinstance(e.op, (ast.Add, ast.Sub, ast.Mult, ast.FloorDiv, ast.Mod)):
                    s.ints.add(tv)
                if t1 in s.opq or t2 in s.opq:
                    s.opq.add(tv)
                c1, c2 = s.exact(t1), s.exact(t2)
                if isinstance(e.op, ast.Add):
                    if c2 is not None:
                        s.add(tv, t1, c2)
                        s.add(t1, tv, -c2)
                    elif c1 is not None:
                        s.add(tv, t2, c1)
                        s.add(t2, tv, -c1)
                    else:
                        for a_, b_ in ((t1, t2), (t2, t1)):
                            lo = s.db.get((ZERO, a_))  # a_ >= -lo  =>  tv >= b_ - lo
                            if lo is not None:
                                s.add(b_, tv, lo[0], lo[1])
                            hi = s.db.get((a_, ZERO))  # a_ <= hi  =>  tv <= b_ + hi
                            if hi is not None:
                                s.add(tv, b_, hi[0], hi[1])
                elif isinstance(e.op, ast.Sub):
                    if c2 is not None:
                        s.add(tv, t1, -c2)
                        s.add(t1, tv, c2)
                    else:
                        d12, d21 = s.db.get((t1, t2)), s.db.get((t2, t1))
                        if d12 is not None:
                            s.add(tv, ZERO, d12[0], d12[1])
                        if d21 is not None:
                            s.add(ZERO, tv, d21[0], d21[1])
                s.kill(t1)
                s.kill(t2)
                out.append(s)
        return out

    def _eval_call(self, fi: FuncInfo, st: PS, e: ast.Call, tv: str) -> list[PS]:
        tag = self.call_tag(fi, e) if self.call_tag is not None else None
        out = self._eval_call0(fi, st, e, tv)
        if tag is not None:
            for s in out:
                s.org[tv] = tag
                s.tags.add(tag)
        return out

    def _eval_slice(self, fi: FuncInfo, st: PS, e: ast.Subscript, tv: str) -> list[PS]:
        """X[a:b]: never longer than X; shorter by the lower bound (when that is known to lie inside X, else by one)."""
        sl = e.slice
        t1 = self.tmp()
        out = []
        for s in self.eval(fi, st, e.value, t1):
            states = [s]
            tl = None
            if sl.lower is not None and sl.step is None:  # type: ignore[attr-defined]
                tl = self.tmp()
                states = self.eval(fi, s, sl.lower, tl)  # type: ignore[attr-defined]
            for s2 in states:
                s2.null[tv] = False
                if t1 in s2.opq:
                    s2.opq.add(tv)
                l1, lt = s2.lenvar(t1), s2.lenvar(tv)
                s2.add(lt, l1, 0)
                if tl is not None:
                    lo = s2.db.get((ZERO, tl))  # tl >= -lo[0]
                    if lo is not None and -lo[0] >= 1:
                        inside = s2.entails(tl, l1, 0)
                        s2.add(lt, l1, lo[0] if inside else -1)
                    s2.kill(tl)
                if sl.upper is not None and sl.step is None and const_int(sl.upper) is not None and const_int(sl.upper) >= 0 and (sl.lower is None or const_int(sl.lower) == 0):  # type: ignore[attr-defined]
                    s2.add(lt, ZERO, const_int(sl.upper))  # type: ignore[attr-defined]
                s2.kill(t1)
                out.append(s2)
        return out

    def _match_part(self, fi: FuncInfo, st: PS, mv: str, what: str, args: list, tv: str) -> list[PS]:
        """m.end() / m.start() / m.span() / m.group(k) / m[k] for a match object with known regex, subject and position."""
        rx, subj, pos, method = st.mt[mv]
        try:
            minw = width(rx)[0]
            needs_end = not (rx.flags & re.M) and _empty_needs_end(rx.parsed())
        except Exception:
            minw, needs_end = 0, False
        ls = st.lenvar(subj) if subj is not None else None

        def end_var(v: str) -> None:
            st.null[v] = False
            st.ints.add(v)
            st.add(ZERO, v, 0)
            if ls is not None:
                st.add(v, ls, 0)
            adv = minw
            if pos is not None:
                pv, off = pos
                if adv == 0 and needs_end and ls is not None and st.entails(pv, ls, -off, True):
                    adv = 1  # an empty match needs the end of the text at its position; the position is before the end
                st.add(pv, v, -off - adv)  # v >= pos + adv
            else:
                if adv == 0 and needs_end and ls is not None and st.entails(ZERO, ls, -1):
                    adv = 1
                st.add(ZERO, v, -adv)

        def start_var(v: str) -> None:
            st.null[v] = False
            st.ints.add(v)
            st.add(ZERO, v, 0)
            if ls is not None:
                st.add(v, ls, 0)
            if pos is not None:
                pv, off = pos
                st.add(pv, v, -off)
                if method in ("match", "fullmatch"):
                    st.add(v, pv, off)
            elif method in ("match", "fullmatch"):
                st.add(v, ZERO, 0)

        if what == "end" and not args:
            end_var(tv)
        elif what == "start" and not args:
            start_var(tv)
        elif what == "span" and not args:
            start_var(f"{tv}#0")
            end_var(f"{tv}#1")
            st.tup[tv] = (f"{tv}#0", f"{tv}#1")
            st.null[tv] = False
        elif what == "group" and (not args or args == [0]):
            st.null[tv] = False
            st.wm[tv] = mv
            adv = minw
            if adv == 0 and needs_end and ls is not None and method in ("match", "fullmatch"):
                # the whole match of an anchored attempt is as long as the distance its end() moves: an empty match
                # needs the end of the text at the position tried, and that position is in front of the end
                if (st.entails(pos[0], ls, -pos[1], True) if pos is not None else st.entails(ZERO, ls, -1)):
                    adv = 1
            st.add(ZERO, st.lenvar(tv), -adv)
            if adv >= 1:
                st.truth[tv] = True
        elif what in ("end", "start", "span"):
            st.null[tv] = False
        # group(k >= 1) may be None when the group did not take part
        return [st]

    def _eval_call0(self, fi: FuncInfo, st: PS, e: ast.Call, tv: str) -> list[PS]:
        d = dotted(e.func)
        li = self.flow.local_imports(fi)
        fq = self.repo.resolve(fi.module, d, li) if d else None
        last = (d or "").rsplit(".", 1)[-1]
        if last == "cast" and len(e.args) == 2:
            return self.eval(fi, st, e.args[1], tv)
        if fq == "builtins.len" and len(e.args) == 1 and not e.keywords:
            t1 = self.tmp()
            out = []
            lb = 0
            if self.cur_node is not None:
                save_cur, save_sa = self.flow.cur, self.flow.site_ast
                self.flow.cur, self.flow.site_ast = None, None  # a bound that holds for every caller: the result is cached
                try:
                    lb = self.flow.minlen(fi, e.args[0], self.cur_node)
                except Exception:
                    lb = 0
                finally:
                    self.flow.cur, self.flow.site_ast = save_cur, save_sa
            av = self.var_of(fi, st, e.args[0])
            if av is not None and av not in st.tup and not isinstance(e.args[0], ast.NamedExpr):
                st.lenvar(av)  # the length of a local is a value of its own: created before the copy so that both stay related
            for s in self.eval(fi, st, e.args[0], t1):
                l1 = s.lenvar(t1)
                s.null[tv] = False
                s.ints.add(tv)
                s.add(tv, l1, 0)
                s.add(l1, tv, 0)
                if 0 < lb < INF:
                    s.add(ZERO, tv, -lb)
                s.kill(t1)
                out.append(s)
            return out
        if fq in ("builtins.int", "builtins.len", "builtins.abs", "builtins.ord", "builtins.hash"):
            st.null[tv] = False
            st.ints.add(tv)
            if fq in ("builtins.len", "builtins.ord"):
                st.add(ZERO, tv, 0)
            if fq == "builtins.abs" and len(e.args) == 1:
                st.ints.discard(tv)
                t1 = self.tmp()
                out = []
                for s in self.eval(fi, st, e.args[0], t1):
                    if t1 in s.ints:
                        s.ints.add(tv)
                    s.add(ZERO, tv, 0)
                    s.kill(t1)
                    out.append(s)
                return out
            return [st]
        if fq in ("builtins.max", "builtins.min") and e.args and not e.keywords and len(e.args) >= 2:
            states = [st]
            ts = []
            for x in e.args:
                t1 = self.tmp()
                ts.append(t1)
                nxt: list[PS] = []
                for s in states:
                    nxt += self.eval(fi, s, x, t1)
                states = nxt
            for s in states:
                s.null[tv] = False
                if all(t1 in s.ints for t1 in ts):
                    s.ints.add(tv)
                if any(t1 in s.opq for t1 in ts):
                    s.opq.add(tv)
                for t1 in ts:
                    if fq == "builtins.max":
                        s.add(t1, tv, 0)
                    else:
                        s.add(tv, t1, 0)
                for t1 in ts:
                    s.kill(t1)
            return states
        if fq == "builtins.bool" and len(e.args) == 1:
            return self._eval_bool(fi, st, e.args[0], tv)
        if fq in ("builtins.float", "builtins.str", "builtins.bytes", "builtins.list", "builtins.tuple", "builtins.dict", "builtins.set", "builtins.sorted", "builtins.repr", "builtins.isinstance", "builtins.callable", "builtins.any", "builtins.all"):
            st.null[tv] = False
            return [st]
        gs = self.flow.resolve_callee(fi, e)
        if gs:
            out = []
            for g in gs:
                out += self._call_summary(fi, st.copy(), e, tv, g)
            return out
        if fq and fq.startswith("werkzeug.") and self.repo.try_cls(fq) is not None:
            st.null[tv] = False
            return [st]
        if isinstance(e.func, ast.Attribute):
            got = self._eval_method(fi, st, e, tv)
            if got is not None:
                return got
        if isinstance(e.func, ast.Attribute) and e.func.attr in _NONNULL_METHODS:
            st.null[tv] = False
            if e.func.attr in _INT_METHODS:
                st.ints.add(tv)
            return [st]
        st.opq.add(tv)
        return [st]

    def _eval_method(self, fi: FuncInfo, st: PS, e: ast.Call, tv: str) -> list[PS] | None:
        """methods of match objects, regexes and texts whose result is related to the receiver."""
        m = e.func.attr  # type: ignore[attr-defined]
        recv = e.func.value  # type: ignore[attr-defined]
        rv = self.var_of(fi, st, recv)
        if rv is not None and rv in st.mt and m in ("end", "start", "span", "group"):
            ks = [const_int(x) for x in e.args]
            if m == "group" and (len(ks) > 1 or any(k is None for k in ks)):
                st.opq.add(tv)
                return [st]
            return self._match_part(fi, st, rv, m, ks, tv)
        if m in ("match", "search", "fullmatch") and e.args:
            rx = self.flow.fold_regex(fi, recv)
            if rx is not None:
                subj = e.args[0].id if isinstance(e.args[0], ast.Name) and e.args[0].id in self.locals_of(fi) else None
                pos = self.operand(fi, st, e.args[1]) if len(e.args) >= 2 else None
                if len(e.args) >= 2 and pos is None:
                    subj = None
                st.mt[tv] = (rx, subj, pos, m)
                return [st]
            return None
        if m in ("strip", "lstrip", "rstrip", "removeprefix", "removesuffix") and len(e.args) <= 1 and not e.keywords:
            t1 = self.tmp()
            out = []
            for s in self.eval(fi, st, recv, t1):
                s.null[tv] = False
                l1, lt = s.lenvar(t1), s.lenvar(tv)
                s.add(lt, l1, 0)
                if m == "removeprefix" and e.args and rv is not None:
                    # the whole text of a match found at the start of the receiver is a prefix of it
                    xv = self.var_of(fi, s, e.args[0])
                    cands = [xv] if xv is not None else []
                    if isinstance(e.args[0], (ast.Call, ast.Subscript)):
                        t2 = self.tmp()
                        s = self.eval(fi, s, e.args[0], t2)[0]
                        cands.append(t2)
                    for c in cands:
                        mvar = s.wm.get(c)
                        info = s.mt.get(mvar) if mvar is not None else None
                        if info is not None and info[1] == rv and info[2] is None and info[3] in ("match", "fullmatch"):
                            lo = s.db.get((ZERO, s.lenvar(c)))
                            if lo is not None and -lo[0] >= 1:
                                s.add(lt, l1, lo[0])
                    for c in cands[1 if xv is not None else 0:]:
                        s.kill(c)
                s.kill(t1)
                out.append(s)
            return out
        if m in ("partition", "rpartition") and len(e.args) == 1 and not e.keywords and const_text(e.args[0]):
            sep = const_text(e.args[0])
            t1 = self.tmp()
            out = []
            for s in self.eval(fi, st, recv, t1):
                for found in (True, False):
                    s2 = s.copy()
                    c0, c1, c2 = (f"{tv}#{i}" for i in range(3))
                    s2.tup[tv] = (c0, c1, c2)
                    s2.null[tv] = False
                    l1 = s2.lenvar(t1)
                    for c in (c0, c1, c2):
                        s2.null[c] = False
                    if found:
                        s2.truth[c1] = True
                        s2.add(s2.lenvar(c1), ZERO, len(sep))
                        s2.add(ZERO, s2.lenvar(c1), -len(sep))
                        s2.add(s2.lenvar(c0), l1, -len(sep))
                        s2.add(s2.lenvar(c2), l1, -len(sep))
                    else:
                        whole, empty = (c0, c2) if m == "partition" else (c2, c0)
                        s2.truth[c1] = False
                        s2.truth[empty] = False
                        for c in (c1, empty):
                            s2.add(s2.lenvar(c), ZERO, 0)
                        s2.add(s2.lenvar(whole), l1, 0)
                        s2.add(l1, s2.lenvar(whole), 0)
                    s2.kill(t1)
                    out.append(s2)
            return out
        if m in ("find", "rfind", "index", "rindex", "count") and e.args and not e.keywords:
            t1 = self.tmp()
            out = []
            for s in self.eval(fi, st, recv, t1):
                s.null[tv] = False
                s.ints.add(tv)
                s.add(ZERO, tv, 1 if m in ("find", "rfind") else 0)
                s.add(tv, s.lenvar(t1), 0)
                start = self.operand(fi, s, e.args[1]) if len(e.args) >= 2 and m != "count" else None
                if start is not None and s.entails(ZERO, start[0], start[1]):
                    # a search from a position >= 0: the hit is not in front of that position (or there is no hit: -1)
                    if m in ("find", "rfind"):
                        miss = s.copy()
                        if miss.add(tv, ZERO, -1):
                            miss.kill(t1)
                            out.append(miss)
                    if not (s.add(ZERO, tv, 0) and s.add(start[0], tv, -start[1])):
                        continue
                s.kill(t1)
                out.append(s)
            return out
        return None

    def _call_summary(self, fi: FuncInfo, st: PS, e: ast.Call, tv: str, g: FuncInfo) -> list[PS]:
        sm = self.summary(g)
        if sm is None:
            st.opq.add(tv)
            return [st]
        a = g.node.args  # type: ignore[attr-defined]
        pnames = [x.arg for x in a.posonlyargs + a.args + a.kwonlyargs]
        static = any(d.rsplit(".", 1)[-1] == "staticmethod" for d in g.decorators)
        if g.cls is not None and not static and pnames:
            pnames = pnames[1:]
        states = [st]
        amap: dict[str, str] = {}
        for p in pnames:
            b = self.flow.bind(g, e, p)
            if b is None:
                continue
            t1 = self.tmp("a")
            amap[p + "@"] = t1
            nxt: list[PS] = []
            for s in states:
                nxt += self.eval(fi, s, b[1], t1)
            states = nxt

        def ren(v: str) -> str | None:
            root, sep, rest = v.partition("#")
            if root == "$r":
                return tv + sep + rest
            if root in amap:
                return amap[root] + sep + rest
            return None

        out = []
        for s in states:
            for S in sm:
                s2 = s.copy()
                if s2.merge(S.renamed(ren)) and _import_generic(s2, S, {p: self.flow.bind(g, e, p) for p in pnames}):
                    for t1 in amap.values():
                        s2.kill(t1)
                    out.append(s2)
        return out

    # -- conditions ---------------------------------------------------------------
    def assume(self, fi: FuncInfo, st: PS, e: ast.AST, truth: bool) -> list[PS]:
        """the states in which condition e evaluates to `truth` (consumes st); [] = impossible on this path."""
        while isinstance(e, ast.UnaryOp) and isinstance(e.op, ast.Not):
            e, truth = e.operand, not truth
        if isinstance(e, ast.BoolOp):
            is_and = isinstance(e.op, ast.And)
            if is_and == truth:
                states = [st]
                for v in e.values:
                    nxt: list[PS] = []
                    for s in states:
                        nxt += self.assume(fi, s, v, truth)
                    states = nxt
                return states
            out: list[PS] = []
            cur = [st]
            for v in e.values:
                nxt = []
                for s in cur:
                    out += self.assume(fi, s.copy(), v, truth)
                    nxt += self.assume(fi, s, v, not truth)
                cur = nxt
            return out
        if isinstance(e, ast.IfExp):
            out = []
            for s in self.assume(fi, st.copy(), e.test, True):
                out += self.assume(fi, s, e.body, truth)
            for s in self.assume(fi, st, e.test, False):
                out += self.assume(fi, s, e.orelse, truth)
            return out
        if isinstance(e, ast.Constant):
            return [st] if bool(e.value) == truth else []
        if isinstance(e, ast.Compare):
            if len(e.ops) > 1:
                # a chain is the conjunction of its links (the operands here are evaluated once and have no effects)
                links = []
                left = e.left
                for op, right in zip(e.ops, e.comparators):
                    links.append(ast.Compare(left=_unwalrus(left), ops=[op], comparators=[right]))
                    left = right
                return self.assume(fi, st, ast.BoolOp(op=ast.And(), values=links), truth)
            return self._assume_cmp(fi, st, e.left, e.ops[0], e.comparators[0], truth)
        if isinstance(e, ast.NamedExpr):
            t1 = self.tmp()
            out = []
            for s in self.eval(fi, st, e, t1):
                s.kill(t1)
                out += self._assume_truthy(fi, s, e.target, truth)
            return out
        return self._assume_truthy(fi, st, e, truth)

    def _generic(self, st: PS, key: str, names: t.Iterable[str], truth: bool) -> list[PS]:
        cur = st.gen.get(key)
        if cur is not None:
            return [st] if cur[0] == truth else []
        st.gen[key] = (truth, frozenset(names))
        return [st]

    def _assume_truthy(self, fi: FuncInfo, st: PS, e: ast.AST, truth: bool) -> list[PS]:
        v = self.var_of(fi, st, e)
        if v is not None:
            known = st.truth.get(v)
            if known is not None:
                return [st] if known == truth else []
            if st.null.get(v) is True:
                return [] if truth else [st]
            lk = f"len({v})"
            if lk in st.deps:
                if st.entails(ZERO, lk, -1):
                    return [st] if truth else []
                if st.exact(lk) == 0:
                    return [] if truth else [st]
            if truth and not st.set_null(v, False):
                return []
            st.truth[v] = truth
            if v in st.ints and st.null.get(v) is False and not truth:
                st.add(v, ZERO, 0)
                st.add(ZERO, v, 0)
            if truth and v not in st.ints and v not in st.tup:
                st.add(ZERO, st.lenvar(v), -1)  # a sized value that is true is not empty
            return [st]
        if isinstance(e, ast.Call) and self.flow.resolve_callee(fi, e):
            t1 = self.tmp()
            out = []
            for s in self.eval(fi, st, e, t1):
                known = s.truth.get(t1)
                if known is None and s.null.get(t1) is True:
                    known = False
                s.kill(t1)
                if known is None or known == truth:
                    out.append(s)
            return out
        from .guards import canon

        e = _strip_walrus(e)
        k, pol = canon(e)
        return self._generic(st, k, astq.names_in(e), truth == pol)

    def _assume_cmp(self, fi: FuncInfo, st: PS, a: ast.AST, op: ast.cmpop, b: ast.AST, truth: bool) -> list[PS]:
        from .guards import canon

        if isinstance(op, (ast.Is, ast.IsNot, ast.Eq, ast.NotEq)) and (astq.is_none(a) or astq.is_none(b)):
            x = b if astq.is_none(a) else a
            want_none = isinstance(op, (ast.Is, ast.Eq)) == truth
            if astq.is_none(x):
                return [st] if want_none else []
            v = self.var_of(fi, st, x)
            if v is not None:
                cur = st.null.get(v)
                if cur is not None:
                    return [st] if cur == want_none else []
                return [st] if st.set_null(v, want_none) else []
            if isinstance(x, ast.Call) and self.flow.resolve_callee(fi, x):
                t1 = self.tmp()
                out = []
                for s in self.eval(fi, st, x, t1):
                    cur = s.null.get(t1)
                    s.kill(t1)
                    if cur is None or cur == want_none:
                        out.append(s)
                return out
        if isinstance(op, (ast.Lt, ast.Gt, ast.LtE, ast.GtE, ast.Eq, ast.NotEq)):
            oa, ob = self.operand(fi, st, a), self.operand(fi, st, b)
            if (oa is None or ob is None) and isinstance(op, (ast.Lt, ast.Gt, ast.LtE, ast.GtE)):
                # an operand that is computed (call, arithmetic, conditional expression): evaluate it into a temporary
                sides = [a, b]
                tmps: list[str] = []
                states = [st]
                for i, (o, x) in enumerate(((oa, a), (ob, b))):
                    if o is None and isinstance(x, (ast.Call, ast.BinOp, ast.IfExp, ast.UnaryOp, ast.BoolOp)) and not (isinstance(x, ast.Call) and isinstance(x.func, ast.Attribute) and not self.flow.resolve_callee(fi, x)):
                        t1 = self.tmp("c")
                        tmps.append(t1)
                        nxt: list[PS] = []
                        for s in states:
                            nxt += self.eval(fi, s, x, t1)
                        states = nxt
                        sides[i] = ast.Name(t1, ast.Load())
                if tmps:
                    out = []
                    for s in states:
                        if all(self.operand(fi, s, x) is not None for x in sides):
                            res = self._assume_cmp(fi, s, sides[0], op, sides[1], truth)
                        else:
                            res = [s]
                        for s2 in res:
                            for t1 in tmps:
                                s2.kill(t1)
                            out.append(s2)
                    return out
            if oa is not None and ob is not None:
                (va, ca), (vb, cb) = oa, ob
                numeric = not isinstance(op, (ast.Eq, ast.NotEq)) or st.is_int(va) or st.is_int(vb) or va == ZERO or vb == ZERO
                if numeric:
                    if isinstance(op, (ast.Lt, ast.Gt, ast.LtE, ast.GtE)):
                        for v in (va, vb):
                            if v != ZERO and not st.set_null(v, False):
                                return []
                    if isinstance(op, (ast.Gt, ast.GtE)):
                        (va, ca), (vb, cb) = (vb, cb), (va, ca)
                    # now: a < b (Lt/Gt) or a <= b (LtE/GtE) with value(a) = va + ca, value(b) = vb + cb
                    if isinstance(op, (ast.Lt, ast.Gt)):
                        ok = st.add(va, vb, cb - ca, True) if truth else st.add(vb, va, ca - cb, False)
                        return [st] if ok else []
                    if isinstance(op, (ast.LtE, ast.GtE)):
                        ok = st.add(va, vb, cb - ca, False) if truth else st.add(vb, va, ca - cb, True)
                        return [st] if ok else []
                    equal = isinstance(op, ast.Eq) == truth
                    if equal:
                        ok = st.add(va, vb, cb - ca) and st.add(vb, va, ca - cb)
                        return [st] if ok else []
                    if st.entails(va, vb, cb - ca) and st.entails(vb, va, ca - cb):
                        return []
                    if st.is_int(va) and st.is_int(vb):
                        # different from a value that is the smallest / largest possible: one further
                        if st.entails(va, vb, cb - ca) and not st.add(va, vb, cb - ca - 1):
                            return []
                        if st.entails(vb, va, ca - cb) and not st.add(vb, va, ca - cb - 1):
                            return []
                        return [st]
        a, b = _strip_walrus(a), _strip_walrus(b)
        k, pol = canon(ast.Compare(left=a, ops=[op], comparators=[b]))
        return self._generic(st, k, astq.names_in(a) | astq.names_in(b), truth == pol)

    # -- statements -------------------------------------------------------------------
    def bind(self, fi: FuncInfo, st: PS, tg: ast.AST, tv: str) -> None:
        if isinstance(tg, ast.Name):
            st.kill(tg.id)
            st.copy_var(tv, tg.id)
            return
        if isinstance(tg, (ast.Tuple, ast.List)):
            comps = st.tup.get(tv)
            if comps is not None and len(comps) == len(tg.elts) and not any(isinstance(x, ast.Starred) for x in tg.elts):
                for x, cv in zip(tg.elts, comps):
                    self.bind(fi, st, x, cv)
                return
            for x in ast.walk(tg):
                if isinstance(x, ast.Name):
                    st.unknown(x.id, opaque=True)

    def _walruses(self, fi: FuncInfo, st: PS, e: ast.AST) -> list[PS]:
        ws = [w for w in [e, *walk_no_nested(e)] if isinstance(w, ast.NamedExpr)]
        states = [st]
        for w in reversed(ws):
            nxt: list[PS] = []
            for s in states:
                t1 = self.tmp()
                for s2 in self.eval(fi, s, w, t1):
                    s2.kill(t1)
                    nxt.append(s2)
            states = nxt
        return states

    def step(self, fi: FuncInfo, n, st: PS) -> list[PS]:
        """the states after executing node n normally (consumes st)."""
        a = n.ast
        if a is None:
            return [st]
        if n.kind == "with":
            for it in a.items:
                if it.optional_vars is not None:
                    for x in ast.walk(it.optional_vars):
                        if isinstance(x, ast.Name):
                            st.unknown(x.id, opaque=True)
            return [st]
        if n.kind == "handler":
            if a.name:
                st.unknown(a.name, opaque=True)
            return [st]
        if n.kind != "stmt":
            return [st]
        if isinstance(a, (ast.Assign, ast.AnnAssign)):
            if getattr(a, "value", None) is None:
                return [st]
            tgs = a.targets if isinstance(a, ast.Assign) else [a.target]
            t1 = self.tmp("v")
            out = []
            for s in self.eval(fi, st, a.value, t1):
                for tg in tgs:
                    self.bind(fi, s, tg, t1)
                s.kill(t1)
                out.append(s)
            return out
        if isinstance(a, ast.AugAssign):
            if isinstance(a.target, ast.Name):
                syn = ast.BinOp(left=ast.Name(a.target.id, ast.Load()), op=a.op, right=a.value)
                t1 = self.tmp("v")
                out = []
                for s in self.eval(fi, st, syn, t1):
                    self.bind(fi, s, a.target, t1)
                    s.kill(t1)
                    out.append(s)
                return out
            return self._walruses(fi, st, a.value)
        if isinstance(a, ast.Assert):
            out = []
            for s in self._walruses(fi, st, a.test):
                out += self.assume(fi, s, a.test, True)
            return out
        if isinstance(a, ast.Delete):
            for tg in a.targets:
                if isinstance(tg, ast.Name):
                    st.unknown(tg.id)
            return [st]
        if isinstance(a, (ast.FunctionDef, ast.AsyncFunctionDef, ast.ClassDef)):
            st.unknown(a.name, opaque=True)
            return [st]
        if isinstance(a, (ast.Import, ast.ImportFrom)):
            for al in a.names:
                st.unknown((al.asname or al.name).split(".")[0], opaque=True)
            return [st]
        return self._walruses(fi, st, a)

    # -- paths --------------------------------------------------------------------------
    def walk(self, fi: FuncInfo, goals: t.Iterable, on_goal: t.Callable[[t.Any, PS], None], init: PS | None = None, starts: t.Iterable | None = None, block: t.Iterable = (),
             within: set[int] | None = None, no_havoc: t.Iterable[int] = (), stop_at_goal: bool = False, first_free: bool = False) -> None:
        """enumerate the acyclic paths from the function entry (or `starts`) and call on_goal(node, state before the
        node) at every goal node they reach.  within: only these nodes are visited; no_havoc: loop heads that are passed
        at most once by construction (a single iteration is followed), so nothing has to be forgotten there;
        stop_at_goal: a path ends at the first goal; first_free: the start nodes themselves do not count as reached."""
        cfg = cfg_of(fi)
        rd = self.flow.rd(fi)
        goal_ids = {g.id for g in goals}
        useful: set[int] = set()
        work = [n for n in cfg.nodes if n.id in goal_ids]
        while work:
            n = work.pop()
            if n.id in useful or (within is not None and n.id not in within):
                continue
            useful.add(n.id)
            work.extend(p for p, _ in n.preds)
        loops = self.loop_assigned(fi)
        keep = set(no_havoc)
        st0 = init if init is not None else self.entry_state(fi)
        stack = [(n, st0.copy(), frozenset(b.id for b in block), first_free) for n in (starts if starts is not None else [cfg.entry])]
        while stack:
            n, st, seen, free = stack.pop()
            self.steps += 1
            if self.steps > self.LIMIT:
                from .loader import AnalysisError

                raise AnalysisError(f"C07: too many paths while collecting facts in {fi.qualname}")
            if n.id in seen or n.id not in useful:
                continue
            if n.id in loops and n.id not in keep:
                self._havoc(fi, n, st, loops[n.id])
            if n.id in goal_ids and not free:
                on_goal(n, st.copy())
                if stop_at_goal:
                    continue
            seen2 = seen if free else seen | {n.id}
            self.cur_node = n
            defs = rd.gen.get(n.id, [])
            for m, lab in n.succs:
                if lab == "exc" and m.id in useful:
                    s = st.copy()
                    for d_ in defs:
                        s.unknown(d_.name, opaque=True)
                    stack.append((m, s, seen2, False))
            if n.id in goal_ids and isinstance(n.ast, ast.Return) and not free:
                continue  # the value is returned: what follows (the exit) is not a fall-off of the function's end
            if n.kind == "test":
                pre = self._walruses(fi, st, n.ast)
                for lab in ("T", "F"):
                    succ = [m for m in cfg.succ(n, lab) if m.id in useful]
                    if not succ:
                        continue
                    for s0 in pre:
                        for s in self.assume(fi, s0.copy(), n.ast, lab == "T"):
                            for m in succ:
                                stack.append((m, s.copy() if len(succ) > 1 else s, seen2, False))
                continue
            if n.kind == "loop":
                for m, lab in n.succs:
                    if lab == "exc" or m.id not in useful:
                        continue
                    s = st.copy()
                    if lab == "T":
                        for x in ast.walk(n.ast.target):
                            if isinstance(x, ast.Name):
                                s.unknown(x.id, opaque=True)
                    stack.append((m, s, seen2, False))
                continue
            nxt = [m for m, lab in n.succs if lab not in ("exc", "raise") and m.id in useful]
            if not nxt:
                continue
            for s in self.step(fi, n, st):
                for m in nxt:
                    stack.append((m, s.copy() if len(nxt) > 1 else s, seen2, False))

    def _havoc(self, fi: FuncInfo, head, st: PS, names: set[str]) -> None:
        """forget what is known about the names a loop assigns - except that a text the loop only ever shortens is not
        longer than before, and an int it only ever raises (lowers) is not smaller (larger)."""
        mono = self.monotone(fi, head)
        # bounds against 0 that hold now and that every iteration preserves (when the value is a number at all)
        cands = set()
        for nm in names:
            if nm in st.tup or st.null.get(nm) is True:
                continue
            lo, hi = st.db.get((ZERO, nm)), st.db.get((nm, ZERO))
            if lo is not None:
                cands.add((nm, "lo", lo[0], lo[1]))
            if hi is not None:
                cands.add((nm, "hi", hi[0], hi[1]))
        inv = self.invariants(fi, head, frozenset(cands)) if cands else ()
        try:
            self._havoc0(st, names, mono)
        finally:
            for nm, kind, c, strict in inv:
                if kind == "lo":
                    st.add(ZERO, nm, c, strict)
                else:
                    st.add(nm, ZERO, c, strict)

    def invariants(self, fi: FuncInfo, head, cands: frozenset) -> tuple:
        """the candidates (name, 'lo' | 'hi', c, strict) - bounds of a name against 0, read as `if it is a number` - that
        every iteration of the loop re-establishes when all of them are assumed at the head (greatest inductive subset)."""
        key = (fi.fq, head.id, cands)
        if key in self._inv:
            return self._inv[key]
        self._inv[key] = ()
        from .loader import AnalysisError

        def holds(a_: PS, cand) -> bool:
            nm, kind, c, strict = cand
            if a_.null.get(nm) is True:
                return True
            return a_.entails(ZERO, nm, c, strict) if kind == "lo" else a_.entails(nm, ZERO, c, strict)

        cur = set(cands)
        save = self.steps
        try:
            self.steps = 0
            while cur:
                init = PS()
                for nm, kind, c, strict in cur:
                    if kind == "lo":
                        init.add(ZERO, nm, c, strict)
                    else:
                        init.add(nm, ZERO, c, strict)
                arr = self.cycles(fi, head, init)
                bad = {cand for cand in cur if any(not holds(a_, cand) for a_ in arr)}
                if not bad:
                    break
                cur -= bad
        except AnalysisError:
            cur = set()
        finally:
            self.steps = save
        self._inv[key] = tuple(sorted(cur))
        return self._inv[key]

    def _havoc0(self, st: PS, names: set[str], mono: dict[str, set[str]]) -> None:
        for nm in names:
            rel = mono.get(nm)
            if not rel or nm in st.tup:
                st.unknown(nm)
                continue
            old = self.tmp("o")
            if "len<=" in rel:
                st.lenvar(nm)
            st.copy_var(nm, old)
            st.unknown(nm)
            if "len<=" in rel:
                st.add(st.lenvar(nm), st.lenvar(old), 0)
            if ">=" in rel:
                st.add(old, nm, 0)
            if "<=" in rel:
                st.add(nm, old, 0)
            st.kill(old)

    def loop_region(self, fi: FuncInfo, head) -> set[int]:
        cfg = cfg_of(fi)
        loop = head.ast
        inner = {id(x) for x in ast.walk(loop)}
        ids = {n.id for n in cfg.nodes if n.ast is not None and id(n.ast) in inner}
        if isinstance(loop, (ast.For, ast.AsyncFor, ast.While)):
            # the else-branch runs after the loop, not in it
            orelse = {id(x) for st_ in loop.orelse for x in [st_, *ast.walk(st_)]}
            ids -= {n.id for n in cfg.nodes if n.ast is not None and id(n.ast) in orelse}
        ids.add(head.id)
        return ids

    def cycles(self, fi: FuncInfo, head, init: PS | None = None) -> list[PS]:
        """the states in which one iteration of the loop at `head` returns to the head; every name N the loop assigns has
        its value at the start of the iteration under `N@h`."""
        st0 = init.copy() if init is not None else PS()
        st0.tags = set()
        for nm in sorted(self.loop_assigned(fi).get(head.id, ())):
            if nm in st0.tup:
                continue
            st0.lenvar(nm)
            st0.copy_var(nm, nm + "@h")
        out: list[PS] = []
        self.walk(fi, [head], lambda n, st: out.append(st), init=st0, starts=[head], within=self.loop_region(fi, head), no_havoc=[head.id], stop_at_goal=True, first_free=True)
        return out

    def monotone(self, fi: FuncInfo, head) -> dict[str, set[str]]:
        """names that every iteration of the loop at `head` changes in one direction only:
        'len<=' (a text that is never longer afterwards), '>=' / '<=' (a number that never falls / rises)."""
        key = (fi.fq, head.id)
        if key in self._mono:
            return self._mono[key]
        self._mono[key] = {}  # while computing (and for recursion): nothing known
        from .loader import AnalysisError

        res: dict[str, set[str]] = {}
        save = self.steps
        try:
            self.steps = 0
            arr = self.cycles(fi, head)
            for nm in self.loop_assigned(fi).get(head.id, ()):
                rel = set()
                h = nm + "@h"
                ln, lh = f"len({nm})", f"len({h})"
                if arr and all(ln in a_.deps and lh in a_.deps and a_.entails(ln, lh, 0) for a_ in arr):
                    rel.add("len<=")
                if arr and all(a_.entails(h, nm, 0) for a_ in arr):
                    rel.add(">=")
                if arr and all(a_.entails(nm, h, 0) for a_ in arr):
                    rel.add("<=")
                if rel:
                    res[nm] = rel
        except AnalysisError:
            res = {}
        finally:
            self.steps = save
        self._mono[key] = res
        return res

    # -- summaries of package helpers ------------------------------------------------------
    def summary(self, g: FuncInfo) -> list[PS] | None:
        """the abstract values g can return, each related to the values its parameters had at entry (`p@`)."""
        if g.fq in self._sum:
            return self._sum[g.fq]
        if g.fq in self._busy:
            return None
        if isinstance(g.node, ast.AsyncFunctionDef) or any(isinstance(x, (ast.Yield, ast.YieldFrom)) for x in walk_no_nested(g.node)):
            self._sum[g.fq] = None
            return None
        self._busy.add(g.fq)
        from .loader import AnalysisError

        cfg = cfg_of(g)
        a = g.node.args  # type: ignore[attr-defined]
        shadows = [x.arg + "@" for x in a.posonlyargs + a.args + a.kwonlyargs]
        rebound = {x.id for x in walk_no_nested(g.node) if isinstance(x, ast.Name) and isinstance(x.ctx, (ast.Store, ast.Del))}
        stable = {x.arg for x in a.posonlyargs + a.args + a.kwonlyargs} - rebound
        outs: dict[tuple, PS] = {}

        def on_goal(n, st: PS) -> None:
            val = n.ast.value if isinstance(n.ast, ast.Return) else None
            for s in self.eval(g, st, val, "$r"):
                p = s.project(["$r", *shadows], stable)
                outs.setdefault(p.key(), p)
                if len(outs) > 40:
                    raise _TooMany()

        save = self.steps
        res: list[PS] | None
        try:
            self.steps = 0
            goals = [n for n in cfg.nodes if n.kind == "stmt" and isinstance(n.ast, ast.Return)] + [cfg.exit]
            self.walk(g, goals, on_goal, init=self.entry_state(g, shadows=True))
            res = list(outs.values())
        except (_TooMany, AnalysisError):
            res = None
        finally:
            self.steps = save
            self._busy.discard(g.fq)
        self._sum[g.fq] = res
        return res
