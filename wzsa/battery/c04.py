"""self-validation battery for C04."""
C = "routing/converters.py"
R = "routing/rules.py"
M = "routing/map.py"
T = "routing/matcher.py"
U = "urls.py"

_SAFE = "\"!$&'()*+,/:;=@\""
_SAFE_ESC = "\"!$&'()*+,/:;=@~\""
_CONV_QUOTE = "        return quote(str(value), safe=" + _SAFE + ")"
_RULE_QUOTE = "                opl.append((False, quote(data, safe=" + _SAFE + ")))"
_ZFILL = "        if self.fixed_digits:\n            value_str = value_str.zfill(self.fixed_digits)\n        return value_str"
_LENCHK = "        if self.fixed_digits and len(value) != self.fixed_digits:\n            raise ValidationError()"
_SIGNED = "        if signed:\n            self.regex = self.signed_regex"
_ANY_RX = "        self.regex = f\"(?:{'|'.join([re.escape(x) for x in items])})\""
_DEFAULT_RESOLVE = "                data = self._converters[data].to_url(defaults[data])"
_BAR = "        self._trace.append((False, \"|\"))\n        rule = self.rule\n        if self.merge_slashes:\n            rule = re.sub(\"/{2,}?\", \"/\", self.rule)\n        self._parts.extend(self._parse_rule(rule))\n"
_TO_PYTHON_CALL = "                    value = rule._converters[name].to_python(value)"
_MERGE_DEFAULTS = "            if rule.defaults:\n                result.update(rule.defaults)"
_REL_URL = "            return f\"{self.script_name.rstrip('/')}/{path.lstrip('/')}\""
_EXT_URL = "        return f\"{scheme}//{host}{self.script_name[:-1]}/{path.lstrip('/')}\""
_SUITABLE_DEFAULTS = "                if key in values and value != values[key]:\n                    return False"
_UUID_TO_URL = "    def to_url(self, value: uuid.UUID) -> str:\n        return str(value)"
_NUM_TO_URL = "    def to_url(self, value: t.Any) -> str:\n        value_str = str(self.num_convert(value))\n" + _ZFILL
_NUM_TO_PYTHON_HEAD = "    def to_python(self, value: str) -> t.Any:\n" + _LENCHK + "\n        value_num = self.num_convert(value)"
_BUILD_VALUES = (
    "        if values:\n"
    "            if isinstance(values, MultiDict):\n"
    "                values = {\n"
    "                    k: (v[0] if len(v) == 1 else v)\n"
    "                    for k, v in dict.items(values)\n"
    "                    if len(v) != 0\n"
    "                }\n"
    "            else:  # plain dict\n"
    "                values = {k: v for k, v in values.items() if v is not None}\n"
    "        else:\n"
    "            values = {}\n"
)
_OPS_LOOP = (
    "        for is_dynamic, data in self._trace:\n"
    "            if data == \"|\" and opl is dom_ops:\n"
    "                opl = url_ops\n"
    "                continue\n"
    "            # this seems like a silly case to ever come up but:\n"
    "            # if a default is given for a value that appears in the rule,\n"
    "            # resolve it to a constant ahead of time\n"
    "            if is_dynamic and data in defaults:\n"
    "                data = self._converters[data].to_url(defaults[data])\n"
    "                opl.append((False, data))\n"
    "            elif not is_dynamic:\n"
    "                # safe = https://url.spec.whatwg.org/#url-path-segment-string\n"
    "                opl.append((False, quote(data, safe=" + _SAFE + ")))\n"
    "            else:\n"
    "                opl.append((True, data))\n"
)
_PARTS_COMP = (
    "            parts: list[ast.expr] = [\n"
    "                _convert(elem) if is_dynamic else ast.Constant(elem)\n"
    "                for is_dynamic, elem in ops\n"
    "            ]\n"
)
_SUITABLE_BODY = (
    "        for key in self.arguments:\n"
    "            if key not in defaults and key not in values:\n"
    "                return False\n"
    "\n"
    "        # in case defaults are given we ensure that either the value was\n"
    "        # skipped or the value is the same as the default value.\n"
    "        if defaults:\n"
    "            for key, value in defaults.items():\n"
    "                if key in values and value != values[key]:\n"
    "                    return False\n"
    "\n"
    "        return True\n"
)
_MATCH_TAIL = (
    "            for name, value in zip(rule._converters.keys(), values):\n"
    "                try:\n"
    "                    value = rule._converters[name].to_python(value)\n"
)
_URLENCODE = "    items = [x for x in iter_multi_items(query) if x[1] is not None]\n"
_ENCODE_QV = (
    "        items: t.Iterable[tuple[str, str]] = iter_multi_items(query_vars)\n"
    "\n"
    "        if self.map.sort_parameters:\n"
    "            items = sorted(items, key=self.map.sort_key)\n"
    "\n"
    "        return _urlencode(items)\n"
)
_DOMAIN_RULE = (
    "        if self.map.host_matching:\n"
    "            domain_rule = self.host or \"\"\n"
    "        else:\n"
    "            domain_rule = self.subdomain or \"\"\n"
)
_GET_HOST = (
    "        if self.map.host_matching:\n"
    "            if domain_part is None:\n"
    "                return self.server_name\n"
    "\n"
    "            return domain_part\n"
    "\n"
    "        if domain_part is None:\n"
    "            subdomain = self.subdomain\n"
    "        else:\n"
    "            subdomain = domain_part\n"
    "\n"
    "        if subdomain:\n"
    "            return f\"{subdomain}.{self.server_name}\"\n"
    "        else:\n"
    "            return self.server_name\n"
)
_PARTIAL_LOOP = (
    "        for rule in self.map._rules_by_endpoint.get(endpoint, ()):\n"
    "            if rule.suitable_for(values, method):\n"
    "                build_rv = rule.build(values, append_unknown)\n"
    "\n"
    "                if build_rv is not None:\n"
    "                    rv = (build_rv[0], build_rv[1], rule.websocket)\n"
    "                    if self.map.host_matching:\n"
    "                        if rv[0] == self.server_name:\n"
    "                            return rv\n"
    "                        elif first_match is None:\n"
    "                            first_match = rv\n"
    "                    else:\n"
    "                        return rv\n"
)
_UNICODE_INIT = (
    "        if length is not None:\n"
    "            length_regex = f\"{{{int(length)}}}\"\n"
    "        else:\n"
    "            if maxlength is None:\n"
    "                maxlength_value = \"\"\n"
    "            else:\n"
    "                maxlength_value = str(int(maxlength))\n"
    "            length_regex = f\"{{{int(minlength)},{maxlength_value}}}\"\n"
    "        self.regex = f\"[^/]{length_regex}\"\n"
)

MUTANTS = [
    # R4.1 ---------------------------------------------------------------------------------------------------------
    {"name": "question-mark-safe-in-converter-quoting", "expect": "R4.1", "edits": [(C, _CONV_QUOTE, "        return quote(str(value), safe=\"!$&'()*+,/:;=?@\")")]},
    {"name": "hash-safe-for-static-pieces-only", "expect": "R4.1", "edits": [(R, _RULE_QUOTE, "                opl.append((False, quote(data, safe=\"!#$&'()*+,/:;=@\")))")]},
    {"name": "percent-safe-in-converter-quoting", "expect": "R4.1", "edits": [(C, _CONV_QUOTE, "        return quote(str(value), safe=\"!$%&'()*+,/:;=@\")")]},
    {"name": "converter-quoting-with-quote-plus", "expect": "R4.1", "edits": [(C, "from urllib.parse import quote\n", "from urllib.parse import quote\nfrom urllib.parse import quote_plus\n"), (C, _CONV_QUOTE, "        return quote_plus(str(value), safe=" + _SAFE + ")")]},
    {"name": "static-pieces-quoted-as-latin-1", "expect": "R4.1", "edits": [(R, _RULE_QUOTE, "                opl.append((False, quote(data, safe=" + _SAFE + ", encoding=\"latin-1\", errors=\"replace\")))")]},
    {"name": "slash-not-safe-for-static-pieces", "expect": "R4.1", "edits": [(R, _RULE_QUOTE, "                opl.append((False, quote(data, safe=\"!$&'()*+,:;=@\")))")]},
    # R4.2 ---------------------------------------------------------------------------------------------------------
    {"name": "zfill-dropped", "expect": "R4.2", "edits": [(C, _ZFILL, "        return value_str")]},
    {"name": "fixed-digits-length-check-dropped", "expect": "R4.2", "edits": [(C, _LENCHK + "\n", "")]},
    {"name": "fixed-digits-length-check-loosened", "expect": "R4.2", "edits": [(C, "len(value) != self.fixed_digits", "len(value) > self.fixed_digits")]},
    {"name": "signed-regex-lost", "expect": "R4.2", "edits": [(C, _SIGNED, "        if signed:\n            pass")]},
    {"name": "signed-regex-requires-minus", "expect": "R4.2", "edits": [(C, "        return f\"-?{self.regex}\"", "        return f\"-{self.regex}\"")]},
    {"name": "signed-fixed-digits-regex-counts-digits-only", "expect": "R4.2", "edits": [(C, "        self.fixed_digits = fixed_digits\n", "        self.fixed_digits = fixed_digits\n        if fixed_digits and signed:\n            self.regex = rf\"-?\\d{{{int(fixed_digits)}}}\"\n")]},
    {"name": "any-items-not-escaped", "expect": "R4.2", "edits": [(C, _ANY_RX, "        self.regex = f\"(?:{'|'.join([x for x in items])})\"")]},
    {"name": "float-converter-converts-with-int", "expect": "R4.2", "edits": [(C, "    regex = r\"\\d+\\.\\d+\"\n    num_convert = float\n", "    regex = r\"\\d+\\.\\d+\"\n")]},
    {"name": "path-regex-without-slashes", "expect": "R4.2", "edits": [(C, "    regex = \"[^/].*?\"", "    regex = \"[^/]+\"")]},
    {"name": "string-length-bounds-swapped", "expect": "R4.2", "edits": [(C, "            length_regex = f\"{{{int(minlength)},{maxlength_value}}}\"", "            length_regex = f\"{{{maxlength_value},{int(minlength)}}}\"")]},
    {"name": "base-converter-does-not-quote", "expect": "R4.2", "edits": [(C, _CONV_QUOTE, "        return str(value)")]},
    {"name": "any-converter-returns-the-member-unquoted", "expect": "R4.2", "edits": [(C, "            return super().to_url(value)", "            return str(value)")]},
    {"name": "text-value-lower-cased-before-quoting", "expect": "R4.2", "edits": [(C, _CONV_QUOTE, "        return quote(str(value).lower(), safe=" + _SAFE + ")")]},
    {"name": "text-value-nfkc-normalised-before-quoting", "expect": "R4.2", "edits": [(C, "import re\nimport typing as t\n", "import re\nimport typing as t\nimport unicodedata\n"), (C, _CONV_QUOTE, "        return quote(unicodedata.normalize(\"NFKC\", str(value)), safe=" + _SAFE + ")")]},
    {"name": "matched-text-stripped-in-to-python", "expect": "R4.2", "edits": [(C, "    def to_python(self, value: str) -> t.Any:\n        return value\n", "    def to_python(self, value: str) -> t.Any:\n        return value.strip()\n")]},
    {"name": "to-python-skips-number-conversion", "expect": "R4.2", "edits": [(C, "        value_num = self.num_convert(value)\n", "        value_num = value\n")]},
    # R4.3 ---------------------------------------------------------------------------------------------------------
    {"name": "default-resolved-with-str", "expect": "R4.3", "edits": [(R, _DEFAULT_RESOLVE, "                data = str(defaults[data])")]},
    {"name": "resolved-default-is-quoted-again", "expect": "R4.3", "edits": [(R, "                opl.append((False, data))\n            elif not is_dynamic:", "                opl.append((False, quote(data, safe=" + _SAFE_ESC + ")))\n            elif not is_dynamic:")]},
    {"name": "domain-marker-appended-after-the-path", "expect": "R4.3", "edits": [(R, _BAR, _BAR.replace("        self._trace.append((False, \"|\"))\n", "") + "        self._trace.append((False, \"|\"))\n")]},
    {"name": "static-pieces-not-quoted", "expect": "R4.1", "edits": [(R, _RULE_QUOTE, "                opl.append((False, data))")]},
    {"name": "builder-calls-to-python", "expect": "R4.3", "edits": [(R, "_CALL_CONVERTER_CODE_FMT = \"self._converters[{elem!r}].to_url()\"", "_CALL_CONVERTER_CODE_FMT = \"self._converters[{elem!r}].to_python()\"")]},
    {"name": "domain-and-path-operations-swapped", "expect": "R4.3", "edits": [(R, "        dom_parts = _parts(dom_ops)\n        url_parts = _parts(url_ops)\n", "        dom_parts = _parts(url_ops)\n        url_parts = _parts(dom_ops)\n")]},
    # R4.4 ---------------------------------------------------------------------------------------------------------
    {"name": "matcher-skips-to-python", "expect": "R4.4", "edits": [(T, _TO_PYTHON_CALL, "                    value = value")]},
    {"name": "matcher-does-not-merge-defaults", "expect": "R4.4", "edits": [(T, _MERGE_DEFAULTS, "            if rule.defaults:\n                pass")]},
    {"name": "matcher-pairs-names-in-reverse", "expect": "R4.4", "edits": [(T, "zip(rule._converters.keys(), values)", "zip(reversed(list(rule._converters.keys())), values)")]},
    {"name": "converters-registered-under-converter-name", "expect": "R4.3", "edits": [(R, "                self._converters[data[\"variable\"]] = convobj", "                self._converters[data[\"converter\"] or data[\"variable\"]] = convobj")]},
    # R4.5 ---------------------------------------------------------------------------------------------------------
    {"name": "query-joined-with-ampersand", "expect": "R4.5", "edits": [(R, "    q = \"?\" if params else \"\"", "    q = \"&\" if params else \"\"")]},
    {"name": "query-names-in-wrong-order", "expect": "R4.5", "edits": [(R, "    _prefix_names(\"q\", ast.Name),\n    _prefix_names(\"params\", ast.Name),", "    _prefix_names(\"params\", ast.Name),\n    _prefix_names(\"q\", ast.Name),")]},
    {"name": "ampersand-safe-in-query-encoding", "expect": "R4.5", "edits": [(U, "    return urlencode(items, safe=\"!$'()*,/:;?@\")", "    return urlencode(items, safe=\"!$&'()*,/:;?@\")")]},
    {"name": "plus-safe-in-query-encoding", "expect": "R4.5", "edits": [(U, "    return urlencode(items, safe=\"!$'()*,/:;?@\")", "    return urlencode(items, safe=\"!$'()*+,/:;?@\")")]},
    {"name": "none-values-kept-in-the-query", "expect": "R4.5", "edits": [
        (U, "    items = [x for x in iter_multi_items(query) if x[1] is not None]\n", "    items = [x for x in iter_multi_items(query)]\n"),
        (M, "                values = {k: v for k, v in values.items() if v is not None}\n", "                values = dict(values)\n")]},
    {"name": "multi-values-collapsed-to-the-first", "expect": "R4.5", "edits": [("datastructures/structures.py", "                for v in value:\n                    yield key, v\n            else:\n                yield key, value\n    else:\n        yield from mapping", "                for v in list(value)[:1]:\n                    yield key, v\n            else:\n                yield key, value\n    else:\n        yield from mapping")]},
    {"name": "query-encoded-as-latin-1", "expect": "R4.5", "edits": [(U, "    return urlencode(items, safe=\"!$'()*,/:;?@\")", "    return urlencode(items, safe=\"!$'()*,/:;?@\", encoding=\"latin-1\", errors=\"replace\")")]},
    # R4.6 ---------------------------------------------------------------------------------------------------------
    {"name": "uuid-missing-from-default-table", "expect": "R4.6", "edits": [(C, "    \"uuid\": UUIDConverter,\n", "")]},
    {"name": "int-bound-to-float-converter", "expect": "R4.6", "edits": [(C, "    \"int\": IntegerConverter,", "    \"int\": FloatConverter,")]},
    {"name": "path-bound-to-string-converter", "expect": "R4.2", "edits": [(C, "    \"path\": PathConverter,", "    \"path\": UnicodeConverter,")]},
    # R4.7 ---------------------------------------------------------------------------------------------------------
    {"name": "relative-url-keeps-script-root-slash", "expect": "R4.7", "edits": [(M, _REL_URL, "            return f\"{self.script_name}/{path.lstrip('/')}\"")]},
    {"name": "external-url-drops-script-root", "expect": "R4.7", "edits": [(M, _EXT_URL, "        return f\"{scheme}//{host}/{path.lstrip('/')}\"")]},
    {"name": "host-without-rule-subdomain", "expect": "R4.7", "edits": [(M, "            return f\"{subdomain}.{self.server_name}\"", "            return self.server_name")]},
    {"name": "suitable-for-ignores-default-mismatch", "expect": "R4.7", "edits": [(R, _SUITABLE_DEFAULTS, "                if False:\n                    return False")]},
    {"name": "submount-appends-instead-of-prefixing", "expect": "R4.7", "edits": [(R, "                rule.rule = self.path + rule.rule", "                rule.rule = rule.rule + self.path")]},
    {"name": "build-compare-key-ignores-alias", "expect": "R4.7", "edits": [(R, "        return (1 if self.alias else 0, -len(self.arguments), -len(self.defaults or ()))", "        return (0, -len(self.arguments), -len(self.defaults or ()))")]},
    {"name": "build-compare-key-prefers-fewer-arguments", "expect": "R4.7", "edits": [(R, "        return (1 if self.alias else 0, -len(self.arguments), -len(self.defaults or ()))", "        return (1 if self.alias else 0, len(self.arguments), -len(self.defaults or ()))")]},
    {"name": "compile-does-not-merge-slashes", "expect": "R4.3", "edits": [(R, "            rule = re.sub(\"/{2,}?\", \"/\", self.rule)", "            rule = self.rule")]},
    {"name": "compare-key-ranks-defaults-before-arguments", "expect": "R4.7", "edits": [(R, "        return (1 if self.alias else 0, -len(self.arguments), -len(self.defaults or ()))", "        return (1 if self.alias else 0, -len(self.defaults or ()), -len(self.arguments))")]},
    {"name": "host-matching-fallback-takes-the-last-suitable-rule", "expect": "R4.7", "edits": [(M, "                        elif first_match is None:\n                            first_match = rv\n", "                        else:\n                            first_match = rv\n")]},
    {"name": "empty-copy-loses-defaults", "expect": "R4.7", "edits": [(R, "            defaults=defaults,\n", "            defaults=None,\n")]},
    {"name": "subdomain-factory-forgets-subdomain", "expect": "R4.7", "edits": [(R, "                rule.subdomain = self.subdomain\n", "                pass\n")]},
]

TWINS = [
    {"name": "helper-extraction-and-hoisted-safe-set-in-converters", "edits": [
        (C, "class ValidationError(ValueError):", "_PATH_SEGMENT_SAFE = " + _SAFE + "\n\n\ndef _quote_segment(text: str) -> str:\n    return quote(text, safe=_PATH_SEGMENT_SAFE)\n\n\nclass ValidationError(ValueError):"),
        (C, _CONV_QUOTE, "        return _quote_segment(str(value))"),
    ]},
    {"name": "if-else-flip-early-return-in-number-to-url", "edits": [
        (C, _NUM_TO_URL, "    def to_url(self, value: t.Any) -> str:\n        text = str(self.num_convert(value))\n        if not self.fixed_digits:\n            return text\n        return text.zfill(self.fixed_digits)"),
    ]},
    {"name": "renamed-locals-and-rewritten-condition-in-to-python", "edits": [
        (C, _NUM_TO_PYTHON_HEAD, "    def to_python(self, value: str) -> t.Any:\n        digits = self.fixed_digits\n        if digits:\n            if not (len(value) == digits):\n                raise ValidationError()\n        value_num = self.num_convert(value)"),
    ]},
    {"name": "loop-instead-of-comprehension-in-any-converter", "edits": [
        (C, _ANY_RX, "        escaped = []\n        for item in items:\n            escaped.append(re.escape(item))\n        self.regex = \"(?:\" + \"|\".join(escaped) + \")\""),
    ]},
    {"name": "format-and-concatenation-instead-of-fstrings", "edits": [
        (C, "        return f\"-?{self.regex}\"", "        return \"-?{}\".format(self.regex)"),
        (C, _UNICODE_INIT,
         "        if length is None:\n"
         "            upper = \"\" if maxlength is None else str(int(maxlength))\n"
         "            length_regex = \"{\" + str(int(minlength)) + \",\" + upper + \"}\"\n"
         "        else:\n"
         "            length_regex = \"{%d}\" % int(length)\n"
         "        self.regex = \"[^/]\" + length_regex\n"),
    ]},
    {"name": "builder-loop-early-continue-renamed-hoisted-constant", "edits": [
        (R, "_CALL_CONVERTER_CODE_FMT =", "_SEGMENT_SAFE = " + _SAFE + "\n_CALL_CONVERTER_CODE_FMT ="),
        (R, _OPS_LOOP,
         "        for entry in self._trace:\n"
         "            dynamic, text = entry\n"
         "            if text == \"|\" and opl is dom_ops:\n"
         "                opl = url_ops\n"
         "                continue\n"
         "            if not dynamic:\n"
         "                opl.append((False, quote(text, safe=_SEGMENT_SAFE)))\n"
         "                continue\n"
         "            if text not in defaults:\n"
         "                opl.append((True, text))\n"
         "                continue\n"
         "            converter = self._converters[text]\n"
         "            opl.append((False, converter.to_url(defaults[text])))\n"),
    ]},
    {"name": "builder-parts-loop-instead-of-comprehension", "edits": [
        (R, _PARTS_COMP,
         "            parts: list[ast.expr] = []\n"
         "            for is_dynamic, elem in ops:\n"
         "                if is_dynamic:\n"
         "                    parts.append(_convert(elem))\n"
         "                else:\n"
         "                    parts.append(ast.Constant(elem))\n"),
    ]},
    {"name": "adapter-build-loop-and-concatenation", "edits": [
        (M, "                values = {k: v for k, v in values.items() if v is not None}\n",
         "                kept = {}\n                for key, item in values.items():\n                    if item is None:\n                        continue\n                    kept[key] = item\n                values = kept\n"),
        (M, _REL_URL, "            return self.script_name.rstrip(\"/\") + \"/\" + path.lstrip(\"/\")"),
        (M, _EXT_URL, "        root = self.script_name[:-1]\n        return \"{}//{}{}/{}\".format(scheme, host, root, path.lstrip(\"/\"))"),
    ]},
    {"name": "suitable-for-with-any-and-all", "edits": [
        (R, _SUITABLE_BODY,
         "        if any(key not in defaults and key not in values for key in self.arguments):\n"
         "            return False\n"
         "\n"
         "        if not defaults:\n"
         "            return True\n"
         "\n"
         "        return all(\n"
         "            name not in values or values[name] == expected\n"
         "            for name, expected in defaults.items()\n"
         "        )\n"),
    ]},
    {"name": "matcher-zips-converter-items", "edits": [
        (T, _MATCH_TAIL,
         "            for (name, converter), value in zip(rule._converters.items(), values):\n"
         "                try:\n"
         "                    value = converter.to_python(value)\n"),
    ]},
    {"name": "urlencode-loop-and-flipped-sort-branch", "edits": [
        (U, _URLENCODE, "    items = []\n    for pair in iter_multi_items(query):\n        if pair[1] is None:\n            continue\n        items.append(pair)\n"),
        (R, _ENCODE_QV,
         "        pairs: t.Iterable[tuple[str, str]] = iter_multi_items(query_vars)\n"
         "\n"
         "        if not self.map.sort_parameters:\n"
         "            return _urlencode(pairs)\n"
         "\n"
         "        return _urlencode(sorted(pairs, key=self.map.sort_key))\n"),
    ]},
    {"name": "static-trace-append-extracted-into-a-method", "edits": [
        (R, "    def _parse_rule(self, rule: str) -> t.Iterable[RulePart]:", "    def _note_static(self, text: str) -> None:\n        self._trace.append((False, text))\n\n    def _parse_rule(self, rule: str) -> t.Iterable[RulePart]:"),
        (R, "                self._trace.append((False, data[\"static\"]))", "                self._note_static(data[\"static\"])"),
        (R, "                self._trace.append((False, \"/\"))", "                self._note_static(\"/\")"),
    ]},
    {"name": "conditional-expressions-in-compile-and-get-host", "edits": [
        (R, _DOMAIN_RULE, "        domain_rule = (self.host if self.map.host_matching else self.subdomain) or \"\"\n"),
        (M, _GET_HOST,
         "        if self.map.host_matching:\n"
         "            return self.server_name if domain_part is None else domain_part\n"
         "\n"
         "        subdomain = self.subdomain if domain_part is None else domain_part\n"
         "\n"
         "        if not subdomain:\n"
         "            return self.server_name\n"
         "\n"
         "        return f\"{subdomain}.{self.server_name}\"\n"),
    ]},
    {"name": "partial-build-guard-clauses", "edits": [
        (M, _PARTIAL_LOOP,
         "        for candidate in self.map._rules_by_endpoint.get(endpoint, ()):\n"
         "            if not candidate.suitable_for(values, method):\n"
         "                continue\n"
         "\n"
         "            built = candidate.build(values, append_unknown)\n"
         "\n"
         "            if built is None:\n"
         "                continue\n"
         "\n"
         "            domain, url = built\n"
         "            rv = (domain, url, candidate.websocket)\n"
         "\n"
         "            if not self.map.host_matching or domain == self.server_name:\n"
         "                return rv\n"
         "\n"
         "            if first_match is None:\n"
         "                first_match = rv\n"),
    ]},
    {"name": "uuid-to-url-with-fstring-and-table-built-stepwise", "edits": [
        (C, _UUID_TO_URL, "    def to_url(self, value: uuid.UUID) -> str:\n        return f\"{value}\""),
        (C, "    \"uuid\": UUIDConverter,\n}", "}\nDEFAULT_CONVERTERS = {**DEFAULT_CONVERTERS, \"uuid\": UUIDConverter}"),
    ]},
    {"name": "itertools-chain-and-conditional-builder-choice", "edits": [
        (R, "import ast\nimport re\n", "import ast\nimport itertools\nimport re\n"),
        (R, "            for is_dynamic, elem in dom_ops + url_ops\n", "            for is_dynamic, elem in itertools.chain(dom_ops, url_ops)\n"),
        (R, "        try:\n            if append_unknown:\n                return self._build_unknown(**values)\n            else:\n                return self._build(**values)\n        except ValidationError:\n            return None",
         "        builder = self._build_unknown if append_unknown else self._build\n        try:\n            return builder(**values)\n        except ValidationError:\n            return None"),
    ]},
    {"name": "walrus-lookup-in-get-converter-and-hoisted-regex-constant", "edits": [
        (R, "        if converter_name not in self.map.converters:\n            raise LookupError(f\"the converter {converter_name!r} does not exist\")\n        return self.map.converters[converter_name](self.map, *args, **kwargs)",
         "        if (factory := self.map.converters.get(converter_name)) is None:\n            raise LookupError(f\"the converter {converter_name!r} does not exist\")\n        return factory(self.map, *args, **kwargs)"),
        (C, "class ValidationError(ValueError):", "_DIGITS = r\"\\d+\"\n\n\nclass ValidationError(ValueError):"),
        (C, "    regex = r\"\\d+\"\n", "    regex = _DIGITS\n"),
    ]},
    {"name": "value-encoded-to-utf8-bytes-before-quoting", "edits": [
        (C, _CONV_QUOTE, "        raw = str(value).encode(\"utf-8\")\n        return quote(raw, safe=" + _SAFE + ")"),
    ]},
    {"name": "host-matching-fallback-collected-in-a-list", "edits": [
        (M, "        first_match = None\n\n        for rule in self.map._rules_by_endpoint.get(endpoint, ()):", "        elsewhere = []\n\n        for rule in self.map._rules_by_endpoint.get(endpoint, ()):"),
        (M, "                        elif first_match is None:\n                            first_match = rv\n", "                        elsewhere.append(rv)\n"),
        (M, "        return first_match\n", "        return elsewhere[0] if elsewhere else None\n"),
    ]},
]

# ---- round 3b: lazy itertools iterators over interpreted values (rules, (flag, text) operations, converter pairs) ----
_IMP_M = "import typing as t\nimport warnings\n"
_IMP_T = "import re\nimport typing as t\nfrom dataclasses import dataclass\n"
_IMP_R = "import ast\nimport re\n"
_GDR_LOOP = (
    "        for r in self.map._rules_by_endpoint[rule.endpoint]:\n"
    "            # every rule that comes after this one, including ourself\n"
    "            # has a lower priority for the defaults.  We order the ones\n"
    "            # with the highest priority up for building.\n"
    "            if r is rule:\n"
    "                break\n"
)


def _gdr(head: str) -> list:
    """get_default_redirect: the rules of higher priority taken from a lazy iterator instead of for / break"""
    return [(M, _IMP_M, "import itertools\n" + _IMP_M), (M, _GDR_LOOP, head)]


def _partial_filtered(source: str) -> list:
    """_partial_build: the suitable rules come out of a lazy filter"""
    return [(M, _IMP_M, "import itertools\n" + _IMP_M), (M, _PARTIAL_LOOP,
        f"        for rule in {source}:\n"
        "            if True:\n"
        "                build_rv = rule.build(values, append_unknown)\n"
        "\n"
        "                if build_rv is not None:\n"
        "                    rv = (build_rv[0], build_rv[1], rule.websocket)\n"
        "                    if self.map.host_matching:\n"
        "                        if rv[0] == self.server_name:\n"
        "                            return rv\n"
        "                        elif first_match is None:\n"
        "                            first_match = rv\n"
        "                    else:\n"
        "                        return rv\n")]


def _parts_starmap(fn: str) -> list:
    return [(R, _IMP_R, "import ast\nimport itertools\nimport re\n"), (R, _PARTS_COMP, f"            parts: list[ast.expr] = list(itertools.starmap({fn}, ops))\n")]


def _match_zip(pairs: str) -> list:
    return [(T, _IMP_T, "import itertools\n" + _IMP_T), (T, _MATCH_TAIL,
        f"            for name, value in {pairs}:\n"
        "                try:\n"
        "                    value = rule._converters[name].to_python(value)\n")]


_RULES = "self.map._rules_by_endpoint.get(endpoint, ())"
TWINS += [
    {"name": "shape:default-redirect-takewhile-loop", "edits": _gdr("        for r in itertools.takewhile(lambda other: other is not rule, self.map._rules_by_endpoint[rule.endpoint]):\n")},
    {"name": "shape:default-redirect-islice-up-to-index", "edits": _gdr("        ranked = self.map._rules_by_endpoint[rule.endpoint]\n        position = next(i for i, other in enumerate(ranked) if other is rule)\n        for r in itertools.islice(ranked, position):\n")},
    {"name": "shape:default-redirect-reversed-dropwhile", "edits": _gdr("        ranked = self.map._rules_by_endpoint[rule.endpoint]\n        lower_first = itertools.dropwhile(lambda other: other is not rule, reversed(ranked))\n        for r in reversed(list(itertools.islice(lower_first, 1, None))):\n")},
    {"name": "shape:partial-build-filterfalse", "edits": _partial_filtered(f"itertools.filterfalse(lambda r: not r.suitable_for(values, method), {_RULES})")},
    {"name": "shape:partial-build-dropwhile-unsuitable-prefix", "edits": [(M, _IMP_M, "import itertools\n" + _IMP_M), (M, "        for rule in self.map._rules_by_endpoint.get(endpoint, ()):\n            if rule.suitable_for(values, method):\n                build_rv", f"        for rule in itertools.dropwhile(lambda r: not r.suitable_for(values, method), {_RULES}):\n            if rule.suitable_for(values, method):\n                build_rv")]},
    {"name": "shape:partial-build-compress-by-suitability", "edits": _partial_filtered(f"itertools.compress({_RULES}, (r.suitable_for(values, method) for r in {_RULES}))")},
    {"name": "shape:builder-parts-starmap", "edits": _parts_starmap("lambda is_dynamic, elem: _convert(elem) if is_dynamic else ast.Constant(elem)")},
    {"name": "shape:builder-ops-chain-from-iterable", "edits": [(R, _IMP_R, "import ast\nimport itertools\nimport re\n"), (R, "            for is_dynamic, elem in dom_ops + url_ops\n", "            for is_dynamic, elem in itertools.chain.from_iterable((dom_ops, url_ops))\n")]},
    {"name": "shape:matcher-zip-longest-names-values", "edits": _match_zip("itertools.zip_longest(rule._converters.keys(), values)")},
    {"name": "shape:matcher-pairs-through-groupby-runs", "edits": _match_zip("((name, value) for (name, value), _run in itertools.groupby(zip(rule._converters.keys(), values), key=lambda pair: pair))")},
]
MUTANTS += [
    {"name": "shape:partial-build-takewhile-stops-at-first-unsuitable", "expect": "R4.7", "edits": _partial_filtered(f"itertools.takewhile(lambda r: r.suitable_for(values, method), {_RULES})")},
    {"name": "shape:partial-build-dropwhile-drops-the-suitable-prefix", "expect": "R4.7", "edits": _partial_filtered(f"itertools.dropwhile(lambda r: r.suitable_for(values, method), {_RULES})")},
    {"name": "shape:partial-build-filterfalse-polarity-lost", "expect": "R4.7", "edits": _partial_filtered(f"itertools.filterfalse(lambda r: r.suitable_for(values, method), {_RULES})")},
    {"name": "shape:partial-build-compress-selectors-shifted", "expect": "R4.7", "edits": _partial_filtered(f"itertools.compress({_RULES}, itertools.chain([True], (r.suitable_for(values, method) for r in {_RULES})))")},
    {"name": "shape:builder-parts-starmap-arguments-crossed", "expect": "R4.3", "edits": _parts_starmap("lambda elem, is_dynamic: _convert(elem) if is_dynamic else ast.Constant(elem)")},
    {"name": "shape:matcher-zip-longest-names-reversed", "expect": "R4.4", "edits": _match_zip("itertools.zip_longest(reversed(list(rule._converters.keys())), values)")},
]


def _partial_sentinel(pre: str = "") -> list:
    """_partial_build pulling the rules through iter(callable, sentinel)"""
    edits = _partial_filtered("iter(lambda: next(pending, None), None)")[1:]
    old, new = edits[0][1], edits[0][2]
    return [(M, old, f"        pending = iter({_RULES})\n{pre}" + new.replace("            if True:\n", "            if rule.suitable_for(values, method):\n"))]


TWINS += [
    {"name": "shape:partial-build-iter-callable-sentinel", "edits": _partial_sentinel()},
]
MUTANTS += [
    {"name": "shape:partial-build-iter-callable-sentinel-skips-first", "expect": "R4.7", "edits": _partial_sentinel("        next(pending, None)\n")},
]

# ---- round 4: options of a rule wrapped in a factory (R4.7 / R4.4), a match leaves the rules alone (R4.8), single
# length options of the string converter (R4.2)
_EMPTY = "        return type(self)(self.rule, **self.get_empty_kwargs())"
_EP_WRAP = "                rule = rule.empty()\n                rule.endpoint = self.prefix + rule.endpoint"
_SM_WRAP = "                rule = rule.empty()\n                rule.rule = self.path + rule.rule"
_SD_WRAP = "                rule = rule.empty()\n                rule.subdomain = self.subdomain"
_RESULT_INIT = "            result = {}\n            for name, value in zip(rule._converters.keys(), values):"
MUTANTS += [
    {"name": "factory:empty-kwargs-drop-host", "expect": "R4.7", "edits": [(R, "            host=self.host,\n", "")]},
    {"name": "factory:empty-kwargs-host-replaced-by-other-options", "expect": "R4.4", "edits": [(R, "            host=self.host,\n", "            merge_slashes=self.merge_slashes,\n            websocket=self.websocket,\n")]},
    {"name": "factory:empty-kwargs-drop-subdomain", "expect": "R4.7", "edits": [(R, "            subdomain=self.subdomain,\n", "")]},
    {"name": "factory:empty-kwargs-drop-alias", "expect": "R4.7", "edits": [(R, "            alias=self.alias,\n", "")]},
    {"name": "factory:empty-filters-host-out", "expect": "R4.7", "edits": [(R, _EMPTY, "        kept = {k: v for k, v in self.get_empty_kwargs().items() if k not in (\"host\", \"websocket\")}\n        return type(self)(self.rule, **kept)")]},
    {"name": "factory:endpoint-prefix-builds-a-new-rule-without-host", "expect": "R4.7", "edits": [(R, _EP_WRAP, "                rule = Rule(rule.rule, defaults=rule.defaults, subdomain=rule.subdomain, methods=rule.methods, endpoint=self.prefix + rule.endpoint, alias=rule.alias)")]},
    {"name": "factory:submount-resets-host-of-the-copy", "expect": "R4.7", "edits": [(R, _SM_WRAP, "                rule = rule.empty()\n                rule.rule = self.path + rule.rule\n                rule.host = None")]},
    {"name": "factory:subdomain-factory-writes-host-too", "expect": "R4.7", "edits": [(R, _SD_WRAP, "                rule = rule.empty()\n                rule.subdomain = rule.host = self.subdomain")]},
    {"name": "history:result-aliases-rule-defaults", "expect": "R4.8", "edits": [(T, _RESULT_INIT, "            result = rule.defaults if rule.defaults is not None else {}\n            for name, value in zip(rule._converters.keys(), values):"), (T, _MERGE_DEFAULTS, "")]},
    {"name": "history:converted-values-merged-into-rule-defaults", "expect": "R4.8", "edits": [(T, _MERGE_DEFAULTS, "            if rule.defaults:\n                rule.defaults.update(result)\n                result = rule.defaults")]},
    {"name": "history:last-result-kept-as-rule-defaults", "expect": "R4.8", "edits": [(T, _MERGE_DEFAULTS, "            if rule.defaults:\n                result.update(rule.defaults)\n                rule.defaults = result")]},
    {"name": "history:adapter-merges-defaults-in-place", "expect": "R4.8", "edits": [(T, _MERGE_DEFAULTS, ""), (M, "            rule, rv = result\n", "            rule, rv = result\n            if rule.defaults:\n                rule.defaults.update(rv)\n                rv = rule.defaults\n")]},
    {"name": "string:minlength-ignored-without-maxlength", "expect": "R4.2", "edits": [(C, _UNICODE_INIT, "        if length is not None:\n            length_regex = f\"{{{int(length)}}}\"\n        elif maxlength is not None:\n            length_regex = f\"{{{int(minlength)},{int(maxlength)}}}\"\n        else:\n            length_regex = f\"{{1,{int(minlength)}}}\"\n        self.regex = f\"[^/]{length_regex}\"\n")]},
    {"name": "string:maxlength-alone-becomes-exact-length", "expect": "R4.2", "edits": [(C, _UNICODE_INIT, "        if length is None and maxlength is not None and minlength == 1:\n            length = maxlength\n        if length is not None:\n            length_regex = f\"{{{int(length)}}}\"\n        else:\n            if maxlength is None:\n                maxlength_value = \"\"\n            else:\n                maxlength_value = str(int(maxlength))\n            length_regex = f\"{{{int(minlength)},{maxlength_value}}}\"\n        self.regex = f\"[^/]{length_regex}\"\n")]},
]
TWINS += [
    {"name": "factory:empty-kwargs-as-dict-literal-with-more-options", "edits": [(R, "            host=self.host,\n", "            host=self.host,\n            merge_slashes=self.merge_slashes,\n            websocket=self.websocket,\n")]},
    {"name": "factory:empty-through-local-kwargs", "edits": [(R, _EMPTY, "        options = dict(self.get_empty_kwargs())\n        cls = type(self)\n        return cls(self.rule, **options)")]},
    {"name": "factory:endpoint-prefix-sets-endpoint-through-local", "edits": [(R, _EP_WRAP, "                copy = rule.empty()\n                copy.endpoint = f\"{self.prefix}{copy.endpoint}\"\n                rule = copy")]},
    {"name": "factory:submount-helper-for-the-copy", "edits": [(R, _SM_WRAP, "                rule = self._mounted(rule)"), (R, "    def get_rules(self, map: Map) -> t.Iterator[Rule]:\n        for rulefactory in self.rules:\n            for rule in rulefactory.get_rules(map):\n                rule = self._mounted(rule)", "    def _mounted(self, rule: Rule) -> Rule:\n        copy = rule.empty()\n        copy.rule = self.path + copy.rule\n        return copy\n\n    def get_rules(self, map: Map) -> t.Iterator[Rule]:\n        for rulefactory in self.rules:\n            for rule in rulefactory.get_rules(map):\n                rule = self._mounted(rule)")]},
    {"name": "history:result-built-by-dict-merge", "edits": [(T, _MERGE_DEFAULTS, "            if rule.defaults:\n                result = {**result, **rule.defaults}")]},
    {"name": "history:result-starts-as-dict-call-and-union-update", "edits": [(T, _RESULT_INIT, "            result = dict()\n            for name, value in zip(rule._converters.keys(), values):"), (T, _MERGE_DEFAULTS, "            if rule.defaults:\n                result |= rule.defaults")]},
    {"name": "history:defaults-copied-item-by-item", "edits": [(T, _MERGE_DEFAULTS, "            for key, default in (rule.defaults or {}).items():\n                result[key] = default")]},
    {"name": "string:quantifier-chosen-by-early-branches", "edits": [(C, _UNICODE_INIT, "        if length is not None:\n            length_regex = f\"{{{int(length)}}}\"\n        elif maxlength is not None:\n            length_regex = f\"{{{int(minlength)},{int(maxlength)}}}\"\n        else:\n            length_regex = f\"{{{int(minlength)},}}\"\n        self.regex = f\"[^/]{length_regex}\"\n")]},
]

# ---- stress round: library spellings of the same operation around the newest clauses (R4.2 text transform / padding,
# R4.7 selection, R4.8 match result)
_IMP_C = "from urllib.parse import quote\n"
_SUITABLE_ARGS = "        for key in self.arguments:\n            if key not in defaults and key not in values:\n                return False\n"
_SUITABLE_DEFAULTS_LOOP = "            for key, value in defaults.items():\n                if key in values and value != values[key]:\n                    return False\n"
_NUM_TO_URL_BODY = "        value_str = str(self.num_convert(value))\n" + _ZFILL


def _partial_quote(safe: str) -> list:
    return [(C, _IMP_C, "from functools import partial\n" + _IMP_C + "\n_quote_segment = partial(quote, safe=" + safe + ")\n"), (C, _CONV_QUOTE, "        return _quote_segment(str(value))")]


def _from_bytes(enc: str) -> list:
    return [(C, _IMP_C, _IMP_C + "from urllib.parse import quote_from_bytes\n"), (C, _CONV_QUOTE, f"        return quote_from_bytes(str(value).encode({enc}), safe=" + _SAFE + ")")]


def _sentinel_get(test: str) -> list:
    return [(R, "    def suitable_for(", "    _MISSING = object()\n\n    def suitable_for("),
            (R, _SUITABLE_DEFAULTS_LOOP, f"            for key, value in defaults.items():\n                given = values.get(key, self._MISSING)\n                if {test}:\n                    return False\n")]


def _chainmap(expr: str) -> list:
    return [(T, _IMP_T, "from collections import ChainMap\n" + _IMP_T), (T, _MERGE_DEFAULTS, f"            if rule.defaults:\n                result = dict({expr})")]


_PARTIAL_GEN = (
    "        candidates = (\n"
    "            (built[0], built[1], rule.websocket)\n"
    "            for rule in self.map._rules_by_endpoint.get(endpoint, ())\n"
    "            if rule.suitable_for(values, method)\n"
    "            and (built := rule.build(values, append_unknown)) is not None\n"
    "        )\n"
    "\n"
    "        if not self.map.host_matching:\n"
    "            return next(candidates, None)\n"
    "\n"
    "        first_match = None\n"
    "\n"
    "        for rv in candidates:\n"
    "            if rv[0] == self.server_name:\n"
    "                return rv\n"
    "            if first_match is None:\n"
    "                first_match = rv\n"
)
_PARTIAL_WHOLE = "        first_match = None\n\n" + _PARTIAL_LOOP
TWINS += [
    {"name": "stress:to-url-through-a-hoisted-partial", "edits": _partial_quote(_SAFE)},
    {"name": "stress:to-url-quote-from-bytes-of-the-utf8-text", "edits": _from_bytes("\"utf-8\"")},
    {"name": "stress:to-url-quote-from-bytes-default-encoding", "edits": _from_bytes("")},
    {"name": "stress:number-to-url-zfill-of-digits-or-zero", "edits": [(C, _NUM_TO_URL_BODY, "        return str(self.num_convert(value)).zfill(self.fixed_digits or 0)")]},
    {"name": "stress:suitable-for-arguments-as-a-subset-test", "edits": [(R, _SUITABLE_ARGS, "        if not self.arguments.issubset(set(defaults) | set(values)):\n            return False\n")]},
    {"name": "stress:suitable-for-arguments-minus-key-views", "edits": [(R, _SUITABLE_ARGS, "        if self.arguments - values.keys() - set(defaults):\n            return False\n")]},
    {"name": "stress:suitable-for-get-with-a-private-sentinel", "edits": _sentinel_get("given is not self._MISSING and given != value")},
    {"name": "stress:match-result-through-a-chainmap", "edits": _chainmap("ChainMap(rule.defaults, result)")},
    {"name": "stress:partial-build-candidates-from-a-generator", "edits": [(M, _PARTIAL_WHOLE, _PARTIAL_GEN)]},
    {"name": "stress:matcher-head-and-rest-unpacked", "edits": [
        (T, "            part = parts[0]\n", "            part, *rest = parts\n"), (T, "                rv = _match(state.static[part], parts[1:], values)\n", "                rv = _match(state.static[part], rest, values)\n"), (T, "                remaining = parts[1:]\n", "                remaining = rest\n")]},
]
MUTANTS += [
    {"name": "stress:hoisted-partial-keeps-question-mark-raw", "expect": "R4.1", "edits": _partial_quote("\"!$&'()*+,/:;=?@\"")},
    {"name": "stress:quote-from-bytes-of-latin-1-text", "expect": "R4.2", "edits": _from_bytes("\"latin-1\", \"replace\"")},
    {"name": "stress:number-to-url-zfill-of-zero", "expect": "R4.2", "edits": [(C, _NUM_TO_URL_BODY, "        return str(self.num_convert(value)).zfill(0 and self.fixed_digits)")]},
    {"name": "stress:suitable-for-subset-test-forgets-the-defaults", "expect": "R4.3", "edits": [(R, _SUITABLE_ARGS, "        if not self.arguments.issubset(set(values)):\n            return False\n")]},
    {"name": "stress:suitable-for-sentinel-test-inverted", "expect": "R4.7", "edits": _sentinel_get("given is not self._MISSING and given == value")},
    {"name": "stress:chainmap-without-the-defaults", "expect": "R4.4", "edits": _chainmap("ChainMap(result)")},
    {"name": "stress:partial-build-generator-keeps-the-last-other-host", "expect": "R4.7", "edits": [(M, _PARTIAL_WHOLE, _PARTIAL_GEN.replace("            if first_match is None:\n                first_match = rv\n", "            first_match = rv\n"))]},
]

# spellings of a call: keyword for the first parameter, the unbound method, the explicit base-class call, format()
_FLOAT_SUPER = "        super().__init__(map, min=min, max=max, signed=signed)  # type: ignore"
_ZFILL_CALL = "            value_str = value_str.zfill(self.fixed_digits)\n"
TWINS += [
    {"name": "stress:uuid-to-python-with-hex-keyword", "edits": [(C, "        return uuid.UUID(value)", "        return uuid.UUID(hex=value)")]},
    {"name": "stress:uuid-to-url-with-format", "edits": [(C, _UUID_TO_URL, "    def to_url(self, value: uuid.UUID) -> str:\n        return format(value)")]},
    {"name": "stress:quote-with-string-keyword", "edits": [(C, _CONV_QUOTE, "        return quote(string=str(value), safe=" + _SAFE + ")")]},
    {"name": "stress:zfill-as-unbound-str-method", "edits": [(C, _ZFILL_CALL, "            value_str = str.zfill(value_str, self.fixed_digits)\n")]},
    {"name": "stress:float-init-calls-the-base-class-explicitly", "edits": [(C, _FLOAT_SUPER, "        NumberConverter.__init__(self, map, 0, min, max, signed)  # type: ignore")]},
]
MUTANTS += [
    {"name": "stress:quote-with-string-keyword-of-lowered-text", "expect": "R4.2", "edits": [(C, _CONV_QUOTE, "        return quote(string=str(value).lower(), safe=" + _SAFE + ")")]},
    {"name": "stress:unbound-zfill-one-digit-short", "expect": "R4.2", "edits": [(C, _ZFILL_CALL, "            value_str = str.zfill(value_str, self.fixed_digits - 1)\n")]},
    {"name": "stress:explicit-base-init-drops-signed", "expect": "R4.2", "edits": [(C, _FLOAT_SUPER, "        NumberConverter.__init__(self, map, 0, min, max)  # type: ignore")]},
    {"name": "stress:uuid-hex-keyword-to-python-skips-conversion", "expect": "R4.2", "edits": [(C, "        return uuid.UUID(value)", "        return uuid.UUID(hex=value) and value")]},
]

_RULE_BUILD_TRY = "        try:\n            if append_unknown:\n                return self._build_unknown(**values)\n            else:\n                return self._build(**values)\n        except ValidationError:\n            return None\n"


def _build_suppress(test: str) -> list:
    return [(R, _IMP_R, "import ast\nimport contextlib\nimport re\n"), (R, _RULE_BUILD_TRY, f"        with contextlib.suppress(ValidationError):\n            if {test}:\n                return self._build_unknown(**values)\n            return self._build(**values)\n        return None\n")]


TWINS += [
    {"name": "stress:rule-build-with-contextlib-suppress", "edits": _build_suppress("append_unknown")},
    {"name": "stress:match-result-as-a-dict-comprehension", "edits": [(T, _RESULT_INIT + "\n                try:\n                    value = rule._converters[name].to_python(value)\n                except ValidationError:\n                    raise NoMatch(have_match_for, websocket_mismatch) from None\n                result[str(name)] = value\n",
        "            try:\n                result = {\n                    str(name): rule._converters[name].to_python(value)\n                    for name, value in zip(rule._converters.keys(), values)\n                }\n            except ValidationError:\n                raise NoMatch(have_match_for, websocket_mismatch) from None\n")]},
    {"name": "stress:match-defaults-merged-under-a-copy", "edits": [(T, _MERGE_DEFAULTS, "            if rule.defaults:\n                merged = rule.defaults.copy()\n                merged.update((k, v) for k, v in result.items() if k not in merged)\n                result = merged")]},
]
MUTANTS += [
    {"name": "stress:rule-build-suppress-picks-the-other-builder", "expect": "R4.5", "edits": _build_suppress("not append_unknown")},
    {"name": "stress:match-defaults-merged-into-the-rule-s-own-mapping", "expect": "R4.8", "edits": [(T, _MERGE_DEFAULTS, "            if rule.defaults:\n                merged = rule.defaults\n                merged.update((k, v) for k, v in result.items() if k not in merged)\n                result = merged")]},
]

# fresh refactorings of the stress round that failed at first (q03: keyword spelling of uuid.UUID -> false alarm of R4.4;
# q05: types.MethodType instead of __get__ -> not understood)
_IMP_TYPES = "from types import CodeType\n"
_BIND_BUILDERS = (
    "        self._build = self._compile_builder(False).__get__(self, None)\n"
    "        self._build_unknown: t.Callable[..., tuple[str, str]]\n"
    "        self._build_unknown = self._compile_builder(True).__get__(self, None)\n"
)


def _method_type(first: str, second: str) -> list:
    return [(R, _IMP_TYPES, _IMP_TYPES + "from types import MethodType\n"), (R, _BIND_BUILDERS,
        f"        self._build = MethodType(self._compile_builder({first}), self)\n"
        "        self._build_unknown: t.Callable[..., tuple[str, str]]\n"
        f"        self._build_unknown = MethodType(self._compile_builder({second}), self)\n")]


_UUID_RX = "    regex = (\n        r\"[A-Fa-f0-9]{8}-[A-Fa-f0-9]{4}-\"\n        r\"[A-Fa-f0-9]{4}-[A-Fa-f0-9]{4}-[A-Fa-f0-9]{12}\"\n    )\n"
_TABLE = (
    "DEFAULT_CONVERTERS: t.Mapping[str, type[BaseConverter]] = {\n    \"default\": UnicodeConverter,\n    \"string\": UnicodeConverter,\n    \"any\": AnyConverter,\n"
    "    \"path\": PathConverter,\n    \"int\": IntegerConverter,\n    \"float\": FloatConverter,\n    \"uuid\": UUIDConverter,\n}\n"
)
_TABLE_CALL = (
    "DEFAULT_CONVERTERS: t.Mapping[str, type[BaseConverter]] = dict(\n    default=UnicodeConverter,\n    string=UnicodeConverter,\n    any=AnyConverter,\n"
    "    path=PathConverter,\n    int=IntegerConverter,\n    float=FloatConverter,\n    uuid=UUIDConverter,\n)\n"
)
TWINS += [
    {"name": "fresh:q05-builders-bound-with-methodtype-and-compile-cleanup", "edits": _method_type("False", "True") + [
        (R, _DOMAIN_RULE + "        self._parts = []\n        self._trace = []\n        self._converters = {}\n        if domain_rule == \"\":\n            self._parts = [\n",
            "        domain_rule = self.host if self.map.host_matching else self.subdomain\n        self._parts, self._trace, self._converters = [], [], {}\n        if not domain_rule:\n            self._parts = [\n"),
        (R, "        globs: dict[str, t.Any] = {}\n        locs: dict[str, t.Any] = {}\n        exec(code, globs, locs)\n        return locs[name]  # type: ignore", "        namespace: dict[str, t.Any] = {}\n        exec(code, {}, namespace)\n        return namespace[name]  # type: ignore"),
        (R, "        return (1 if self.alias else 0, -len(self.arguments), -len(self.defaults or ()))", "        alias_rank = int(bool(self.alias))\n        num_defaults = len(self.defaults) if self.defaults else 0\n        return (alias_rank, -len(self.arguments), -num_defaults)"),
    ]},
    {"name": "fresh:q03-uuid-hex-keyword-joined-regex-table-as-dict-call", "edits": [
        (C, _FLOAT_SUPER, "        super().__init__(map, 0, min, max, signed)  # type: ignore\n\n\n_HEX_DIGIT = \"[A-Fa-f0-9]\"\n_UUID_GROUP_LENGTHS = (8, 4, 4, 4, 12)"),
        (C, _UUID_RX, "    regex = \"-\".join(f\"{_HEX_DIGIT}{{{n}}}\" for n in _UUID_GROUP_LENGTHS)\n"),
        (C, "        return uuid.UUID(value)", "        return uuid.UUID(hex=value)"),
        (C, _TABLE, _TABLE_CALL),
    ]},
]
MUTANTS += [
    {"name": "fresh:methodtype-binds-the-builders-crosswise", "expect": "R4.5", "edits": _method_type("True", "False")},
    {"name": "fresh:uuid-regex-joined-with-one-group-short", "expect": "R4.2", "edits": [
        (C, _FLOAT_SUPER, _FLOAT_SUPER + "\n\n\n_HEX_DIGIT = \"[A-Fa-f0-9]\"\n_UUID_GROUP_LENGTHS = (8, 4, 4, 12)"),
        (C, _UUID_RX, "    regex = \"-\".join(f\"{_HEX_DIGIT}{{{n}}}\" for n in _UUID_GROUP_LENGTHS)\n"),
        (C, "        return uuid.UUID(value)", "        return uuid.UUID(hex=value)"),
    ]},
    {"name": "fresh:table-as-dict-call-binds-uuid-to-the-text-converter", "expect": "R4.2", "edits": [(C, _TABLE, _TABLE_CALL.replace("uuid=UUIDConverter", "uuid=UnicodeConverter"))]},
]

_GROUPS = (
    "                    converter_groups = sorted(\n                        match.groupdict().items(), key=lambda entry: entry[0]\n                    )\n"
    "                    groups = [\n                        value\n                        for key, value in converter_groups\n                        if key[:11] == \"__werkzeug_\"\n                    ]\n"
)
_HOST_TAIL = "        if domain_part is None:\n            subdomain = self.subdomain\n        else:\n            subdomain = domain_part\n\n        if subdomain:\n            return f\"{subdomain}.{self.server_name}\"\n        else:\n            return self.server_name\n"


def _groups_by_sorted_names(order: str) -> list:
    return [(T, _GROUPS, f"                    named = match.groupdict()\n                    groups = [\n                        named[key] for key in {order} if key.startswith(\"__werkzeug_\")\n                    ]\n")]


TWINS += [
    {"name": "stress:matcher-groups-looked-up-by-sorted-names", "edits": _groups_by_sorted_names("sorted(named)")},
    {"name": "stress:get-host-joins-the-non-empty-labels", "edits": [(M, _HOST_TAIL, "        subdomain = domain_part if domain_part is not None else self.subdomain\n        return \".\".join(filter(None, (subdomain, self.server_name)))\n")]},
]
MUTANTS += [
    {"name": "stress:matcher-groups-by-sorted-names-yield-the-names", "expect": "R4.4", "edits": [(T, _GROUPS, "                    named = match.groupdict()\n                    groups = [\n                        key for key in sorted(named) if key.startswith(\"__werkzeug_\")\n                    ]\n")]},
    {"name": "stress:get-host-joins-the-labels-the-other-way-round", "expect": "R4.7", "edits": [(M, _HOST_TAIL, "        subdomain = domain_part if domain_part is not None else self.subdomain\n        return \".\".join(filter(None, (self.server_name, subdomain)))\n")]},
]
