"""self-validation battery for C02: each mutant breaks the round trip for some input of the property's domain and must be
reported by the named rule; each twin preserves behaviour and must stay silent."""

FP = "formparser.py"
MP = "sansio/multipart.py"
TEST = "test.py"
URLS = "urls.py"
SREQ = "sansio/request.py"
STRUCT = "datastructures/structures.py"

MUTANTS = [
    # ---------------- R2.1
    {"name": "parse strips each payload chunk", "expect": "R2.1", "edits": [(FP, "                    _write(event.data)\n", "                    _write(event.data.strip())\n")]},
    {"name": "parser falls back to latin-1", "expect": "R2.1", "edits": [(FP, '                return ct_charset\n\n        return "utf-8"\n', '                return ct_charset\n\n        return "latin-1"\n')]},
    {"name": "file container not rewound", "expect": "R2.1", "edits": [(FP, "                            container.seek(0)\n", "                            pass\n")]},
    {"name": "fields inserted at the front", "expect": "R2.1", "edits": [(FP, "fields.append((current_part.name, value))", "fields.insert(0, (current_part.name, value))")]},
    {"name": "files sorted by name", "expect": "R2.1", "edits": [(FP, "return self.cls(fields), self.cls(files)", "return self.cls(fields), self.cls(sorted(files, key=lambda kv: kv[0]))")]},
    {"name": "field name lower-cased", "expect": "R2.1", "edits": [(FP, "fields.append((current_part.name, value))", "fields.append((current_part.name.lower(), value))")]},
    {"name": "second chunk overwrites the first", "expect": "R2.1", "edits": [(FP, "                    _write(event.data)\n", "                    if isinstance(container, list):\n                        container[:] = [event.data]\n                    else:\n                        _write(event.data)\n")]},
    {"name": "whitespace-only chunk skipped", "expect": "R2.1", "edits": [(FP, "                    _write(event.data)\n", "                    if event.data.strip():\n                        _write(event.data)\n")]},
    {"name": "FileStorage filename and name swapped", "expect": "R2.1", "edits": [(FP, "                                        current_part.filename,\n                                        current_part.name,\n", "                                        current_part.name,\n                                        current_part.filename,\n")]},
    {"name": "part headers not handed to FileStorage", "expect": "R2.1", "edits": [(FP, "                                        headers=current_part.headers,\n", "")]},
    {"name": "only the last chunk is decoded", "expect": "R2.1", "edits": [(FP, 'value = b"".join(container).decode(', "value = container[-1].decode(")]},
    {"name": "value stripped after decoding", "expect": "R2.1", "edits": [(FP, "fields.append((current_part.name, value))", "fields.append((current_part.name, value.strip()))")]},
    {"name": "each chunk decoded on its own", "expect": "R2.1", "edits": [
        (FP, "                    _write(event.data)\n", "                    _write(event.data.decode(self.get_part_charset(current_part.headers), \"replace\") if isinstance(current_part, Field) else event.data)\n"),
        (FP, 'value = b"".join(container).decode(\n                                self.get_part_charset(current_part.headers), "replace"\n                            )', 'value = "".join(container)'),
    ]},
    {"name": "charset of an earlier field inherited", "expect": "R2.1", "edits": [
        (FP, "        fields = []\n        files = []\n", "        fields = []\n        files = []\n        field_charset = \"utf-8\"\n"),
        (FP, "                    container = []\n                    _write = container.append\n", "                    container = []\n                    _write = container.append\n                    if \"content-type\" in event.headers:\n                        field_charset = self.get_part_charset(event.headers)\n"),
        (FP, "self.get_part_charset(current_part.headers), \"replace\"\n", "field_charset, \"replace\"\n"),
    ]},
    # ---------------- R2.2
    {"name": "decoder lower-cases the part name", "expect": "R2.2", "edits": [(MP, 'name = t.cast(str, extra.get("name"))', 'name = t.cast(str, extra.get("name")).lower()')]},
    {"name": "File chosen by truthiness of filename", "expect": "R2.2", "edits": [(MP, "                if filename is not None:\n", "                if filename:\n")]},
    {"name": "header values lower-cased", "expect": "R2.2", "edits": [(MP, "headers.append((name.strip(), value.strip()))", "headers.append((name.strip(), value.strip().lower()))")]},
    {"name": "filename reduced to its last path component", "expect": "R2.2", "edits": [(MP, "                        filename=filename,\n", '                        filename=filename.rsplit("/", 1)[-1],\n')]},
    {"name": "name read from the wrong parameter", "expect": "R2.2", "edits": [(MP, 'name = t.cast(str, extra.get("name"))', 'name = t.cast(str, extra.get("filename"))')]},
    # ---------------- R2.3
    {"name": "closing delimiter lacks one dash", "expect": "R2.3", "edits": [(MP, 'return b"\\r\\n--" + self.boundary + b"--\\r\\n" + event.data', 'return b"\\r\\n--" + self.boundary + b"-\\r\\n" + event.data')]},
    {"name": "two bare LF in front of the body", "expect": "R2.3", "edits": [(MP, '                return b"\\r\\n" + event.data\n', '                return b"\\n\\n" + event.data\n')]},
    {"name": "filename written in latin-1", "expect": "R2.3", "edits": [(MP, "b'; filename=\"%s\"' % event.filename.encode()", "b'; filename=\"%s\"' % event.filename.encode(\"latin-1\", \"replace\")")]},
    {"name": "encoder strips the part name", "expect": "R2.3", "edits": [(MP, "name=\"%s\"' % event.name.encode()", "name=\"%s\"' % event.name.strip().encode()")]},
    {"name": "decoder searches for the line break instead of matching", "expect": "R2.3", "edits": [(MP, "match = LINE_BREAK_RE.match(data)", "match = LINE_BREAK_RE.search(data)")]},
    {"name": "later chunks normalise line breaks", "expect": "R2.3", "edits": [(MP, "        elif isinstance(event, Data) and self.state == State.DATA:\n            return event.data\n", '        elif isinstance(event, Data) and self.state == State.DATA:\n            return event.data.replace(b"\\r\\n", b"\\n")\n')]},
    {"name": "header line ends in LF CR", "expect": "R2.3", "edits": [(MP, '                data += b\'; filename="%s"\' % event.filename.encode()\n            data += b"\\r\\n"\n', '                data += b\'; filename="%s"\' % event.filename.encode()\n            data += b"\\n\\r"\n')]},
    {"name": "decoder eats runs of line breaks", "expect": "R2.3", "edits": [(MP, 'LINE_BREAK_RE = re.compile(LINE_BREAK, re.MULTILINE)', 'LINE_BREAK_RE = re.compile(b"(?:%s)+" % LINE_BREAK, re.MULTILINE)')]},
    {"name": "part delimiter without leading dashes", "expect": "R2.3", "edits": [(MP, 'data = b"\\r\\n--" + self.boundary + b"\\r\\n"', 'data = b"\\r\\n" + self.boundary + b"\\r\\n"')]},
    {"name": "quote missing after the name", "expect": "R2.3", "edits": [(MP, "b'Content-Disposition: form-data; name=\"%s\"' % event.name.encode()", "b'Content-Disposition: form-data; name=\"%s' % event.name.encode()")]},
    {"name": "extra headers dropped", "expect": "R2.3", "edits": [(MP, '                if name.lower() != "content-disposition":\n', '                if name.lower() == "content-disposition":\n')]},
    {"name": "a part is refused as first event", "expect": "R2.3", "edits": [(MP, "        elif isinstance(event, (Field, File)) and self.state in {\n            State.PREAMBLE,\n            State.PART,", "        elif isinstance(event, (Field, File)) and self.state in {\n            State.PART,")]},
    {"name": "in-body delimiter pattern tolerates text after the boundary", "expect": "R2.3", "edits": [(MP, r'''        self.boundary_re = re.compile(
            rb"%s--%s(--[^\S\n\r]*%s?|[^\S\n\r]*%s)"''', r'''        self.boundary_re = re.compile(
            rb"%s--%s(--[^\S\n\r]*%s?|[^\n\r]*%s)"''')]},
    {"name": "in-body delimiter pattern ignores case", "expect": "R2.3", "edits": [(MP, """            % (LINE_BREAK, re.escape(boundary), LINE_BREAK, LINE_BREAK),
            re.MULTILINE,
        )
        self._search_position = 0""", """            % (LINE_BREAK, re.escape(boundary), LINE_BREAK, LINE_BREAK),
            re.MULTILINE | re.IGNORECASE,
        )
        self._search_position = 0""")]},
    {"name": "in-body delimiter pattern with optional leading line break", "expect": "R2.3", "edits": [(MP, """        self.boundary_re = re.compile(
            rb"%s--%s(""", """        self.boundary_re = re.compile(
            rb"%s?--%s(""")]},
    {"name": "header block decoded before splitting into lines", "expect": "R2.2", "edits": [
        (MP, "        data = HEADER_CONTINUATION_RE.sub(b\" \", data)\n", "        text = HEADER_CONTINUATION_RE.sub(b\" \", data).decode()\n"),
        (MP, "        for line in data.splitlines():\n            line = line.strip()\n\n            if line != b\"\":\n                name, _, value = line.decode().partition(\":\")", "        for line in text.splitlines():\n            line = line.strip()\n\n            if line:\n                name, _, value = line.partition(\":\")"),
    ]},
    {"name": "header lines decoded as latin-1", "expect": "R2.2", "edits": [(MP, "name, _, value = line.decode().partition(\":\")", "name, _, value = line.decode(\"latin-1\").partition(\":\")")]},
    # ---------------- R2.4
    {"name": "text encoded as utf-16", "expect": "R2.4", "edits": [(TEST, "Data(data=value.encode(), more_data=False)", 'Data(data=value.encode("utf-16"), more_data=False)')]},
    {"name": "file chunks lose trailing newlines", "expect": "R2.4", "edits": [(TEST, "Data(data=chunk, more_data=True)", 'Data(data=chunk.rstrip(b"\\n"), more_data=True)')]},
    {"name": "_iter_data drops repeated keys of a MultiDict", "expect": "R2.4", "edits": [(TEST, "        yield from data.items(multi=True)\n    else:\n        for key, value in data.items():", "        yield from data.items()\n    else:\n        for key, value in data.items():")]},
    {"name": "encoded stream not rewound", "expect": "R2.4", "edits": [(TEST, "    length = stream.tell()\n    stream.seek(0)\n", "    length = stream.tell()\n")]},
    {"name": "spill to disk loses what was buffered", "expect": "R2.4", "edits": [(TEST, "                    new_stream.write(stream.getvalue())  # type: ignore\n", "")]},
    {"name": "list values sorted", "expect": "R2.4", "edits": [(TEST, "                for v in value:\n                    yield key, v\n", "                for v in sorted(value):\n                    yield key, v\n")]},
    {"name": "encode_multipart strips the body", "expect": "R2.4", "edits": [(TEST, "    return boundary, stream.read()\n", "    return boundary, stream.read().strip()\n")]},
    {"name": "filename of the upload lower-cased", "expect": "R2.4", "edits": [(TEST, "File(name=key, filename=filename, headers=headers)", "File(name=key, filename=filename.lower(), headers=headers)")]},
    {"name": "length measured after rewinding", "expect": "R2.4", "edits": [(TEST, "    length = stream.tell()\n    stream.seek(0)\n", "    stream.seek(0)\n    length = stream.tell()\n")]},
    {"name": "field name used as filename of a nameless stream", "expect": "R2.4", "edits": [(TEST, 'filename = getattr(value, "filename", getattr(value, "name", None))', 'filename = getattr(value, "filename", None) or getattr(value, "name", None)')]},
    {"name": "duplicate values of a list collapsed", "expect": "R2.4", "edits": [(TEST, "                for v in value:\n                    yield key, v\n", "                for v in dict.fromkeys(value):\n                    yield key, v\n")]},
    # ---------------- R2.5
    {"name": "ampersand declared safe", "expect": "R2.5", "edits": [(URLS, "safe=\"!$'()*,/:;?@\"", "safe=\"!$&'()*,/:;?@\"")]},
    {"name": "_urlencode drops empty values", "expect": "R2.5", "edits": [(URLS, "if x[1] is not None]", "if x[1]]")]},
    {"name": "form reader drops blank values", "expect": "R2.5", "edits": [(FP, "            keep_blank_values=True,\n", "            keep_blank_values=False,\n")]},
    {"name": "args reader drops blank values", "expect": "R2.5", "edits": [(SREQ, "                keep_blank_values=True,\n", "")]},
    {"name": "form items sorted", "expect": "R2.5", "edits": [(FP, "return stream, self.cls(items), self.cls()", "return stream, self.cls(sorted(items)), self.cls()")]},
    {"name": "iter_multi_items keeps tuples whole", "expect": "R2.5", "edits": [(STRUCT, "            if isinstance(value, (list, tuple, set)):\n                for v in value:\n                    yield key, v\n            else:\n                yield key, value\n    else:\n        yield from mapping\n", "            if isinstance(value, (list, set)):\n                for v in value:\n                    yield key, v\n            else:\n                yield key, value\n    else:\n        yield from mapping\n")]},
    {"name": "iter_multi_items loses repeated keys of a MultiDict", "expect": "R2.5", "edits": [(STRUCT, "    if isinstance(mapping, MultiDict):\n        yield from mapping.items(multi=True)\n    elif isinstance(mapping, cabc.Mapping):", "    if isinstance(mapping, MultiDict):\n        yield from mapping.items()\n    elif isinstance(mapping, cabc.Mapping):")]},
    {"name": "args reader caps the number of fields", "expect": "R2.5", "edits": [(SREQ, "                keep_blank_values=True,\n", "                keep_blank_values=True,\n                max_num_fields=100,\n")]},
    {"name": "form body read partially", "expect": "R2.5", "edits": [(FP, "            stream.read().decode(),\n", "            stream.read(65536).decode(),\n")]},
    # ---------------- R2.6
    {"name": "boundary lower-cased in the content type", "expect": "R2.6", "edits": [(TEST, "content_type = f'{mimetype}; boundary=\"{boundary}\"'", "content_type = f'{mimetype}; boundary=\"{boundary.lower()}\"'")]},
    {"name": "only the files are encoded", "expect": "R2.6", "edits": [(TEST, "                CombinedMultiDict([self.form, self.files])\n", "                self.files\n")]},
    {"name": "urlencoded body lower-cased", "expect": "R2.6", "edits": [(TEST, "input_stream = BytesIO(form_encoded)", "input_stream = BytesIO(form_encoded.lower())")]},
    {"name": "query string built from sorted args", "expect": "R2.6", "edits": [(TEST, "                return _urlencode(self._args)\n", "                return _urlencode(sorted(self._args.items()))\n")]},
    {"name": "boundary option lower-cased", "expect": "R2.6", "edits": [(FP, 'boundary = options.get("boundary", "").encode("ascii")', 'boundary = options.get("boundary", "").lower().encode("ascii")')]},
    {"name": "form and files swapped on return", "expect": "R2.6", "edits": [(FP, "        return stream, form, files\n", "        return stream, files, form\n")]},
    {"name": "multipart only when files are present", "expect": "R2.6", "edits": [(TEST, '        elif mimetype == "multipart/form-data":\n            input_stream, content_length, boundary', '        elif self._files:\n            input_stream, content_length, boundary')]},
    {"name": "content type of a file tuple dropped", "expect": "R2.6", "edits": [(TEST, "            self.files.add_file(key, *value)\n", "            self.files.add_file(key, *value[:2])\n")]},
    {"name": "form values overwrite instead of append", "expect": "R2.6", "edits": [(TEST, "                        self.form.setlistdefault(key).append(value)\n", "                        self.form[key] = value\n")]},
    {"name": "FileStorage values replace earlier uploads of the same name", "expect": "R2.6", "edits": [(TEST, "        if isinstance(value, tuple):\n            self.files.add_file(key, *value)\n        else:\n            self.files.add_file(key, value)\n", "        if isinstance(value, tuple):\n            self.files.add_file(key, *value)\n        elif hasattr(value, \"filename\") and hasattr(value, \"content_type\"):\n            self.files[key] = value\n        else:\n            self.files.add_file(key, value)\n")]},
    {"name": "guessed content type overrides an explicit one", "expect": "R2.6", "edits": [("datastructures/file_storage.py", "        if filename and content_type is None:\n", "        if filename:\n")]},
    {"name": "add_file drops the explicit filename", "expect": "R2.6", "edits": [("datastructures/file_storage.py", "        self.add(name, FileStorage(file_obj, filename, name, content_type))\n", "        self.add(name, FileStorage(file_obj, None, name, content_type))\n")]},
    # ---------------- R2.7
    {"name": "scanner does not advance past a quoted value", "expect": "R2.7", "edits": [("http.py", "                        parts.append((pk, rest[: pos + 1]))\n                        rest = rest[pos + 1 :]\n", "                        parts.append((pk, rest[: pos + 1]))\n")]},
    {"name": "reader undoes percent-escaped line breaks", "expect": "R2.7", "edits": [("http.py", """.replace('\\\\"', '"').replace("%22", '"')\n\n        match = _continuation_re.search(pk)""", """.replace('\\\\"', '"').replace("%22", '"').replace("%0D", "\\r")\n\n        match = _continuation_re.search(pk)""")]},
    {"name": "option values lower-cased", "expect": "R2.7", "edits": [("http.py", "            options[pk] = pv\n\n    return value, options\n", "            options[pk] = pv.lower()\n\n    return value, options\n")]},
    {"name": "quoted value cut at the first semicolon", "expect": "R2.7", "edits": [("http.py", "                    elif rest[pos] == '\"':\n", "                    elif rest[pos] in '\";':\n")]},
    {"name": "content length off by the boundary line", "expect": "R2.6", "edits": [(TEST, "            content_type = f'{mimetype}; boundary=\"{boundary}\"'\n", "            content_type = f'{mimetype}; boundary=\"{boundary}\"'\n            content_length = content_length - len(boundary)\n")]},
]

_PARSE_LOOP_OLD = '''            while not isinstance(event, (Epilogue, NeedData)):
                if isinstance(event, Field):
                    current_part = event
                    field_size = 0
                    container = []
                    _write = container.append
                elif isinstance(event, File):
                    current_part = event
                    field_size = None
                    container = self.start_file_streaming(event, content_length)
                    _write = container.write
                elif isinstance(event, Data):
'''

_FINISH_OLD = '''                    if not event.more_data:
                        if isinstance(current_part, Field):
                            value = b"".join(container).decode(
                                self.get_part_charset(current_part.headers), "replace"
                            )
                            fields.append((current_part.name, value))
                        else:
                            container = t.cast(t.IO[bytes], container)
                            container.seek(0)
                            files.append(
                                (
                                    current_part.name,
                                    FileStorage(
                                        container,
                                        current_part.filename,
                                        current_part.name,
                                        headers=current_part.headers,
                                    ),
                                )
                            )
'''

TWINS = [
    # ---------------- MultiPartParser.parse
    {"name": "parse: local renamed", "edits": [
        (FP, 'value = b"".join(container).decode(', 'text = b"".join(container).decode('),
        (FP, "fields.append((current_part.name, value))", "fields.append((current_part.name, text))"),
    ]},
    {"name": "parse: alias for event.data", "edits": [
        (FP, "                        field_size += len(event.data)\n", "                        field_size += len(payload)\n"),
        (FP, "                elif isinstance(event, Data):\n                    if self.max_form_memory_size", "                elif isinstance(event, Data):\n                    payload = event.data\n                    if self.max_form_memory_size"),
        (FP, "                    _write(event.data)\n", "                    _write(payload)\n"),
    ]},
    {"name": "parse: if/else flipped at the end of a part", "edits": [(FP, _FINISH_OLD, '''                    if not event.more_data:
                        if not isinstance(current_part, Field):
                            container = t.cast(t.IO[bytes], container)
                            container.seek(0)
                            files.append(
                                (
                                    current_part.name,
                                    FileStorage(
                                        container,
                                        current_part.filename,
                                        current_part.name,
                                        headers=current_part.headers,
                                    ),
                                )
                            )
                        else:
                            value = b"".join(container).decode(
                                self.get_part_charset(current_part.headers), "replace"
                            )
                            fields.append((current_part.name, value))
''')]},
    {"name": "parse: end of part extracted into a helper method", "edits": [
        (FP, _FINISH_OLD, '''                    if not event.more_data:
                        self._finish_part(current_part, container, fields, files)
'''),
        (FP, "    def parse(\n        self, stream: t.IO[bytes], boundary: bytes, content_length: int | None\n    ) -> tuple[MultiDict[str, str], MultiDict[str, FileStorage]]:\n", '''    def _finish_part(self, part, store, text_items, file_items):  # type: ignore[no-untyped-def]
        if isinstance(part, File):
            store.seek(0)
            storage = FileStorage(store, part.filename, part.name, headers=part.headers)
            file_items.append((part.name, storage))
            return
        charset = self.get_part_charset(part.headers)
        text_items.append((part.name, b"".join(store).decode(charset, "replace")))

    def parse(
        self, stream: t.IO[bytes], boundary: bytes, content_length: int | None
    ) -> tuple[MultiDict[str, str], MultiDict[str, FileStorage]]:
'''),
    ]},
    {"name": "parse: Data branch first, early continue", "edits": [(FP, _PARSE_LOOP_OLD, '''            while True:
                if isinstance(event, (Epilogue, NeedData)):
                    break
                if isinstance(event, File):
                    current_part = event
                    field_size = None
                    container = self.start_file_streaming(event, content_length)
                    _write = container.write
                    event = parser.next_event()
                    continue
                if isinstance(event, Field):
                    current_part, field_size, container = event, 0, []
                    _write = container.append
                    event = parser.next_event()
                    continue
                if isinstance(event, Data):
''')]},
    {"name": "parse: keyword arguments and a local for the pair", "edits": [
        (FP, "                            fields.append((current_part.name, value))\n", "                            pair = (current_part.name, value)\n                            fields += [pair]\n"),
        (FP, "                                    FileStorage(\n                                        container,\n                                        current_part.filename,\n                                        current_part.name,\n                                        headers=current_part.headers,\n                                    ),\n", "                                    FileStorage(\n                                        stream=container,\n                                        name=current_part.name,\n                                        filename=current_part.filename,\n                                        headers=current_part.headers,\n                                    ),\n"),
    ]},
    {"name": "parse: no _write alias, explicit append / write", "edits": [
        (FP, "                    _write(event.data)\n", "                    if isinstance(current_part, Field):\n                        container.append(event.data)\n                    else:\n                        container.write(event.data)\n"),
    ]},
    {"name": "get_part_charset: single exit", "edits": [(FP, '''        content_type = headers.get("content-type")

        if content_type:
            parameters = parse_options_header(content_type)[1]
            ct_charset = parameters.get("charset", "").lower()

            # A safe list of encodings. Modern clients should only send ASCII or UTF-8.
            # This list will not be extended further.
            if ct_charset in {"ascii", "us-ascii", "utf-8", "iso-8859-1"}:
                return ct_charset

        return "utf-8"
''', '''        charset = "utf-8"
        content_type = headers.get("content-type")

        if not content_type:
            return charset

        _, parameters = parse_options_header(content_type)
        declared = parameters.get("charset", "").lower()

        if declared in ("ascii", "us-ascii", "utf-8", "iso-8859-1"):
            charset = declared

        return charset
''')]},
    # ---------------- decoder
    {"name": "next_event: Field/File choice flipped, no cast", "edits": [(MP, '''                name = t.cast(str, extra.get("name"))
                filename = extra.get("filename")
                if filename is not None:
                    event = File(
                        filename=filename,
                        headers=headers,
                        name=name,
                    )
                else:
                    event = Field(
                        headers=headers,
                        name=name,
                    )
''', '''                part_name = extra.get("name")
                upload_name = extra.get("filename")
                if upload_name is None:
                    event = Field(name=part_name, headers=headers)
                else:
                    event = File(name=part_name, filename=upload_name, headers=headers)
''')]},
    {"name": "next_event: options indexed instead of unpacked", "edits": [(MP, '''                disposition, extra = parse_options_header(
                    headers["content-disposition"]
                )
                name = t.cast(str, extra.get("name"))
                filename = extra.get("filename")
''', '''                options = parse_options_header(headers.get("content-disposition"))[1]
                name = options["name"] if "name" in options else None
                filename = options.get("filename", None)
''')]},
    {"name": "_parse_headers: continue on empty line, renamed", "edits": [(MP, '''        for line in data.splitlines():
            line = line.strip()

            if line != b"":
                name, _, value = line.decode().partition(":")
                headers.append((name.strip(), value.strip()))
        return Headers(headers)
''', '''        for raw in data.splitlines():
            stripped = raw.strip()

            if not stripped:
                continue

            key, _sep, val = stripped.decode("utf-8").partition(":")
            headers.append((key.strip(), val.strip()))
        return Headers(headers)
''')]},
    {"name": "_parse_data: default start offset, then override", "edits": [(MP, '''        if start:
            match = LINE_BREAK_RE.match(data)
            data_start = t.cast(t.Match[bytes], match).end()
        else:
            data_start = 0
''', '''        data_start = 0
        if start:
            first = LINE_BREAK_RE.match(data)
            data_start = t.cast(t.Match[bytes], first).end()
''')]},
    # ---------------- encoder
    {"name": "send_event: concatenation instead of % formatting", "edits": [
        (MP, "            data += b'Content-Disposition: form-data; name=\"%s\"' % event.name.encode()\n", "            data += b'Content-Disposition: form-data; name=\"' + event.name.encode() + b'\"'\n"),
        (MP, "                data += b'; filename=\"%s\"' % event.filename.encode()\n", "                data += b'; filename=\"' + event.filename.encode(\"utf-8\") + b'\"'\n"),
    ]},
    {"name": "send_event: pieces joined", "edits": [(MP, '''            data = b"\\r\\n--" + self.boundary + b"\\r\\n"
            data += b'Content-Disposition: form-data; name="%s"' % event.name.encode()
            if isinstance(event, File):
                data += b'; filename="%s"' % event.filename.encode()
            data += b"\\r\\n"
            for name, value in t.cast(Field, event).headers:
                if name.lower() != "content-disposition":
                    data += f"{name}: {value}\\r\\n".encode()
            self.state = State.DATA_START
            return data
''', '''            pieces = [b"\\r\\n--", self.boundary, b"\\r\\n"]
            pieces.append(b'Content-Disposition: form-data; name="%s"' % event.name.encode())
            if isinstance(event, File):
                pieces.append(b'; filename="%s"' % event.filename.encode())
            pieces.append(b"\\r\\n")
            for key, val in event.headers:
                if key.lower() == "content-disposition":
                    continue
                pieces.append(("%s: %s\\r\\n" % (key, val)).encode())
            self.state = State.DATA_START
            return b"".join(pieces)
''')]},
    {"name": "send_event: conditional expression for the first chunk", "edits": [(MP, '''            if len(event.data) > 0:
                return b"\\r\\n" + event.data
            else:
                return event.data
''', '''            return b"\\r\\n" + event.data if event.data else event.data
''')]},
    {"name": "send_event: Epilogue tested first", "edits": [
        (MP, "        if isinstance(event, Preamble) and self.state == State.PREAMBLE:\n            self.state = State.PART\n            return event.data\n        elif isinstance(event, (Field, File))", "        if isinstance(event, Epilogue):\n            self.state = State.COMPLETE\n            return b\"\".join([b\"\\r\\n--\", self.boundary, b\"--\\r\\n\", event.data])\n        elif isinstance(event, Preamble) and self.state == State.PREAMBLE:\n            self.state = State.PART\n            return event.data\n        elif isinstance(event, (Field, File))"),
        (MP, "        elif isinstance(event, Epilogue):\n            self.state = State.COMPLETE\n            return b\"\\r\\n--\" + self.boundary + b\"--\\r\\n\" + event.data\n", ""),
    ]},
    # ---------------- test client
    {"name": "stream_encode_multipart: conditional expression for str()", "edits": [(TEST, "            if not isinstance(value, str):\n                value = str(value)\n            write_binary(encoder.send_event(Field(name=key, headers=Headers())))\n            write_binary(encoder.send_event(Data(data=value.encode(), more_data=False)))\n", "            text = value if isinstance(value, str) else str(value)\n            for ev in (Field(name=key, headers=Headers()), Data(data=text.encode(\"utf-8\"), more_data=False)):\n                write_binary(encoder.send_event(ev))\n")]},
    {"name": "stream_encode_multipart: iter() with sentinel", "edits": [(TEST, '''            while True:
                chunk = reader(16384)

                if not chunk:
                    write_binary(encoder.send_event(Data(data=chunk, more_data=False)))
                    break

                write_binary(encoder.send_event(Data(data=chunk, more_data=True)))
''', '''            for chunk in iter(lambda: reader(16384), b""):
                write_binary(encoder.send_event(Data(data=chunk, more_data=True)))

            write_binary(encoder.send_event(Data(data=b"", more_data=False)))
''')]},
    {"name": "stream_encode_multipart: part head event chosen by conditional expression", "edits": [(TEST, '''            if filename is None:
                write_binary(encoder.send_event(Field(name=key, headers=headers)))
            else:
                write_binary(
                    encoder.send_event(
                        File(name=key, filename=filename, headers=headers)
                    )
                )
''', '''            head = (
                File(name=key, filename=filename, headers=headers)
                if filename is not None
                else Field(name=key, headers=headers)
            )
            write_binary(encoder.send_event(head))
''')]},
    {"name": "write_binary: on-disk test flipped", "edits": [(TEST, '''            if on_disk:
                return stream.write(s)
            else:
                length = len(s)

                if length + total_length <= threshold:
                    stream.write(s)
                else:
                    new_stream = t.cast(t.IO[bytes], TemporaryFile("wb+"))
                    new_stream.write(stream.getvalue())  # type: ignore
                    new_stream.write(s)
                    stream = new_stream
                    on_disk = True

                total_length += length
                return length
''', '''            if not on_disk:
                size = len(s)

                if size + total_length > threshold:
                    spill = t.cast(t.IO[bytes], TemporaryFile("wb+"))
                    spill.write(stream.getvalue())  # type: ignore
                    spill.write(s)
                    stream, on_disk = spill, True
                else:
                    stream.write(s)

                total_length += size
                return size

            return stream.write(s)
''')]},
    {"name": "_iter_data: generator expression", "edits": [(TEST, "                for v in value:\n                    yield key, v\n", "                yield from ((key, v) for v in value)\n")]},
    {"name": "encode_multipart: result indexed", "edits": [(TEST, '''    stream, length, boundary = stream_encode_multipart(
        values, use_tempfile=False, boundary=boundary
    )
    return boundary, stream.read()
''', '''    encoded = stream_encode_multipart(values, boundary=boundary, use_tempfile=False)
    body = encoded[0].read()
    return encoded[2], body
''')]},
    # ---------------- urlencoded
    {"name": "_urlencode: loop with unpacking", "edits": [(URLS, "    items = [x for x in iter_multi_items(query) if x[1] is not None]\n", "    items = []\n    for key, value in iter_multi_items(query):\n        if value is None:\n            continue\n        items.append((key, value))\n")]},
    {"name": "_urlencode: safe set as a module constant", "edits": [
        (URLS, "def _urlencode(query: t.Mapping[str, str] | t.Iterable[tuple[str, str]]) -> str:\n", "_QUERY_SAFE = \"!$'()*,\" + \"/:;?@\"\n\n\ndef _urlencode(query: t.Mapping[str, str] | t.Iterable[tuple[str, str]]) -> str:\n"),
        (URLS, "    return urlencode(items, safe=\"!$'()*,/:;?@\")\n", "    return urlencode(items, safe=_QUERY_SAFE)\n"),
    ]},
    {"name": "_parse_urlencoded: no local, decoded text named", "edits": [(FP, '''        items = parse_qsl(
            stream.read().decode(),
            keep_blank_values=True,
            errors="werkzeug.url_quote",
        )
        return stream, self.cls(items), self.cls()
''', '''        text = stream.read().decode("utf-8")
        form = self.cls(parse_qsl(text, True, errors="werkzeug.url_quote"))
        return stream, form, self.cls()
''')]},
    {"name": "Request.args: locals", "edits": [(SREQ, '''        return self.parameter_storage_class(
            parse_qsl(
                self.query_string.decode(errors="replace"),
                keep_blank_values=True,
                errors="werkzeug.url_quote",
            )
        )
''', '''        query = self.query_string.decode(errors="replace")
        pairs = parse_qsl(query, keep_blank_values=True, errors="werkzeug.url_quote")
        storage = self.parameter_storage_class
        return storage(pairs)
''')]},
    {"name": "iter_multi_items: isinstance split, generator expression", "edits": [(STRUCT, '''            if isinstance(value, (list, tuple, set)):
                for v in value:
                    yield key, v
            else:
                yield key, value
    else:
        yield from mapping
''', '''            if not (isinstance(value, list) or isinstance(value, tuple) or isinstance(value, set)):
                yield key, value
                continue
            yield from ((key, v) for v in value)
    else:
        yield from mapping
''')]},
    # ---------------- wiring
    {"name": "get_environ: % formatting of the content type", "edits": [(TEST, "content_type = f'{mimetype}; boundary=\"{boundary}\"'", "content_type = '%s; boundary=\"%s\"' % (mimetype, boundary)")]},
    {"name": "get_environ: urlencoded branch first, locals renamed", "edits": [(TEST, '''        elif mimetype == "multipart/form-data":
            input_stream, content_length, boundary = stream_encode_multipart(
                CombinedMultiDict([self.form, self.files])
            )
            content_type = f'{mimetype}; boundary="{boundary}"'
        elif mimetype == "application/x-www-form-urlencoded":
            form_encoded = _urlencode(self.form).encode("ascii")
            content_length = len(form_encoded)
            input_stream = BytesIO(form_encoded)
''', '''        elif mimetype == "application/x-www-form-urlencoded":
            body = _urlencode(self.form).encode("ascii")
            input_stream, content_length = BytesIO(body), len(body)
        elif mimetype == "multipart/form-data":
            encoded = stream_encode_multipart(CombinedMultiDict([self.form, self.files]))
            input_stream, content_length = encoded[0], encoded[1]
            content_type = f'{mimetype}; boundary="{encoded[2]}"'
''')]},
    {"name": "_parse_multipart: boundary in two steps, keyword call", "edits": [(FP, '''        boundary = options.get("boundary", "").encode("ascii")

        if not boundary:
            raise ValueError("Missing boundary")

        form, files = parser.parse(stream, boundary, content_length)
        return stream, form, files
''', '''        raw_boundary = options.get("boundary", "")

        if not raw_boundary:
            raise ValueError("Missing boundary")

        result = parser.parse(stream, raw_boundary.encode("ascii"), content_length=content_length)
        return (stream, *result)
''')]},
    {"name": "FormDataParser.parse: dispatch through a dict", "edits": [(FP, '''        if mimetype == "multipart/form-data":
            parse_func = self._parse_multipart
        elif mimetype == "application/x-www-form-urlencoded":
            parse_func = self._parse_urlencoded
        else:
            return stream, self.cls(), self.cls()
''', '''        parse_func = {
            "multipart/form-data": self._parse_multipart,
            "application/x-www-form-urlencoded": self._parse_urlencoded,
        }.get(mimetype)

        if parse_func is None:
            return stream, self.cls(), self.cls()
''')]},
    # ---------------- further idioms
    {"name": "send_event: match statement", "edits": [(MP, """            self.state = State.DATA
            if len(event.data) > 0:
                return b"\\r\\n" + event.data
            else:
                return event.data
""", """            self.state = State.DATA
            match event:
                case Data(data=b""):
                    return event.data
                case Data(data=payload):
                    return b"\\r\\n" + payload
""")]},
    {"name": "send_event: str.format for extra headers", "edits": [(MP, """                    data += f"{name}: {value}\\r\\n".encode()
""", """                    data += "{}: {}\\r\\n".format(name, value).encode()
""")]},
    {"name": "next_event: KeyError decides Field vs File", "edits": [(MP, """                filename = extra.get("filename")
                if filename is not None:
                    event = File(
                        filename=filename,
                        headers=headers,
                        name=name,
                    )
                else:
                    event = Field(
                        headers=headers,
                        name=name,
                    )
""", """                try:
                    event = File(name=name, filename=extra["filename"], headers=headers)
                except KeyError:
                    event = Field(name=name, headers=headers)
""")]},
    {"name": "parse: dispatch on type(event) through a dict of bound helpers", "edits": [
        (FP, _PARSE_LOOP_OLD, """            while not isinstance(event, (Epilogue, NeedData)):
                if type(event) in (Field, File):
                    current_part = event
                    field_size, container = {Field: self._begin_field, File: self._begin_file}[type(event)](event, content_length)
                    _write = container.append if type(event) is Field else container.write
                elif isinstance(event, Data):
"""),
        (FP, "    def parse(\n        self, stream: t.IO[bytes], boundary: bytes, content_length: int | None\n    ) -> tuple[MultiDict[str, str], MultiDict[str, FileStorage]]:\n", """    def _begin_field(self, event, content_length):  # type: ignore[no-untyped-def]
        return 0, []

    def _begin_file(self, event, content_length):  # type: ignore[no-untyped-def]
        return None, self.start_file_streaming(event, content_length)

    def parse(
        self, stream: t.IO[bytes], boundary: bytes, content_length: int | None
    ) -> tuple[MultiDict[str, str], MultiDict[str, FileStorage]]:
"""),
    ]},
    {"name": "stream_encode_multipart: hasattr and fresh Headers for uploads", "edits": [(TEST, """        reader = getattr(value, "read", None)
        if reader is not None:
""", """        reader = value.read if hasattr(value, "read") else None
        if callable(reader):
""")]},
    {"name": "parse: event generator helper", "edits": [
        (FP, """        for data in _chunk_iter(stream.read, self.buffer_size):
            parser.receive_data(data)
            event = parser.next_event()
""", """        for event in self._events(parser, stream):
"""),
        (FP, "            while not isinstance(event, (Epilogue, NeedData)):\n                if isinstance(event, Field):\n", "            if True:\n                if isinstance(event, Field):\n"),
        (FP, "\n                event = parser.next_event()\n\n        return self.cls(fields), self.cls(files)\n", "\n        return self.cls(fields), self.cls(files)\n"),
        (FP, "    def parse(\n        self, stream: t.IO[bytes], boundary: bytes, content_length: int | None\n    ) -> tuple[MultiDict[str, str], MultiDict[str, FileStorage]]:\n", """    def _events(self, parser, stream):  # type: ignore[no-untyped-def]
        for data in _chunk_iter(stream.read, self.buffer_size):
            parser.receive_data(data)
            while not isinstance(event := parser.next_event(), (Epilogue, NeedData)):
                yield event

    def parse(
        self, stream: t.IO[bytes], boundary: bytes, content_length: int | None
    ) -> tuple[MultiDict[str, str], MultiDict[str, FileStorage]]:
"""),
    ]},
    {"name": "send_event: bytearray accumulator", "edits": [(MP, """            data = b"\\r\\n--" + self.boundary + b"\\r\\n"
            data += b'Content-Disposition: form-data; name="%s"' % event.name.encode()
            if isinstance(event, File):
                data += b'; filename="%s"' % event.filename.encode()
            data += b"\\r\\n"
            for name, value in t.cast(Field, event).headers:
                if name.lower() != "content-disposition":
                    data += f"{name}: {value}\\r\\n".encode()
            self.state = State.DATA_START
            return data
""", """            buf = bytearray(b"\\r\\n--")
            buf += self.boundary
            buf.extend(b"\\r\\n")
            buf += b'Content-Disposition: form-data; name="%s"' % event.name.encode()
            if isinstance(event, File):
                buf += b'; filename="%s"' % event.filename.encode()
            buf += b"\\r\\n"
            for name, value in t.cast(Field, event).headers:
                if name.lower() != "content-disposition":
                    buf += f"{name}: {value}\\r\\n".encode()
            self.state = State.DATA_START
            return bytes(buf)
""")]},
    {"name": "send_event: header line helper moved to _internal", "edits": [
        ("_internal.py", "def _plain_int(value: str) -> int:", "def _header_line(name: str, value: str) -> bytes:\n    return f\"{name}: {value}\\r\\n\".encode()\n\n\ndef _plain_int(value: str) -> int:"),
        (MP, "from ..http import parse_options_header\n", "from .._internal import _header_line\nfrom ..http import parse_options_header\n"),
        (MP, """                    data += f"{name}: {value}\\r\\n".encode()\n""", """                    data += _header_line(name, value)\n"""),
    ]},
    {"name": "parse: per-part state in a NamedTuple, suppress for content-length", "edits": [
        (FP, "class MultiPartParser:\n", "class _PartState(t.NamedTuple):\n    part: t.Any\n    size: t.Any\n    store: t.Any\n    write: t.Any\n\n\nclass MultiPartParser:\n"),
        (FP, _PARSE_LOOP_OLD, """            while not isinstance(event, (Epilogue, NeedData)):
                if isinstance(event, Field):
                    state = _PartState(event, 0, (store := []), store.append)
                    current_part, field_size, container, _write = state
                elif isinstance(event, File):
                    store = self.start_file_streaming(event, content_length)
                    state = _PartState(part=event, size=None, store=store, write=store.write)
                    current_part, field_size, container, _write = state.part, state.size, state[2], state.write
                elif isinstance(event, Data):
"""),
    ]},
    {"name": "add_file: guard clauses and keyword construction", "edits": [("datastructures/file_storage.py", """        if filename and content_type is None:
            content_type = (
                mimetypes.guess_type(filename)[0] or "application/octet-stream"
            )

        self.add(name, FileStorage(file_obj, filename, name, content_type))
""", """        if content_type is None and filename:
            guessed = mimetypes.guess_type(filename)[0]
            content_type = guessed if guessed else "application/octet-stream"

        storage = FileStorage(stream=file_obj, filename=filename, name=name, content_type=content_type)
        self.add(name, storage)
""")]},
    {"name": "parse_options_header: quoted-value scan in a helper, unquote chain split", "edits": [
        ("http.py", """                pos = 1
                length = len(rest)

                while pos < length:
                    if rest[pos : pos + 2] in {"\\\\\\\\", '\\\\"'}:
                        # Consume escaped slashes and quotes.
                        pos += 2
                    elif rest[pos] == '"':
                        # Stop at an unescaped quote.
                        parts.append((pk, rest[: pos + 1]))
                        rest = rest[pos + 1 :]
                        break
                    else:
                        # Consume any other character.
                        pos += 1
""", """                end_quote = _closing_quote(rest)

                if end_quote is not None:
                    quoted, rest = rest[: end_quote + 1], rest[end_quote + 1 :]
                    parts.append((pk, quoted))
"""),
        ("http.py", "def parse_options_header(value: str | None) -> tuple[str, dict[str, str]]:\n", """def _closing_quote(text: str) -> int | None:
    index = 1

    while index < len(text):
        pair = text[index : index + 2]

        if pair == "\\\\\\\\" or pair == '\\\\"':
            index += 2
            continue

        if text[index] == '"':
            return index

        index += 1

    return None


def parse_options_header(value: str | None) -> tuple[str, dict[str, str]]:
"""),
    ]},
]

# ---------------------------------------------------------------------------------------------------------------------
# round 3: the drain loop over iter(callable, sentinel) / tests against the NEED_DATA constant, other representations of the
# field accumulator (bytearray, BytesIO) and of the result lists

_IMPORT_NEED = "from .sansio.multipart import NeedData\n"
_IMPORT_BOTH = "from .sansio.multipart import NEED_DATA\nfrom .sansio.multipart import NeedData\n"
_DRAIN_HEAD = "            event = parser.next_event()\n            while not isinstance(event, (Epilogue, NeedData)):\n"
_DRAIN_TAIL = "\n                event = parser.next_event()\n\n        return self.cls(fields), self.cls(files)\n"
_RETURN = "        return self.cls(fields), self.cls(files)\n"
_FIELD_BEGIN = "                    container = []\n                    _write = container.append\n"
_WRITE = "                    _write(event.data)\n"
_JOIN_HEAD = '                            value = b"".join(container).decode(\n'
_CHUNK_LOOP = "    while True:\n        data = read(size)\n\n        if not data:\n            break\n\n        yield data\n\n    yield None\n"
_BYTEARRAY_WRITE = "                    if isinstance(current_part, Field):\n                        container += event.data\n                    else:\n                        container.write(event.data)\n"
_TAKEWHILE = "            for event in itertools.takewhile(\n                lambda ev: not isinstance(ev, %s), iter(parser.next_event, NEED_DATA)\n            ):\n"
_DICT_OF_LISTS = [
    (FP, "        fields = []\n        files = []\n", "        parts: dict[type, list[t.Any]] = {Field: [], File: []}\n"),
    (FP, "fields.append((current_part.name, value))", "parts[Field].append((current_part.name, value))"),
    (FP, "                            files.append(\n", "                            parts[File].append(\n"),
]

TWINS += [
    {"name": "parse: for over iter(next_event, NEED_DATA), Epilogue ends the loop in the last arm", "edits": [
        (FP, _IMPORT_NEED, _IMPORT_BOTH),
        (FP, _DRAIN_HEAD, "            for event in iter(parser.next_event, NEED_DATA):\n"),
        (FP, _DRAIN_TAIL, "                elif isinstance(event, Epilogue):\n                    break\n\n" + _RETURN),
    ]},
    {"name": "parse: drain loop compares with the NEED_DATA constant", "edits": [
        (FP, _IMPORT_NEED, _IMPORT_BOTH),
        (FP, _DRAIN_HEAD, "            event = parser.next_event()\n            while event != NEED_DATA and not isinstance(event, Epilogue):\n"),
    ]},
    {"name": "parse: terminal events by exact type in a set", "edits": [
        (FP, _DRAIN_HEAD, "            event = parser.next_event()\n            while type(event) not in {Epilogue, NeedData}:\n"),
    ]},
    {"name": "parse: identity test against NEED_DATA in a while True loop", "edits": [
        (FP, _IMPORT_NEED, _IMPORT_BOTH),
        (FP, _DRAIN_HEAD, "            while True:\n                event = parser.next_event()\n                if event is NEED_DATA or isinstance(event, Epilogue):\n                    break\n"),
        (FP, _DRAIN_TAIL, "\n" + _RETURN),
    ]},
    {"name": "parse: bytearray accumulator grown with +=", "edits": [
        (FP, _FIELD_BEGIN, "                    container = bytearray()\n"),
        (FP, _WRITE, _BYTEARRAY_WRITE),
        (FP, _JOIN_HEAD, "                            value = bytes(container).decode(\n"),
    ]},
    {"name": "parse: field pieces written to a BytesIO and read back with getvalue", "edits": [
        (FP, _FIELD_BEGIN, "                    container = BytesIO()\n                    _write = container.write\n"),
        (FP, _JOIN_HEAD, "                            value = container.getvalue().decode(\n"),
    ]},
    {"name": "parse: results kept in a dict of lists keyed by the event class", "edits": _DICT_OF_LISTS + [
        (FP, _RETURN, "        return self.cls(parts[Field]), self.cls(parts[File])\n"),
    ]},
    {"name": "parse: drained with takewhile over the sentinel iterator", "edits": [
        (FP, "import typing as t\n", "import itertools\nimport typing as t\n"),
        (FP, _IMPORT_NEED, _IMPORT_BOTH),
        (FP, _DRAIN_HEAD, _TAKEWHILE % "Epilogue"),
        (FP, _DRAIN_TAIL, "\n" + _RETURN),
    ]},
    {"name": "_chunk_iter: yield from iter(lambda, b'')", "edits": [
        (FP, _CHUNK_LOOP, "    yield from iter(lambda: read(size), b\"\")\n    yield None\n"),
    ]},
]

MUTANTS += [
    {"name": "sentinel drain gives up after a finished part", "expect": "R2.1", "edits": [
        (FP, _IMPORT_NEED, _IMPORT_BOTH),
        (FP, _DRAIN_HEAD, "            for event in iter(parser.next_event, NEED_DATA):\n"),
        (FP, _DRAIN_TAIL, "                if isinstance(event, Epilogue) or (isinstance(event, Data) and not event.more_data):\n                    break\n\n" + _RETURN),
    ]},
    {"name": "NEED_DATA comparison loop also stops at a File event", "expect": "R2.1", "edits": [
        (FP, _IMPORT_NEED, _IMPORT_BOTH),
        (FP, _DRAIN_HEAD, "            event = parser.next_event()\n            while event != NEED_DATA and not isinstance(event, (Epilogue, File)):\n"),
    ]},
    {"name": "exact-type set treats Data as terminal", "expect": "R2.1", "edits": [
        (FP, _DRAIN_HEAD, "            event = parser.next_event()\n            while type(event) not in {Epilogue, NeedData, Data}:\n"),
    ]},
    {"name": "bytearray accumulator restarted by each chunk", "expect": "R2.1", "edits": [
        (FP, _FIELD_BEGIN, "                    container = bytearray()\n"),
        (FP, _WRITE, _BYTEARRAY_WRITE.replace("container += event.data", "container = bytearray(event.data)")),
        (FP, _JOIN_HEAD, "                            value = bytes(container).decode(\n"),
    ]},
    {"name": "BytesIO field container read without rewinding", "expect": "R2.1", "edits": [
        (FP, _FIELD_BEGIN, "                    container = BytesIO()\n                    _write = container.write\n"),
        (FP, _JOIN_HEAD, "                            value = container.read().decode(\n"),
    ]},
    {"name": "dict of lists: the field list is returned twice", "expect": "R2.1", "edits": _DICT_OF_LISTS + [
        (FP, _RETURN, "        return self.cls(parts[Field]), self.cls(parts[Field])\n"),
    ]},
    {"name": "takewhile predicate also stops at a File event", "expect": "R2.1", "edits": [
        (FP, "import typing as t\n", "import itertools\nimport typing as t\n"),
        (FP, _IMPORT_NEED, _IMPORT_BOTH),
        (FP, _DRAIN_HEAD, _TAKEWHILE % "(Epilogue, File)"),
        (FP, _DRAIN_TAIL, "\n" + _RETURN),
    ]},
]

_IMPORT_T = "import typing as t\n"
_JOIN_FULL = 'value = b"".join(container).decode(\n                                self.get_part_charset(current_part.headers), "replace"\n                            )'
_DEQUE_BEGIN = "                    container = collections.deque()\n                    _write = container.%s\n"

TWINS += [
    {"name": "parse: field pieces collected in a deque", "edits": [
        (FP, _IMPORT_T, "import collections\n" + _IMPORT_T),
        (FP, _FIELD_BEGIN, _DEQUE_BEGIN % "append"),
    ]},
    {"name": "parse: field pieces folded with functools.reduce", "edits": [
        (FP, _IMPORT_T, "import functools\nimport operator\n" + _IMPORT_T),
        (FP, _JOIN_HEAD, '                            value = functools.reduce(operator.add, container, b"").decode(\n'),
    ]},
    {"name": "parse: field value decoded through codecs.decode, payload through a memoryview", "edits": [
        (FP, _IMPORT_T, "import codecs\n" + _IMPORT_T),
        (FP, _JOIN_FULL, 'value = codecs.decode(b"".join(container), self.get_part_charset(current_part.headers), "replace")'),
        (FP, _WRITE, "                    _write(bytes(memoryview(event.data)))\n"),
    ]},
]

MUTANTS += [
    {"name": "deque filled from the left", "expect": "R2.1", "edits": [
        (FP, _IMPORT_T, "import collections\n" + _IMPORT_T),
        (FP, _FIELD_BEGIN, _DEQUE_BEGIN % "appendleft"),
    ]},
    {"name": "reduce keeps only the last piece", "expect": "R2.1", "edits": [
        (FP, _IMPORT_T, "import functools\n" + _IMPORT_T),
        (FP, _JOIN_HEAD, '                            value = functools.reduce(lambda done, piece: piece, container, b"").decode(\n'),
    ]},
    {"name": "codecs.decode of the stripped value", "expect": "R2.1", "edits": [
        (FP, _IMPORT_T, "import codecs\n" + _IMPORT_T),
        (FP, _JOIN_FULL, 'value = codecs.decode(b"".join(container).strip(), self.get_part_charset(current_part.headers), "replace")'),
    ]},
]

# ---------------- round 4: header line separation (R2.2) and FileStorage.__init__ (R2.6)

FS = "datastructures/file_storage.py"
_SPLIT = '                name, _, value = line.decode().partition(":")\n                headers.append((name.strip(), value.strip()))\n'
_FS_ELSE = "        else:\n            filename = fsdecode(filename)\n\n        self.filename = filename\n"
_FS_BLOCK = (
    "        if filename is None:\n"
    '            filename = getattr(stream, "name", None)\n'
    "\n"
    "            if filename is not None:\n"
    "                filename = fsdecode(filename)\n"
    "\n"
    '            if filename and filename[0] == "<" and filename[-1] == ">":\n'
    "                filename = None\n"
    "        else:\n"
    "            filename = fsdecode(filename)\n"
    "\n"
    "        self.filename = filename\n"
)

MUTANTS += [
    {"name": "header line cut at the last colon", "expect": "R2.2", "edits": [(MP, _SPLIT, '                name, value = line.decode().rsplit(":", 1)\n                headers.append((name.strip(), value.strip()))\n')]},
    {"name": "header value is the second piece of a full split", "expect": "R2.2", "edits": [(MP, _SPLIT, '                pieces = line.decode().split(":")\n                headers.append((pieces[0].strip(), pieces[1].strip() if len(pieces) > 1 else ""))\n')]},
    {"name": "header separator located with rfind", "expect": "R2.2", "edits": [(MP, _SPLIT, '                text = line.decode()\n                cut = text.rfind(":")\n                headers.append((text[:cut].strip(), text[cut + 1 :].strip()))\n')]},
    {"name": "header lines with a second colon skipped", "expect": "R2.2", "edits": [(MP, _SPLIT, '                text = line.decode()\n                if text.count(":") != 1:\n                    continue\n                name, value = text.split(":")\n                headers.append((name.strip(), value.strip()))\n')]},
    {"name": "angle-bracket discard moved behind both branches", "expect": "R2.6", "edits": [(FS, _FS_BLOCK,
        "        if filename is None:\n"
        '            filename = getattr(stream, "name", None)\n'
        "\n"
        "        if filename is not None:\n"
        "            filename = fsdecode(filename)\n"
        "\n"
        '        if filename and filename.startswith("<") and filename.endswith(">"):\n'
        "            filename = None\n"
        "\n"
        "        self.filename = filename\n")]},
    {"name": "empty explicit filename replaced by the stream name", "expect": "R2.6", "edits": [(FS, "        if filename is None:\n            filename = getattr(stream, \"name\", None)\n", "        if not filename:\n            filename = getattr(stream, \"name\", None)\n")]},
    {"name": "explicit filename stripped", "expect": "R2.6", "edits": [(FS, _FS_ELSE, "        else:\n            filename = fsdecode(filename).strip()\n\n        self.filename = filename\n")]},
    {"name": "content type guessed from the filename overrides the part's header", "expect": "R2.6", "edits": [(FS, "        if content_type is not None:\n            headers[\"Content-Type\"] = content_type\n", "        if content_type is None and filename:\n            content_type = mimetypes.guess_type(filename)[0]\n        if content_type is not None:\n            headers[\"Content-Type\"] = content_type\n")]},
    {"name": "pseudo-name filter in a helper applied to every filename", "expect": "R2.6", "edits": [
        (FS, _FS_BLOCK,
         "        if filename is None:\n"
         '            filename = getattr(stream, "name", None)\n'
         "\n"
         "        self.filename = _usable_filename(filename)\n"),
        (FS, "class FileStorage:\n", 'def _usable_filename(value: t.Any) -> str | None:\n    if value is None:\n        return None\n    text = fsdecode(value)\n    if text[:1] == "<" and text[-1:] == ">":\n        return None\n    return text\n\n\nclass FileStorage:\n'),
    ]},
]

TWINS += [
    {"name": "header line separated with split(':', 1)", "edits": [(MP, _SPLIT, '                name, value = line.decode().split(":", 1)\n                headers.append((name.strip(), value.strip()))\n')]},
    {"name": "header separator located with index, sliced", "edits": [(MP, _SPLIT, '                text = line.decode()\n                cut = text.index(":")\n                headers.append((text[:cut].strip(), text[cut + 1 :].strip()))\n')]},
    {"name": "header line split while still bytes, pieces decoded", "edits": [(MP, _SPLIT, '                raw_name, _, raw_value = line.partition(b":")\n                headers.append((raw_name.decode().strip(), raw_value.decode().strip()))\n')]},
    {"name": "header pairs built by a comprehension over partitioned lines", "edits": [(MP, "        for line in data.splitlines():\n            line = line.strip()\n\n            if line != b\"\":\n" + _SPLIT, '        split_lines = [ln.strip().decode().partition(":") for ln in data.splitlines() if ln.strip() != b""]\n        headers.extend((nm.strip(), val.strip()) for nm, _, val in split_lines)\n')]},
    {"name": "FileStorage: explicit filename branch first", "edits": [(FS, _FS_BLOCK,
        "        if filename is not None:\n"
        "            filename = fsdecode(filename)\n"
        "        else:\n"
        '            filename = getattr(stream, "name", None)\n'
        "\n"
        "            if filename is not None:\n"
        "                filename = fsdecode(filename)\n"
        "\n"
        '            if filename and filename.startswith("<") and filename.endswith(">"):\n'
        "                filename = None\n"
        "\n"
        "        self.filename = filename\n")]},
    {"name": "FileStorage: stream name looked up by a helper, explicit filename untouched", "edits": [
        (FS, _FS_BLOCK,
         "        if filename is None:\n"
         "            filename = _name_of_stream(stream)\n"
         "        else:\n"
         "            filename = fsdecode(filename)\n"
         "\n"
         "        self.filename = filename\n"),
        (FS, "class FileStorage:\n", 'def _name_of_stream(stream: t.Any) -> str | None:\n    found = getattr(stream, "name", None)\n    if found is None:\n        return None\n    text = fsdecode(found)\n    if text and text[0] == "<" and text[-1] == ">":\n        return None\n    return text\n\n\nclass FileStorage:\n'),
    ]},
    {"name": "FileStorage: default headers by conditional expression, content type via set", "edits": [(FS, "        if headers is None:\n            headers = Headers()\n        self.headers = headers\n        if content_type is not None:\n            headers[\"Content-Type\"] = content_type\n", "        self.headers = headers = Headers() if headers is None else headers\n        if content_type is not None:\n            headers.set(\"Content-Type\", content_type)\n")]},
]

# ---- stress round (fresh ordinary-style refactorings that tripped a rule, own variants, and mutants in those shapes)
TWINS += [
    {'name': 'stress-a10-add-file-storage-built-by-private-staticmethod', 'edits': [('datastructures/file_storage.py', '        if isinstance(file, FileStorage):\n            self.add(name, file)\n            return\n\n        if isinstance(file, (str, os.PathLike)):\n            if filename is None:\n                filename = os.fspath(file)\n\n            file_obj: t.IO[bytes] = open(file, "rb")\n        else:\n            file_obj = file  # type: ignore[assignment]\n\n        if filename and content_type is None:\n            content_type = (\n                mimetypes.guess_type(filename)[0] or "application/octet-stream"\n            )\n\n        self.add(name, FileStorage(file_obj, filename, name, content_type))\n', '        if not isinstance(file, FileStorage):\n            file = self._make_storage(name, file, filename, content_type)\n\n        self.add(name, file)\n\n    @staticmethod\n    def _make_storage(\n        name: str,\n        file: str | os.PathLike[str] | t.IO[bytes],\n        filename: str | None,\n        content_type: str | None,\n    ) -> FileStorage:\n        """Wrap a file name or file-like object in a :class:`FileStorage`,\n        opening the file and guessing the content type if needed.\n        """\n        stream: t.IO[bytes]\n\n        if isinstance(file, str) or isinstance(file, os.PathLike):\n            filename = os.fspath(file) if filename is None else filename\n            stream = open(file, "rb")\n        else:\n            stream = file\n\n        if filename and content_type is None:\n            guessed_type = mimetypes.guess_type(filename)[0]\n            content_type = guessed_type or "application/octet-stream"\n\n        return FileStorage(stream, filename, name, content_type)\n')]},
    {'name': 'stress-b08-headers-filled-in-place-split-with-length-guard', 'edits': [('sansio/multipart.py', '        headers: list[tuple[str, str]] = []\n        # Merge the continued headers into one line\n        data = HEADER_CONTINUATION_RE.sub(b" ", data)\n        # Now there is one header per line\n        for line in data.splitlines():\n            line = line.strip()\n\n            if line != b"":\n                name, _, value = line.decode().partition(":")\n                headers.append((name.strip(), value.strip()))\n        return Headers(headers)\n', '        headers = Headers()\n        # Merge the continued headers into one line, so that there is\n        # one header per line\n        unfolded = HEADER_CONTINUATION_RE.sub(b" ", data)\n\n        for raw_line in unfolded.splitlines():\n            line = raw_line.strip().decode()\n\n            if not line:\n                continue\n\n            # A line without a colon is a header name with an empty value\n            fields = line.split(":", 1)\n            name = fields[0]\n            value = fields[1] if len(fields) == 2 else ""\n            headers.add(name.strip(), value.strip())\n\n        return headers\n')]},
    {'name': 'stress-own-add-file-storage-built-by-private-method', 'edits': [('datastructures/file_storage.py', '        if isinstance(file, (str, os.PathLike)):\n            if filename is None:\n                filename = os.fspath(file)\n\n            file_obj: t.IO[bytes] = open(file, "rb")\n        else:\n            file_obj = file  # type: ignore[assignment]\n\n        if filename and content_type is None:\n            content_type = (\n                mimetypes.guess_type(filename)[0] or "application/octet-stream"\n            )\n\n        self.add(name, FileStorage(file_obj, filename, name, content_type))\n', '        self.add(name, self._storage_for(name, file, filename, content_type))\n\n    def _storage_for(\n        self,\n        field: str,\n        source: t.Any,\n        filename: str | None,\n        content_type: str | None,\n    ) -> FileStorage:\n        opened: t.IO[bytes]\n\n        if isinstance(source, (str, os.PathLike)):\n            opened = open(source, "rb")\n\n            if filename is None:\n                filename = os.fspath(source)\n        else:\n            opened = source\n\n        if content_type is None and filename:\n            content_type = self._guess_type(filename)\n\n        return FileStorage(\n            stream=opened, filename=filename, name=field, content_type=content_type\n        )\n\n    @staticmethod\n    def _guess_type(filename: str) -> str:\n        return mimetypes.guess_type(filename)[0] or "application/octet-stream"\n')]},
    {'name': 'stress-own-headers-extended-line-by-line', 'edits': [('sansio/multipart.py', '        headers: list[tuple[str, str]] = []\n        # Merge the continued headers into one line\n        data = HEADER_CONTINUATION_RE.sub(b" ", data)\n        # Now there is one header per line\n        for line in data.splitlines():\n            line = line.strip()\n\n            if line != b"":\n                name, _, value = line.decode().partition(":")\n                headers.append((name.strip(), value.strip()))\n        return Headers(headers)\n', '        result = Headers()\n        # Merge the continued headers into one line\n        data = HEADER_CONTINUATION_RE.sub(b" ", data)\n        # Now there is one header per line\n        for line in data.splitlines():\n            text = line.strip().decode()\n\n            if text == "":\n                continue\n\n            colon = text.find(":")\n\n            if colon < 0:\n                pair = (text.strip(), "")\n            else:\n                pair = (text[:colon].strip(), text[colon + 1 :].strip())\n\n            result.extend([pair])\n        return result\n')]},
]
MUTANTS += [
    {'name': 'stress-private-staticmethod-swaps-filename-and-name', 'expect': 'R2.6', 'edits': [('datastructures/file_storage.py', '        if isinstance(file, FileStorage):\n            self.add(name, file)\n            return\n\n        if isinstance(file, (str, os.PathLike)):\n            if filename is None:\n                filename = os.fspath(file)\n\n            file_obj: t.IO[bytes] = open(file, "rb")\n        else:\n            file_obj = file  # type: ignore[assignment]\n\n        if filename and content_type is None:\n            content_type = (\n                mimetypes.guess_type(filename)[0] or "application/octet-stream"\n            )\n\n        self.add(name, FileStorage(file_obj, filename, name, content_type))\n', '        if not isinstance(file, FileStorage):\n            file = self._make_storage(name, file, filename, content_type)\n\n        self.add(name, file)\n\n    @staticmethod\n    def _make_storage(\n        name: str,\n        file: str | os.PathLike[str] | t.IO[bytes],\n        filename: str | None,\n        content_type: str | None,\n    ) -> FileStorage:\n        """Wrap a file name or file-like object in a :class:`FileStorage`,\n        opening the file and guessing the content type if needed.\n        """\n        stream: t.IO[bytes]\n\n        if isinstance(file, str) or isinstance(file, os.PathLike):\n            filename = os.fspath(file) if filename is None else filename\n            stream = open(file, "rb")\n        else:\n            stream = file\n\n        if filename and content_type is None:\n            guessed_type = mimetypes.guess_type(filename)[0]\n            content_type = guessed_type or "application/octet-stream"\n\n        return FileStorage(stream, name, filename, content_type)\n')]},
    {'name': 'stress-private-staticmethod-guess-overrides-explicit-type', 'expect': 'R2.6', 'edits': [('datastructures/file_storage.py', '        if isinstance(file, FileStorage):\n            self.add(name, file)\n            return\n\n        if isinstance(file, (str, os.PathLike)):\n            if filename is None:\n                filename = os.fspath(file)\n\n            file_obj: t.IO[bytes] = open(file, "rb")\n        else:\n            file_obj = file  # type: ignore[assignment]\n\n        if filename and content_type is None:\n            content_type = (\n                mimetypes.guess_type(filename)[0] or "application/octet-stream"\n            )\n\n        self.add(name, FileStorage(file_obj, filename, name, content_type))\n', '        if not isinstance(file, FileStorage):\n            file = self._make_storage(name, file, filename, content_type)\n\n        self.add(name, file)\n\n    @staticmethod\n    def _make_storage(\n        name: str,\n        file: str | os.PathLike[str] | t.IO[bytes],\n        filename: str | None,\n        content_type: str | None,\n    ) -> FileStorage:\n        """Wrap a file name or file-like object in a :class:`FileStorage`,\n        opening the file and guessing the content type if needed.\n        """\n        stream: t.IO[bytes]\n\n        if isinstance(file, str) or isinstance(file, os.PathLike):\n            filename = os.fspath(file) if filename is None else filename\n            stream = open(file, "rb")\n        else:\n            stream = file\n\n        if filename:\n            guessed_type = mimetypes.guess_type(filename)[0]\n            content_type = guessed_type or "application/octet-stream"\n\n        return FileStorage(stream, filename, name, content_type)\n')]},
    {'name': 'stress-private-method-drops-explicit-filename', 'expect': 'R2.6', 'edits': [('datastructures/file_storage.py', '        if isinstance(file, (str, os.PathLike)):\n            if filename is None:\n                filename = os.fspath(file)\n\n            file_obj: t.IO[bytes] = open(file, "rb")\n        else:\n            file_obj = file  # type: ignore[assignment]\n\n        if filename and content_type is None:\n            content_type = (\n                mimetypes.guess_type(filename)[0] or "application/octet-stream"\n            )\n\n        self.add(name, FileStorage(file_obj, filename, name, content_type))\n', '        self.add(name, self._storage_for(name, file, filename, content_type))\n\n    def _storage_for(\n        self,\n        field: str,\n        source: t.Any,\n        filename: str | None,\n        content_type: str | None,\n    ) -> FileStorage:\n        opened: t.IO[bytes]\n\n        if isinstance(source, (str, os.PathLike)):\n            opened = open(source, "rb")\n\n            if filename is None:\n                filename = os.fspath(source)\n        else:\n            opened = source\n\n        if content_type is None and filename:\n            content_type = self._guess_type(filename)\n\n        return FileStorage(\n            stream=opened, filename=None, name=field, content_type=content_type\n        )\n\n    @staticmethod\n    def _guess_type(filename: str) -> str:\n        return mimetypes.guess_type(filename)[0] or "application/octet-stream"\n')]},
    {'name': 'stress-in-place-headers-lower-case-the-value', 'expect': 'R2.2', 'edits': [('sansio/multipart.py', '        headers: list[tuple[str, str]] = []\n        # Merge the continued headers into one line\n        data = HEADER_CONTINUATION_RE.sub(b" ", data)\n        # Now there is one header per line\n        for line in data.splitlines():\n            line = line.strip()\n\n            if line != b"":\n                name, _, value = line.decode().partition(":")\n                headers.append((name.strip(), value.strip()))\n        return Headers(headers)\n', '        headers = Headers()\n        # Merge the continued headers into one line, so that there is\n        # one header per line\n        unfolded = HEADER_CONTINUATION_RE.sub(b" ", data)\n\n        for raw_line in unfolded.splitlines():\n            line = raw_line.strip().decode()\n\n            if not line:\n                continue\n\n            # A line without a colon is a header name with an empty value\n            fields = line.split(":", 1)\n            name = fields[0]\n            value = fields[1] if len(fields) == 2 else ""\n            headers.add(name.strip(), value.strip().lower())\n\n        return headers\n')]},
    {'name': 'stress-length-guarded-split-at-the-last-colon', 'expect': 'R2.2', 'edits': [('sansio/multipart.py', '        headers: list[tuple[str, str]] = []\n        # Merge the continued headers into one line\n        data = HEADER_CONTINUATION_RE.sub(b" ", data)\n        # Now there is one header per line\n        for line in data.splitlines():\n            line = line.strip()\n\n            if line != b"":\n                name, _, value = line.decode().partition(":")\n                headers.append((name.strip(), value.strip()))\n        return Headers(headers)\n', '        headers = Headers()\n        # Merge the continued headers into one line, so that there is\n        # one header per line\n        unfolded = HEADER_CONTINUATION_RE.sub(b" ", data)\n\n        for raw_line in unfolded.splitlines():\n            line = raw_line.strip().decode()\n\n            if not line:\n                continue\n\n            # A line without a colon is a header name with an empty value\n            fields = line.rsplit(":", 1)\n            name = fields[0]\n            value = fields[1] if len(fields) == 2 else ""\n            headers.add(name.strip(), value.strip())\n\n        return headers\n')]},
    {'name': 'stress-extended-headers-cut-at-the-last-colon', 'expect': 'R2.2', 'edits': [('sansio/multipart.py', '        headers: list[tuple[str, str]] = []\n        # Merge the continued headers into one line\n        data = HEADER_CONTINUATION_RE.sub(b" ", data)\n        # Now there is one header per line\n        for line in data.splitlines():\n            line = line.strip()\n\n            if line != b"":\n                name, _, value = line.decode().partition(":")\n                headers.append((name.strip(), value.strip()))\n        return Headers(headers)\n', '        result = Headers()\n        # Merge the continued headers into one line\n        data = HEADER_CONTINUATION_RE.sub(b" ", data)\n        # Now there is one header per line\n        for line in data.splitlines():\n            text = line.strip().decode()\n\n            if text == "":\n                continue\n\n            colon = text.rfind(":")\n\n            if colon < 0:\n                pair = (text.strip(), "")\n            else:\n                pair = (text[:colon].strip(), text[colon + 1 :].strip())\n\n            result.extend([pair])\n        return result\n')]},
    {'name': 'stress-extended-headers-value-title-cased', 'expect': 'R2.2', 'edits': [('sansio/multipart.py', '        headers: list[tuple[str, str]] = []\n        # Merge the continued headers into one line\n        data = HEADER_CONTINUATION_RE.sub(b" ", data)\n        # Now there is one header per line\n        for line in data.splitlines():\n            line = line.strip()\n\n            if line != b"":\n                name, _, value = line.decode().partition(":")\n                headers.append((name.strip(), value.strip()))\n        return Headers(headers)\n', '        result = Headers()\n        # Merge the continued headers into one line\n        data = HEADER_CONTINUATION_RE.sub(b" ", data)\n        # Now there is one header per line\n        for line in data.splitlines():\n            text = line.strip().decode()\n\n            if text == "":\n                continue\n\n            colon = text.find(":")\n\n            if colon < 0:\n                pair = (text.strip(), "")\n            else:\n                pair = (text[:colon].strip(), text[colon + 1 :].strip().title())\n\n            result.extend([pair])\n        return result\n')]},
]
