"""self-validation battery for C09."""
W = "wsgi.py"
U = "sansio/utils.py"
I = "_internal.py"
MUTANTS = [
    {"name": "read-size-unbounded", "expect": "R9.2", "edits": [(W, "data = self._stream.read(min(size, remaining))", "data = self._stream.read(size)")]},
    {"name": "readinto-without-size-test", "expect": "R9.2", "edits": [(W, "            if size <= remaining:\n", "            if size:\n")]},
    {"name": "temp-buffer-size-of-caller", "expect": "R9.2", "edits": [(W, "temp_b = bytearray(remaining)", "temp_b = bytearray(size)")]},
    {"name": "pos-advances-by-request", "expect": "R9.3", "edits": [(W, "        self._pos += out_size\n        return out_size", "        self._pos += size\n        return out_size")]},
    {"name": "returns-requested-size", "expect": "R9.3", "edits": [(W, "        self._pos += out_size\n        return out_size", "        self._pos += out_size\n        return size")]},
    {"name": "slice-store-not-exact", "expect": "R9.4", "edits": [(W, "b[:out_size] = temp_b[:out_size]", "b[:out_size] = temp_b")]},
    {"name": "oserror-not-caught", "expect": "R9.5", "edits": [(W, "            try:\n                data = self._stream.read(min(size, remaining))\n            except (OSError, ValueError) as e:\n                self.on_disconnect(error=e)\n                return 0\n", "            data = self._stream.read(min(size, remaining))\n")]},
    {"name": "empty-read-silent", "expect": "R9.5", "edits": [(W, "        if not out_size:\n            # Read zero bytes from the stream.\n            self.on_disconnect()\n            return 0\n", "")]},
    {"name": "disconnect-ignores-error-when-max", "expect": "R9.5", "edits": [(W, "        if not self._limit_is_max or error is not None:\n            raise ClientDisconnected()", "        if not self._limit_is_max:\n            raise ClientDisconnected()")]},
    {"name": "raw-stream-when-no-length", "expect": "R9.6", "edits": [(W, "        return io.BytesIO() if safe_fallback else stream", "        return stream")]},
    {"name": "declared-length-test-moved-below-terminated", "expect": "R9.6", "edits": [(W, "    if content_length is not None and max_content_length is not None:\n        if content_length > max_content_length:\n            raise RequestEntityTooLarge()\n\n", ""), (W, "    # No limit given, return an empty stream unless the user explicitly", "    if content_length is not None and max_content_length is not None:\n        if content_length > max_content_length:\n            raise RequestEntityTooLarge()\n\n    # No limit given, return an empty stream unless the user explicitly")]},
    {"name": "max-flag-on-content-length-stream", "expect": "R9.6", "edits": [(W, "    return t.cast(t.IO[bytes], LimitedStream(stream, content_length))", "    return t.cast(t.IO[bytes], LimitedStream(stream, content_length, is_max=True))")]},
    {"name": "plain-int-unicode-digits", "expect": "R9.6", "edits": [(I, '_plain_int_re = re.compile(r"-?\\d+", re.ASCII)', '_plain_int_re = re.compile(r"-?\\d+")')]},
    {"name": "readall-stops-on-short-read", "expect": "R9.7", "edits": [(W, "            if not data:\n                break\n\n            out.extend(data)", "            out.extend(data)\n\n            if len(data) < 1024 * 64:\n                break")]},
    {"name": "readline-overridden", "expect": "R9.1", "edits": [(W, "    def tell(self) -> int:", "    def readline(self, size: int | None = -1) -> bytes:  # type: ignore[override]\n        return self._stream.readline(size)  # type: ignore[arg-type]\n\n    def tell(self) -> int:")]},
]
TWINS = [
    {"name": "min-args-swapped", "edits": [(W, "data = self._stream.read(min(size, remaining))", "data = self._stream.read(min(remaining, size))")]},
    {"name": "handler-wider", "edits": [(W, "            try:\n                data = self._stream.read(min(size, remaining))\n            except (OSError, ValueError) as e:", "            try:\n                data = self._stream.read(min(size, remaining))\n            except (OSError, ValueError, EOFError) as e:")]},
    {"name": "get-input-stream-else-style", "edits": [(W, "    if content_length is None:\n        return io.BytesIO() if safe_fallback else stream\n", "    if content_length is None:\n        if safe_fallback:\n            return io.BytesIO()\n        return stream\n")]},
]
