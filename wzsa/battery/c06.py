"""self-validation battery for C06."""
H = "http.py"
R = "datastructures/range.py"
MUTANTS = [
    {"name": "colon-in-token-chars", "expect": "R6.1", "edits": [(H, '''"!#$%&'*+-.0123456789ABCDEFGHIJKLMNOPQRSTUVWXYZ^_`abcdefghijklmnopqrstuvwxyz|~"''', '''"!#$%&'*+-.:0123456789ABCDEFGHIJKLMNOPQRSTUVWXYZ^_`abcdefghijklmnopqrstuvwxyz|~"''')]},
    {"name": "token-value-class-loses-bang", "expect": "R6.1", "edits": [(H, r'''_parameter_token_value_re = re.compile(r"[\w!#$%&'*+\-.^`|~]+", flags=re.ASCII)''', r'''_parameter_token_value_re = re.compile(r"[\w#$%&'*+\-.^`|~]+", flags=re.ASCII)''')]},
    {"name": "quote-order-swapped", "expect": "R6.2", "edits": [(H, '''value_str = value_str.replace("\\\\", "\\\\\\\\").replace('"', '\\\\"')''', '''value_str = value_str.replace('"', '\\\\"').replace("\\\\", "\\\\\\\\")''')]},
    {"name": "unquote-drops-backslash-pair", "expect": "R6.2", "edits": [(H, '''        return value.replace("\\\\\\\\", "\\\\").replace('\\\\"', '"')''', '''        return value.replace('\\\\"', '"')''')]},
    {"name": "empty-value-bare", "expect": "R6.3", "edits": [(H, "    if not value_str:\n        return '\"\"'\n", "")]},
    {"name": "range-end-inclusive", "expect": "R6.4", "edits": [(R, 'ranges.append(f"{begin}-{end - 1}")', 'ranges.append(f"{begin}-{end}")')]},
    {"name": "content-range-parse-no-plus-one", "expect": "R6.4", "edits": [(H, "        stop = _plain_int(stop_str) + 1", "        stop = _plain_int(stop_str)")]},
    {"name": "csp-comma-join", "expect": "R6.5", "edits": [(H, 'return "; ".join(f"{key} {value}" for key, value in header.items())', 'return ", ".join(f"{key} {value}" for key, value in header.items())')]},
    {"name": "etag-weak-lowercase-written", "expect": "R6.5", "edits": [("datastructures/etag.py", """[f'W/"{x}"' for x in self._weak]""", """[f'w/"{x}"' for x in self._weak]""")]},
    {"name": "etag-regex-no-lazy", "expect": "R6.5", "edits": [(H, '''_etag_re = re.compile(r'([Ww]/)?(?:"(.*?)"|(.*?))(?:\\s*,\\s*|$)')''', '''_etag_re = re.compile(r'([Ww]/)?(?:"(.*)"|(.*?))(?:\\s*,\\s*|$)')''')]},
    {"name": "dump-header-unquoted-value", "expect": "R6.5", "edits": [(H, '                items.append(f"{key}={quote_header_value(value)}")', '                items.append(f"{key}={value}")')]},
    {"name": "cache-control-dumps-options", "expect": "R6.6", "edits": [("datastructures/cache_control.py", "return http.dump_header(self)", "return http.dump_options_header(None, self)")]},
]
TWINS = [
    {"name": "token-chars-narrower", "edits": [(H, '''"!#$%&'*+-.0123456789ABCDEFGHIJKLMNOPQRSTUVWXYZ^_`abcdefghijklmnopqrstuvwxyz|~"''', '''"!#$%&'+-.0123456789ABCDEFGHIJKLMNOPQRSTUVWXYZ^_`abcdefghijklmnopqrstuvwxyz|~"''')]},
    {"name": "rename-token-chars", "edits": [(H, "_token_chars = frozenset(", "_tchars = frozenset("), (H, "        token_chars = _token_chars\n", "        token_chars = _tchars\n")]},
]
