"""self-validation battery for C06.

MUTANTS break one obligation each (and still compile); TWINS are behaviour-preserving respellings that must stay silent.
The second half of both lists are *shape pairs*: a neutral respelling (helper extracted, test flipped, value through a
local, loop vs comprehension, partition vs split, ...) and the same respelling with the property broken inside it.
"""
H = "http.py"
R = "datastructures/range.py"
A = "datastructures/auth.py"
E = "datastructures/etag.py"
S = "datastructures/structures.py"

TOKEN_CHARS = '''"!#$%&'*+-.0123456789ABCDEFGHIJKLMNOPQRSTUVWXYZ^_`abcdefghijklmnopqrstuvwxyz|~"'''

# ---- anchors (exact text of the current tree) ---------------------------------------------------------------
Q_TAIL = '''    if allow_token:
        token_chars = _token_chars

        if token_chars.issuperset(value_str):
            return value_str

    value_str = value_str.replace("\\\\", "\\\\\\\\").replace('"', '\\\\"')
    return f'"{value_str}"'
'''
UNQ_BODY = '''    if len(value) >= 2 and value[0] == value[-1] == '"':
        value = value[1:-1]
        return value.replace("\\\\\\\\", "\\\\").replace('\\\\"', '"')

    return value
'''
LIST_BODY = '''    result = []

    for item in _parse_list_header(value):
        if len(item) >= 2 and item[0] == item[-1] == '"':
            item = item[1:-1]

        result.append(item)

    return result
'''
DICT_PART = '''        key, has_value, value = item.partition("=")
        key = key.strip()
'''
OPT_LOOP = '''    for key, value in options.items():
        if value is None:
            continue

        if key[-1] == "*":
            segments.append(f"{key}={value}")
        else:
            segments.append(f"{key}={quote_header_value(value)}")

    return "; ".join(segments)
'''
DUMP_BODY = '''    if isinstance(iterable, dict):
        items = []

        for key, value in iterable.items():
            if value is None:
                items.append(key)
            elif key[-1] == "*":
                items.append(f"{key}={value}")
            else:
                items.append(f"{key}={quote_header_value(value)}")
    else:
        items = [quote_header_value(x) for x in iterable]

    return ", ".join(items)
'''
CSP_DUMP = 'return "; ".join(f"{key} {value}" for key, value in header.items())'
CSP_PARSE = '''            directive, value = policy.strip().split(" ", 1)
            items.append((directive.strip(), value.strip()))
'''
OPT_TOKEN = '''            if (m := _parameter_token_value_re.match(rest)) is not None:
                parts.append((pk, m.group()))

            # Value may be a quoted string, find the closing quote.
            elif rest[:1] == '"':
'''
OPT_UNQ = '''            pv = pv[1:-1].replace("\\\\\\\\", "\\\\").replace('\\\\"', '"').replace("%22", '"')
'''
RANGE_TO = '''        ranges = []
        for begin, end in self.ranges:
            if end is None:
                ranges.append(f"{begin}-" if begin >= 0 else str(begin))
            else:
                ranges.append(f"{begin}-{end - 1}")
        return f"{self.units}={','.join(ranges)}"
'''
CR_TO = '''        return f"{self._units} {self._start}-{self._stop - 1}/{length}"  # type: ignore[operator]
'''
CR_PARSE = '''        stop = _plain_int(stop_str) + 1
'''
RANGE_END = '''                try:
                    end = _plain_int(end_str) + 1
                except ValueError:
                    return None
'''
ETAGS_TO = '''        return ", ".join(
            [f'"{x}"' for x in self._strong] + [f'W/"{x}"' for x in self._weak]
        )
'''
ETAG_LOOP = '''        is_weak, quoted, raw = match.groups()
        if raw == "*":
            return ds.ETags(star_tag=True)
        elif quoted:
            raw = quoted
        if is_weak:
            weak.append(raw)
        else:
            strong.append(raw)
'''
QETAG = '''    etag = f'"{etag}"'
    if weak:
        etag = f"W/{etag}"
    return etag
'''
UNQETAG = '''    weak = False
    if etag.startswith(("W/", "w/")):
        weak = True
        etag = etag[2:]
    if etag[:1] == etag[-1:] == '"':
        etag = etag[1:-1]
    return etag, weak
'''
AUTH_FROM = '''        scheme, _, rest = value.partition(" ")
        scheme = scheme.lower()
        rest = rest.strip()

        if scheme == "basic":
'''
AUTH_TO = '''        if self.type == "basic":
            value = base64.b64encode(
                f"{self.username}:{self.password}".encode()
            ).decode("ascii")
            return f"Basic {value}"

        if self.token is not None:
            return f"{self.type.title()} {self.token}"

        return f"{self.type.title()} {dump_header(self.parameters)}"
'''
HS_TO = 'return ", ".join(map(http.quote_header_value, self._headers))'


def _q_flipped(test: str) -> str:
    return f'''    if {test}:
        escaped = value_str.replace("\\\\", "\\\\\\\\")
        escaped = escaped.replace('"', '\\\\"')
        return '"' + escaped + '"'

    return value_str
'''


def _q_helper(order_ok: bool) -> str:
    a, b = '''escaped = value_str.replace("\\\\", "\\\\\\\\")''', '''escaped = escaped.replace('"', '\\\\"')'''
    if not order_ok:
        a, b = '''escaped = value_str.replace('"', '\\\\"')''', '''escaped = escaped.replace("\\\\", "\\\\\\\\")'''
    return f'''    if allow_token and _is_token(value_str):
        return value_str

    {a}
    {b}
    return "".join(['"', escaped, '"'])


def _is_token(text: str) -> bool:
    return all(ch in _token_chars for ch in text)
'''


def _unq(strip: str, chain: str) -> str:
    return f'''    if len(value) < 2 or not (value.startswith('"') and value.endswith('"')):
        return value

    inner = {strip}
    return inner{chain}
'''


def _dump_helper(flip_ok: bool, opt_quote: bool = True) -> list:
    quoted = 'f"{key}={quote_header_value(value)}"'
    raw = 'f"{key}={value}"'
    a, b = (quoted, raw) if flip_ok else (raw, quoted)
    helper = f'''

def _dump_pair(key: str, value: t.Any) -> str:
    if "*" != key[-1]:
        return {a}

    return {b}
'''
    return [
        (H, DUMP_BODY, '''    if not isinstance(iterable, dict):
        return ", ".join(quote_header_value(x) for x in iterable)

    return ", ".join(key if value is None else _dump_pair(key, value) for key, value in iterable.items())
''' + helper),
        (H, OPT_LOOP, '''    segments.extend(_dump_pair(key, value) for key, value in options.items() if value is not None)
    return "; ".join(segments)
'''),
    ]


def _etag_loop(g2: int, g3: int, star: str) -> str:
    return f'''        is_weak = match.group(1)
        quoted = match.group({g2})
        raw = match.group({g3})
        if {star} == "*":
            return ds.ETags(star_tag=True)
        (weak if is_weak else strong).append(quoted if quoted else raw)
'''


def _auth_helper(lower: bool) -> list:
    return [
        (A, AUTH_FROM, '''        scheme, rest = _scheme_and_rest(value)

        if scheme == "basic":
'''),
        (A, "class Authorization:\n", f'''def _scheme_and_rest(value: str) -> tuple[str, str]:
    parts = value.split(" ", 1)
    return parts[0]{".lower()" if lower else ""}, (parts[1].strip() if len(parts) > 1 else "")


class Authorization:
'''),
    ]


def _auth_to(sep: str) -> str:
    return f'''        kind = self.type.title()

        if self.type != "basic":
            return kind + " " + (dump_header(self.parameters) if self.token is None else self.token)

        raw = (str(self.username) + "{sep}" + str(self.password)).encode()
        return "Basic " + base64.b64encode(raw).decode("ascii")
'''


MUTANTS = [
    {"name": "colon-in-token-chars", "expect": "R6.1", "edits": [(H, TOKEN_CHARS, TOKEN_CHARS.replace("-.", "-.:"))]},
    {"name": "token-value-class-loses-bang", "expect": "R6.1", "edits": [(H, r'''_parameter_token_value_re = re.compile(r"[\w!#$%&'*+\-.^`|~]+", flags=re.ASCII)''', r'''_parameter_token_value_re = re.compile(r"[\w#$%&'*+\-.^`|~]+", flags=re.ASCII)''')]},
    {"name": "quote-order-swapped", "expect": "R6.2", "edits": [(H, '''value_str = value_str.replace("\\\\", "\\\\\\\\").replace('"', '\\\\"')''', '''value_str = value_str.replace('"', '\\\\"').replace("\\\\", "\\\\\\\\")''')]},
    {"name": "unquote-drops-backslash-pair", "expect": "R6.2", "edits": [(H, '''        return value.replace("\\\\\\\\", "\\\\").replace('\\\\"', '"')''', '''        return value.replace('\\\\"', '"')''')]},
    {"name": "empty-value-bare", "expect": "R6.3", "edits": [(H, "    if not value_str:\n        return '\"\"'\n", "")]},
    {"name": "range-end-inclusive", "expect": "R6.4", "edits": [(R, 'ranges.append(f"{begin}-{end - 1}")', 'ranges.append(f"{begin}-{end}")')]},
    {"name": "content-range-parse-no-plus-one", "expect": "R6.4", "edits": [(H, "        stop = _plain_int(stop_str) + 1", "        stop = _plain_int(stop_str)")]},
    {"name": "csp-comma-join", "expect": "R6.5", "edits": [(H, CSP_DUMP, CSP_DUMP.replace('"; "', '", "'))]},
    # (writing the weak prefix in lower case is NOT a defect: _etag_re and unquote_etag read [Ww]/ - dropped)
    {"name": "etag-weak-prefix-without-slash", "expect": "R6.5", "edits": [(E, """[f'W/"{x}"' for x in self._weak]""", """[f'W"{x}"' for x in self._weak]""")]},
    {"name": "etag-regex-no-lazy", "expect": "R6.5", "edits": [(H, '''_etag_re = re.compile(r'([Ww]/)?(?:"(.*?)"|(.*?))(?:\\s*,\\s*|$)')''', '''_etag_re = re.compile(r'([Ww]/)?(?:"(.*)"|(.*?))(?:\\s*,\\s*|$)')''')]},
    {"name": "dump-header-unquoted-value", "expect": "R6.5", "edits": [(H, '                items.append(f"{key}={quote_header_value(value)}")', '                items.append(f"{key}={value}")')]},
    {"name": "cache-control-dumps-options", "expect": "R6.6", "edits": [("datastructures/cache_control.py", "return http.dump_header(self)", "return http.dump_options_header(None, self)")]},
    # ---- the property broken inside a respelled shape (each has its neutral counterpart in TWINS) ----
    {"name": "shape:quote-flipped-guard-and-for-or", "expect": "R6.1", "edits": [(H, Q_TAIL, _q_flipped("not allow_token and not set(value_str) <= _token_chars"))]},
    {"name": "shape:quote-helper-split-chain-swapped", "expect": "R6.2", "edits": [(H, Q_TAIL, _q_helper(False))]},
    {"name": "shape:quote-regex-test-not-full", "expect": "R6.1", "edits": [(H, Q_TAIL, '''    if allow_token and _token_re.match(value_str):
        return value_str

    value_str = value_str.replace("\\\\", "\\\\\\\\").replace('"', '\\\\"')
    return f'"{value_str}"'


_token_re = re.compile(r"[!#$%&'*+\\-.^_`|~0-9A-Za-z]+")
''')]},
    {"name": "shape:unquote-early-return-strip-all-quotes", "expect": "R6.2", "edits": [(H, UNQ_BODY, _unq("value.strip('\"')", '''.replace("\\\\\\\\", "\\\\").replace('\\\\"', '"')'''))]},
    {"name": "shape:unquote-early-return-no-backslash", "expect": "R6.2", "edits": [(H, UNQ_BODY, _unq("value[1:-1]", '''.replace('\\\\"', '"')'''))]},
    {"name": "shape:list-comprehension-unescapes-again", "expect": "R6.2", "edits": [(H, LIST_BODY, '''    return [
        item[1:-1].replace("\\\\\\\\", "\\\\") if len(item) >= 2 and item[0] == item[-1] == '"' else item
        for item in _parse_list_header(value)
    ]
''')]},
    {"name": "shape:dict-split-last-equals", "expect": "R6.2", "edits": [(H, DICT_PART, '''        key, has_value, value = item.rpartition("=")
        key = key.strip()
''')]},
    {"name": "shape:options-unquote-steps-no-backslash", "expect": "R6.2", "edits": [(H, OPT_UNQ, '''            pv = pv[1:-1]
            pv = pv.replace('\\\\"', '"')
            pv = pv.replace("%22", '"')
''')]},
    {"name": "shape:options-quote-test-wrong-char", "expect": "R6.1", "edits": [(H, OPT_TOKEN, '''            m = _parameter_token_value_re.match(rest)

            if m:
                parts.append((pk, m.group()))
            elif rest.startswith("'"):
''')]},
    {"name": "shape:range-writer-local-no-offset", "expect": "R6.4", "edits": [(R, RANGE_TO, '''        ranges = []
        for begin, end in self.ranges:
            if end is not None:
                last = end
                ranges.append(str(begin) + "-" + str(last))
                continue
            ranges.append("%d-" % begin if begin >= 0 else str(begin))
        return self.units + "=" + ",".join(ranges)
''')]},
    {"name": "shape:content-range-writer-format-no-offset", "expect": "R6.4", "edits": [(R, CR_TO, '''        last = self._stop
        return "{} {}-{}/{}".format(self._units, self._start, last, length)
''')]},
    {"name": "shape:content-range-parser-augassign-two", "expect": "R6.4", "edits": [(H, CR_PARSE, '''        stop = _plain_int(stop_str)
        stop += 2
''')]},
    {"name": "shape:range-parser-else-branch-no-offset", "expect": "R6.4", "edits": [(H, RANGE_END, '''                try:
                    end = _plain_int(end_str)
                except ValueError:
                    return None
                else:
                    end += 0
''')]},
    {"name": "shape:dump-pair-helper-branches-swapped", "expect": "R6.5", "edits": _dump_helper(False)},
    {"name": "shape:csp-format-equals", "expect": "R6.5", "edits": [(H, CSP_DUMP, '''parts = []
    for key, value in header.items():
        parts.append("{}={}".format(key, value))
    return "; ".join(parts)''')]},
    {"name": "shape:csp-parse-partition-wrong-sep", "expect": "R6.5", "edits": [(H, CSP_PARSE, '''            directive, _, value = policy.partition("=")
            items.append((directive.strip(), value.strip()))
''')]},
    {"name": "shape:etags-loops-weak-without-slash", "expect": "R6.5", "edits": [(E, ETAGS_TO, '''        tags = []
        for x in self._strong:
            tags.append('"%s"' % x)
        for x in self._weak:
            tags.append('W"%s"' % x)
        return ", ".join(tags)
''')]},
    {"name": "shape:parse-etags-group-calls-swapped", "expect": "R6.5", "edits": [(H, ETAG_LOOP, _etag_loop(3, 2, "raw"))]},
    {"name": "shape:parse-etags-star-on-quoted-or-raw", "expect": "R6.5", "edits": [(H, ETAG_LOOP, _etag_loop(2, 3, "(quoted or raw)"))]},
    {"name": "shape:unquote-etag-slice-off-by-one", "expect": "R6.5", "edits": [(H, UNQETAG, '''    weak = etag[:2] in ("W/", "w/")
    if weak:
        etag = etag[3:]
    if etag.startswith('"') and etag.endswith('"'):
        etag = etag[1:-1]
    return etag, weak
''')]},
    {"name": "shape:quote-etag-prefix-local-no-quotes", "expect": "R6.5", "edits": [(H, QETAG, '''    prefix = "W/" if weak else ""
    return prefix + etag
''')]},
    {"name": "shape:headerset-comprehension-unquoted", "expect": "R6.5", "edits": [(S, HS_TO, 'return ", ".join([str(x) for x in self._headers])')]},
    {"name": "shape:auth-helper-no-lower", "expect": "R6.6", "edits": _auth_helper(False)},
    {"name": "shape:auth-to-header-semicolon", "expect": "R6.6", "edits": [(A, AUTH_TO, _auth_to(";"))]},
]

TWINS = [
    {"name": "token-chars-narrower", "edits": [(H, TOKEN_CHARS, TOKEN_CHARS.replace("'*+", "'+"))]},
    {"name": "rename-token-chars", "edits": [(H, "_token_chars = frozenset(", "_tchars = frozenset("), (H, "        token_chars = _token_chars\n", "        token_chars = _tchars\n")]},
    # ---- neutral respellings --------------------------------------------------------------------------
    {"name": "shape:quote-flipped-guard-set-operator", "edits": [(H, Q_TAIL, _q_flipped("not allow_token or not set(value_str) <= _token_chars"))]},
    {"name": "shape:quote-helper-split-chain", "edits": [(H, Q_TAIL, _q_helper(True))]},
    {"name": "shape:quote-regex-fullmatch", "edits": [(H, Q_TAIL, '''    if allow_token and _token_re.fullmatch(value_str) is not None:
        return value_str

    value_str = value_str.replace("\\\\", "\\\\\\\\").replace('"', '\\\\"')
    return f'"{value_str}"'


_token_re = re.compile(r"[!#$%&'*+\\-.^_`|~0-9A-Za-z]+")
''')]},
    {"name": "shape:unquote-early-return-startswith", "edits": [(H, UNQ_BODY, _unq("value[1:-1]", '''.replace("\\\\\\\\", "\\\\").replace('\\\\"', '"')'''))]},
    {"name": "shape:list-comprehension-conditional", "edits": [(H, LIST_BODY, '''    return [
        item[1:-1] if len(item) >= 2 and item[0] == item[-1] == '"' else item
        for item in _parse_list_header(value)
    ]
''')]},
    {"name": "shape:options-unquote-steps-startswith", "edits": [(H, OPT_UNQ, '''            pv = pv[1:-1]
            pv = pv.replace("\\\\\\\\", "\\\\").replace('\\\\"', '"')
            pv = pv.replace("%22", '"')
'''), (H, OPT_TOKEN, '''            m = _parameter_token_value_re.match(rest)

            if m:
                parts.append((pk, m.group()))
            elif rest.startswith('"'):
''')]},
    {"name": "shape:range-writer-local-concat-printf", "edits": [(R, RANGE_TO, '''        ranges = []
        for begin, end in self.ranges:
            if end is not None:
                last = end - 1
                ranges.append(str(begin) + "-" + str(last))
                continue
            ranges.append("%d-" % begin if begin >= 0 else str(begin))
        return self.units + "=" + ",".join(ranges)
'''), (R, CR_TO, '''        last = self._stop - 1  # type: ignore[operator]
        return "{} {}-{}/{}".format(self._units, self._start, last, length)
''')]},
    {"name": "shape:range-parsers-augassign", "edits": [(H, CR_PARSE, '''        stop = _plain_int(stop_str)
        stop += 1
'''), (H, RANGE_END, '''                try:
                    end = _plain_int(end_str)
                except ValueError:
                    return None
                else:
                    end += 1
''')]},
    {"name": "shape:dump-pair-helper-generators", "edits": _dump_helper(True)},
    {"name": "shape:csp-loop-format-partition", "edits": [(H, CSP_DUMP, '''parts = []
    for key, value in header.items():
        parts.append("{} {}".format(key, value))
    return "; ".join(parts)'''), (H, CSP_PARSE, '''            directive, _, value = policy.partition(" ")
            items.append((directive.strip(), value.strip()))
''')]},
    {"name": "shape:etags-loops-printf", "edits": [(E, ETAGS_TO, '''        tags = []
        for x in self._strong:
            tags.append('"%s"' % x)
        for x in self._weak:
            tags.append('W/"%s"' % x)
        return ", ".join(tags)
''')]},
    {"name": "shape:parse-etags-group-calls", "edits": [(H, ETAG_LOOP, _etag_loop(2, 3, "raw"))]},
    {"name": "shape:etag-codecs-prefix-local", "edits": [(H, QETAG, '''    prefix = "W/" if weak else ""
    return prefix + '"' + etag + '"'
'''), (H, UNQETAG, '''    weak = etag[:2] in ("W/", "w/")
    if weak:
        etag = etag[2:]
    if etag.startswith('"') and etag.endswith('"'):
        etag = etag[1:-1]
    return etag, weak
''')]},
    {"name": "shape:headerset-comprehension", "edits": [(S, HS_TO, 'return ", ".join([http.quote_header_value(x) for x in self._headers])')]},
    {"name": "shape:auth-helper-split", "edits": _auth_helper(True)},
    {"name": "shape:auth-to-header-concat-flipped", "edits": [(A, AUTH_TO, _auth_to(":"))]},
]

# ---- third group: further respellings (value through a boolean local, single return with a conditional expression,
# re.sub escaping, starred lists, split vs partition with the test moved, "sep".join of a literal tuple, 1 + n) ----
DICT_HEAD = '''        key, has_value, value = item.partition("=")
        key = key.strip()

        if not key:
            # =value is not valid
            continue

        if not has_value:
            result[key] = None
            continue
'''
CSP_ITEM = '''        policy = policy.strip()

        # Ignore badly formatted policies (no space)
        if " " in policy:
            directive, value = policy.strip().split(" ", 1)
            items.append((directive.strip(), value.strip()))
'''
TCR = '''        range = self.range_for_length(length)
        if range is not None:
            return f"{self.units} {range[0]}-{range[1] - 1}/{length}"
        return None
'''
BASIC = '''            value = base64.b64encode(
                f"{self.username}:{self.password}".encode()
            ).decode("ascii")
            return f"Basic {value}"
'''


def _q_local(op: str) -> str:
    return f'''    needs_quoting = not allow_token {op} not _token_chars.issuperset(value_str)

    if not needs_quoting:
        return value_str

    return '"%s"' % value_str.replace("\\\\", "\\\\\\\\").replace('"', '\\\\"')
'''


def _q_resub(cls: str) -> str:
    return f'''    if allow_token and not (set(value_str) - _token_chars):
        return value_str

    return '"' + re.sub(r'([{cls}])', r"\\\\\\1", value_str) + '"'
'''


def _opt_starred(quoted: bool) -> str:
    v = "quote_header_value(value)" if quoted else "value"
    return f'''    params = [
        f"{{key}}={{value}}" if key.endswith("*") else f"{{key}}={{{v}}}"
        for key, value in options.items()
        if value is not None
    ]
    return "; ".join([*segments, *params])
'''


def _dict_split(call: str) -> str:
    return f'''        if "=" not in item:
            key = item.strip()

            if key:
                result[key] = None

            continue

        key, value = item.{call}
        key = key.strip()

        if not key:
            # =value is not valid
            continue
'''


def _range_join(last: str) -> str:
    return f'''        ranges = [
            "-".join((str(begin), "" if end is None else str({last}))) if end is not None or begin >= 0 else str(begin)
            for begin, end in self.ranges
        ]
        return "=".join((self.units, ",".join(ranges)))
'''


def _tcr(stop: str) -> str:
    return f'''        rng = self.range_for_length(length)
        if rng is None:
            return None
        start, stop = rng
        return f"{{self.units}} {{start}}-{{{stop}}}/{{length}}"
'''


def _csp_item(sep: str) -> str:
    return f'''        directive, sep, text = policy.strip().partition("{sep}")

        # Ignore badly formatted policies (no space)
        if sep:
            items.append((directive.strip(), text.strip()))
'''


def _etags_starred(strong: str) -> str:
    return f'''        strong = [{strong} for x in self._strong]
        weak = ['W/"' + x + '"' for x in self._weak]
        return ", ".join([*strong, *weak])
'''


def _basic(sep: str) -> str:
    return f'''            pair = "{sep}".join((str(self.username), str(self.password)))
            return "Basic " + base64.b64encode(pair.encode()).decode("ascii")
'''


TWINS += [
    {"name": "shape:quote-needs-quoting-local-printf", "edits": [(H, Q_TAIL, _q_local("or"))]},
    {"name": "shape:quote-single-return-ifexp", "edits": [(H, Q_TAIL, '''    escaped = value_str.replace("\\\\", "\\\\\\\\").replace('"', '\\\\"')
    return value_str if (allow_token and _token_chars >= set(value_str)) else f'"{escaped}"'
''')]},
    {"name": "shape:quote-re-sub", "edits": [(H, Q_TAIL, _q_resub('\\\\\\\\"'))]},
    {"name": "shape:unquote-merged-assignment", "edits": [(H, UNQ_BODY, '''    if value[:1] == value[-1:] == '"' and len(value) >= 2:
        value = value[1:-1].replace("\\\\\\\\", "\\\\").replace('\\\\"', '"')

    return value
''')]},
    # (key.endswith("*") differs from key[-1] == "*" only for the empty key, which is outside the domain: keys are tokens)
    {"name": "shape:options-comprehension-starred", "edits": [(H, OPT_LOOP, _opt_starred(True))]},
    {"name": "shape:dict-in-test-then-split", "edits": [(H, DICT_HEAD, _dict_split('split("=", 1)'))]},
    {"name": "shape:range-writers-join-tuple-unpack", "edits": [(R, RANGE_TO, _range_join("end - 1")), (R, TCR, _tcr("stop - 1")), (H, CR_PARSE, "        stop = 1 + _plain_int(stop_str)\n")]},
    {"name": "shape:csp-partition-sep-test", "edits": [(H, CSP_ITEM, _csp_item(" "))]},
    {"name": "shape:etags-starred-concat", "edits": [(E, ETAGS_TO, _etags_starred("""f'"{x}"'"""))]},
    {"name": "shape:basic-join-tuple", "edits": [(A, BASIC, _basic(":"))]},
]
MUTANTS += [
    {"name": "shape:quote-needs-quoting-local-and", "expect": "R6.1", "edits": [(H, Q_TAIL, _q_local("and"))]},
    {"name": "shape:quote-re-sub-quote-only", "expect": "R6.2", "edits": [(H, Q_TAIL, _q_resub('"'))]},
    {"name": "shape:options-comprehension-unquoted", "expect": "R6.5", "edits": [(H, OPT_LOOP, _opt_starred(False))]},
    {"name": "shape:dict-in-test-then-rsplit", "expect": "R6.2", "edits": [(H, DICT_HEAD, _dict_split('rsplit("=", 1)'))]},
    {"name": "shape:range-writer-join-tuple-no-offset", "expect": "R6.4", "edits": [(R, RANGE_TO, _range_join("end"))]},
    {"name": "shape:to-content-range-unpack-no-offset", "expect": "R6.4", "edits": [(R, TCR, _tcr("stop"))]},
    {"name": "shape:content-range-parser-two-plus", "expect": "R6.4", "edits": [(H, CR_PARSE, "        stop = 2 + _plain_int(stop_str)\n")]},
    {"name": "shape:csp-partition-comma", "expect": "R6.5", "edits": [(H, CSP_ITEM, _csp_item(","))]},
    {"name": "shape:etags-starred-strong-unquoted", "expect": "R6.5", "edits": [(E, ETAGS_TO, _etags_starred("x"))]},
    {"name": "shape:basic-join-semicolon", "expect": "R6.6", "edits": [(A, BASIC, _basic(";"))]},
]

# ---- plain regressions outside the respelled shapes ----
MUTANTS += [
    {"name": "unquote-extra-rewrite", "expect": "R6.2", "edits": [(H, '''        return value.replace("\\\\\\\\", "\\\\").replace('\\\\"', '"')''', '''        return value.replace("\\\\\\\\", "\\\\").replace('\\\\"', '"').replace("+", " ")''')]},
    {"name": "set-header-plain-split", "expect": "R6.5", "edits": [(H, "return ds.HeaderSet(parse_list_header(value), on_update)", 'return ds.HeaderSet(value.split(","), on_update)')]},
    {"name": "if-range-no-unquote", "expect": "R6.6", "edits": [(H, "return ds.IfRange(unquote_etag(value)[0])", "return ds.IfRange(value)")]},
    {"name": "range-parser-splits-on-semicolon", "expect": "R6.5", "edits": [(H, 'for item in rng.split(","):', 'for item in rng.split(";"):')]},
    {"name": "options-quote-test-second-char", "expect": "R6.1", "edits": [(H, """            elif rest[:1] == '"':""", """            elif rest[1:2] == '"':""")]},
]

# ---- R6.7 / R6.8: whole-function laws (scanner loop of parse_options_header, Range / Content-Range shape classes) ----
OPT_SCAN = '''                while pos < length:
                    if rest[pos : pos + 2] in {"\\\\\\\\", '\\\\"'}:
                        # Consume escaped slashes and quotes.
                        pos += 2
                    elif rest[pos] == '"':
                        # Stop at an unescaped quote.
                        parts.append((pk, rest[: pos + 1]))
                        rest = rest[pos + 1 :]
                        break
                    else:
                        # Consume any other character.
                        pos += 1
'''
OPT_QUOTED = '''            elif rest[:1] == '"':
                pos = 1
                length = len(rest)

''' + OPT_SCAN
OPT_ADVANCE = '''        if (end := rest.find(";")) == -1:
            break

        rest = rest[end + 1 :].lstrip()
'''
CONT_RE = '''_continuation_re = re.compile(r"\\*(\\d+)$", re.ASCII)
'''
RANGE_ITEM = '''        if item.startswith("-"):
            if last_end < 0:
                return None
'''
RANGE_ORDER = '''            if begin < last_end or last_end < 0:
                return None
'''
CR_LEN = '''        if self._length is None:
            length: str | int = "*"
        else:
            length = self._length
'''
CR_SPLIT = '''    rng, length_str = rangedef.split("/", 1)
    if length_str == "*":
        length = None
'''


def _opt_regex_scan(pattern: str) -> list:
    return [
        (H, CONT_RE, CONT_RE + f"_quoted_value_re = re.compile(r'{pattern}')\n"),
        (H, OPT_QUOTED, '''            elif rest[:1] == '"' and (qm := _quoted_value_re.match(rest)) is not None:
                parts.append((pk, qm.group()))
                rest = rest[qm.end() :]
'''),
    ]


def _opt_scan_helper(stop: str) -> list:
    return [
        (H, CONT_RE, CONT_RE + f'''

def _quoted_end(text: str) -> int:
    """index just behind the closing quote of the quoted-string ``text`` starts with, -1 if it is not closed"""
    pos = 1

    while pos < len(text):
        pair = text[pos : pos + 2]

        if pair == "\\\\\\\\" or pair == '\\\\"':
            pos += 2
            continue

        if text[pos] == '"':
            return {stop}

        pos += 1

    return -1
'''),
        (H, OPT_QUOTED, '''            elif rest[:1] == '"':
                stop = _quoted_end(rest)

                if stop != -1:
                    parts.append((pk, rest[:stop]))
                    rest = rest[stop:]
'''),
    ]


def _opt_advance(meth: str) -> str:
    return f'''        _, sep, rest = rest.{meth}(";")

        if not sep:
            break

        rest = rest.lstrip()
'''


def _range_branches(test: str) -> str:
    return f'''        ranges = []
        for begin, end in self.ranges:
            if end is not None:
                ranges.append(f"{{begin}}-{{end - 1}}")
            elif {test}:
                ranges.append(f"{{begin}}-")
            else:
                # suffix range, the last N bytes
                ranges.append(str(begin))
        return f"{{self.units}}={{','.join(ranges)}}"
'''


def _range_comp(suffix_test: str) -> str:
    return f'''        items = [
            f"{{begin}}-{{end - 1}}" if end is not None else (str(begin) if {suffix_test} else "%d-" % begin)
            for begin, end in self.ranges
        ]
        return self.units + "=" + ",".join(items)
'''


MUTANTS += [
    {"name": "options-scan-no-advance-after-quoted", "expect": "R6.7", "edits": [(H, OPT_SCAN, OPT_SCAN.replace("                        rest = rest[pos + 1 :]\n", ""))]},
    {"name": "options-scan-escape-set-loses-backslash-pair", "expect": "R6.7", "edits": [(H, OPT_SCAN, OPT_SCAN.replace('''in {"\\\\\\\\", '\\\\"'}''', '''in {'\\\\"'}'''))]},
    {"name": "options-advance-no-lstrip", "expect": "R6.7", "edits": [(H, OPT_ADVANCE, OPT_ADVANCE.replace(".lstrip()", ""))]},
    {"name": "options-writer-strips-value", "expect": "R6.7", "edits": [(H, OPT_LOOP, OPT_LOOP.replace("quote_header_value(value)", "quote_header_value(str(value).strip())"))]},
    {"name": "shape:options-scan-find-closing-quote", "expect": "R6.7", "edits": [(H, OPT_QUOTED, '''            elif rest[:1] == '"':
                closing = rest.find('"', 1)

                if closing != -1:
                    parts.append((pk, rest[: closing + 1]))
                    rest = rest[closing + 1 :]
''')]},
    {"name": "shape:options-scan-regex-without-escapes", "expect": "R6.7", "edits": _opt_regex_scan('"[^"]*"')},
    {"name": "shape:options-scan-helper-stops-before-quote", "expect": "R6.7", "edits": _opt_scan_helper("pos")},
    {"name": "shape:options-advance-rpartition", "expect": "R6.7", "edits": [(H, OPT_ADVANCE, _opt_advance("rpartition"))]},
    {"name": "range-writer-open-ended-strictly-positive", "expect": "R6.8", "edits": [(R, 'f"{begin}-" if begin >= 0 else str(begin)', 'f"{begin}-" if begin > 0 else str(begin)')]},
    {"name": "shape:range-writer-branches-zero-to-suffix", "expect": "R6.8", "edits": [(R, RANGE_TO, _range_branches("begin > 0"))]},
    {"name": "shape:range-writer-comprehension-zero-to-suffix", "expect": "R6.8", "edits": [(R, RANGE_TO, _range_comp("begin <= 0"))]},
    {"name": "range-parser-rejects-start-at-previous-end", "expect": "R6.8", "edits": [(H, RANGE_ORDER, RANGE_ORDER.replace("begin < last_end", "begin <= last_end"))]},
    {"name": "range-parser-rejects-one-byte-range", "expect": "R6.8", "edits": [(H, "                if begin >= end:\n", "                if begin + 1 >= end:\n")]},
    {"name": "content-range-parser-star-misspelled", "expect": "R6.8", "edits": [(H, '    if rng == "*":\n', '    if rng == "":\n')]},
    {"name": "content-range-writer-zero-length-as-star", "expect": "R6.8", "edits": [(R, CR_LEN, CR_LEN.replace("if self._length is None:", "if not self._length:"))]},
]
TWINS += [
    {"name": "shape:options-scan-regex-quoted-string", "edits": _opt_regex_scan('"(?:\\\\[\\\\"]|\\\\(?![\\\\"])|[^"\\\\])*"')},
    {"name": "shape:options-scan-helper", "edits": _opt_scan_helper("pos + 1")},
    {"name": "shape:options-advance-partition", "edits": [(H, OPT_ADVANCE, _opt_advance("partition"))]},
    {"name": "shape:options-loop-while-rest", "edits": [(H, "    while True:\n        if (m := _parameter_key_re.match(rest)) is not None:", "    while rest:\n        if (m := _parameter_key_re.match(rest)) is not None:")]},
    {"name": "shape:range-writer-branches", "edits": [(R, RANGE_TO, _range_branches("begin >= 0"))]},
    {"name": "shape:range-writer-comprehension-suffix-first", "edits": [(R, RANGE_TO, _range_comp("begin < 0"))]},
    {"name": "shape:range-parser-suffix-by-first-char", "edits": [(H, RANGE_ITEM, RANGE_ITEM.replace('item.startswith("-")', 'item[0] == "-"'))]},
    {"name": "shape:content-range-writer-ifexp-printf", "edits": [(R, CR_LEN, '''        length = "*" if self._length is None else str(self._length)
'''), (R, CR_TO, '''        return "%s %d-%d/%s" % (self._units, self._start, self._stop - 1, length)
''')]},
    {"name": "shape:content-range-parser-partition", "edits": [(H, CR_SPLIT, '''    rng, _, length_str = rangedef.partition("/")
    if length_str == "*":
        length = None
''')]},
]

# ---- round 3: loops moved into generator helpers, lists kept in a table indexed by a truth value ---------------------
PE_BODY = '''    strong = []
    weak = []
    end = len(value)
    pos = 0
    while pos < end:
        match = _etag_re.match(value, pos)
        if match is None:
            break
''' + ETAG_LOOP + '''        pos = match.end()
    return ds.ETags(strong, weak)
'''
PE_GEN = '''

def _iter_etag_groups(value: str) -> t.Iterator[tuple[str | None, ...]]:
    pos = 0
    end = len(value)
    while pos < end:
        match = _etag_re.match(value, pos)
        if match is None:
            break
        yield match.groups()
        pos = match.end()
'''


def _pe_table(table: str, select: str, strong: str, weak: str, star: str = "raw", kept: str = "quoted or raw") -> list:
    return [(H, PE_BODY, f'''    tags = {table}
    for is_weak, quoted, raw in _iter_etag_groups(value):
        if {star} == "*":
            return ds.ETags(star_tag=True)
        tags[{select}].append({kept})
    return ds.ETags({strong}, {weak})
''' + PE_GEN)]


def _pe_comprehensions(weak_item: str) -> list:
    return [(H, PE_BODY, f'''    parts = list(_iter_etag_groups(value))
    if any(raw == "*" for _, _, raw in parts):
        return ds.ETags(star_tag=True)
    strong = [quoted or raw for is_weak, quoted, raw in parts if not is_weak]
    weak = [{weak_item} for is_weak, quoted, raw in parts if is_weak]
    return ds.ETags(strong, weak)
''' + PE_GEN)]


def _pe_classifying(kept: str) -> list:
    return [(H, PE_BODY, f'''    strong = []
    weak = []
    for star, weak_tag, tag in _iter_etag_items(value):
        if star:
            return ds.ETags(star_tag=True)
        (weak if weak_tag else strong).append(tag)
    return ds.ETags(strong, weak)


def _iter_etag_items(value: str) -> t.Iterator[tuple[bool, bool, str | None]]:
    pos = 0
    while pos < len(value):
        match = _etag_re.match(value, pos)
        if match is None:
            return
        is_weak, quoted, raw = match.groups()
        if raw == "*":
            yield True, False, None
            return
        yield False, bool(is_weak), {kept}
        pos = match.end()
''')]


def _list_gen(caller: str, strip: str = "item[1:-1]") -> list:
    return [(H, LIST_BODY, caller + f'''

def _iter_list_items(value: str) -> t.Iterator[str]:
    for item in _parse_list_header(value):
        if len(item) >= 2 and item[0] == item[-1] == '"':
            item = {strip}

        yield item
''')]


RANGE_LOOP = '''    ranges = []
    last_end = 0
    units, rng = value.split("=", 1)
    units = units.strip().lower()

    for item in rng.split(","):
        item = item.strip()
        if "-" not in item:
            return None
        if item.startswith("-"):
            if last_end < 0:
                return None
            try:
                begin = _plain_int(item)
            except ValueError:
                return None
            end = None
            last_end = -1
        elif "-" in item:
            begin_str, end_str = item.split("-", 1)
            begin_str = begin_str.strip()
            end_str = end_str.strip()

            try:
                begin = _plain_int(begin_str)
            except ValueError:
                return None

            if begin < last_end or last_end < 0:
                return None
            if end_str:
                if end_str.startswith("-"):
                    # _plain_int accepts a sign, a position does not have one
                    return None

                try:
                    end = _plain_int(end_str) + 1
                except ValueError:
                    return None

                if begin >= end:
                    return None
            else:
                end = None
            last_end = end if end is not None else -1
        ranges.append((begin, end))

    return ds.Range(units, ranges)
'''


def _range_gen_raising(stop: str = "_plain_int(end_str) + 1", order: str = "begin < last_end") -> list:
    return [(H, RANGE_LOOP, f'''    units, rng = value.split("=", 1)
    units = units.strip().lower()

    try:
        ranges = list(_iter_range_specs(rng))
    except ValueError:
        return None

    return ds.Range(units, ranges)


def _iter_range_specs(rng: str) -> t.Iterator[tuple[int, int | None]]:
    last_end = 0

    for item in rng.split(","):
        item = item.strip()
        if "-" not in item:
            raise ValueError(item)
        if item.startswith("-"):
            if last_end < 0:
                raise ValueError(item)
            begin = _plain_int(item)
            end = None
            last_end = -1
        else:
            begin_str, end_str = item.split("-", 1)
            begin = _plain_int(begin_str.strip())
            end_str = end_str.strip()

            if {order} or last_end < 0:
                raise ValueError(item)
            if end_str:
                if end_str.startswith("-"):
                    raise ValueError(item)
                end = {stop}

                if begin >= end:
                    raise ValueError(item)
            else:
                end = None
            last_end = end if end is not None else -1
        yield begin, end
''')]


def _range_gen_sentinel(stop: str = "_plain_int(end_str) + 1") -> list:
    gen = RANGE_LOOP.split('    for item in rng.split(","):\n')[1].rsplit("    return ds.Range(units, ranges)\n", 1)[0]
    gen = gen.replace("return None\n", "yield None\nRETURN\n").replace("        ranges.append((begin, end))\n", "        yield begin, end\n").replace("_plain_int(end_str) + 1", stop)
    lines = []
    for ln in gen.splitlines():
        if ln == "RETURN":
            lines.append(" " * (len(lines[-1]) - len(lines[-1].lstrip())) + "return")
        else:
            lines.append(ln)
    return [(H, RANGE_LOOP, '''    ranges = []
    units, rng = value.split("=", 1)
    units = units.strip().lower()

    for spec in _iter_range_specs(rng):
        if spec is None:
            return None
        ranges.append(spec)

    return ds.Range(units, ranges)


def _iter_range_specs(rng: str) -> t.Iterator[tuple[int, int | None] | None]:
    last_end = 0

    for item in rng.split(","):
''' + "\n".join(lines) + "\n")]


OPT_COLLECT = '''    parts: list[tuple[str, str]] = []

    while True:
'''


def _opt_scanner_gen(unquote: str | None = None, advance: str | None = None) -> list:
    """the scanner loop of parse_options_header as a generator helper that the value loop consumes"""
    src_scan = OPT_SCAN_FULL
    gen = src_scan.replace("parts.append((pk, m.group()))", "yield pk, m.group()").replace("parts.append((pk, rest[: pos + 1]))", "yield pk, rest[: pos + 1]")
    if advance is not None:
        gen = gen.replace("rest = rest[end + 1 :].lstrip()", advance)
    edits = [(H, OPT_COLLECT + OPT_SCAN_FULL, ""), (H, "    for pk, pv in parts:\n", "    for pk, pv in _scan_parameters(rest):\n"),
             (H, "    return value, options\n", "    return value, options\n\n\ndef _scan_parameters(rest: str) -> t.Iterator[tuple[str, str]]:\n    while True:\n" + gen)]
    if unquote is not None:
        edits.append((H, OPT_UNQ, unquote))
    return edits


OPT_SCAN_FULL = '''        if (m := _parameter_key_re.match(rest)) is not None:
            pk = m.group(1).lower()
            rest = rest[m.end() :]

            # Value may be a token.
            if (m := _parameter_token_value_re.match(rest)) is not None:
                parts.append((pk, m.group()))

            # Value may be a quoted string, find the closing quote.
            elif rest[:1] == '"':
                pos = 1
                length = len(rest)

                while pos < length:
                    if rest[pos : pos + 2] in {"\\\\\\\\", '\\\\"'}:
                        # Consume escaped slashes and quotes.
                        pos += 2
                    elif rest[pos] == '"':
                        # Stop at an unescaped quote.
                        parts.append((pk, rest[: pos + 1]))
                        rest = rest[pos + 1 :]
                        break
                    else:
                        # Consume any other character.
                        pos += 1

        # Find the next section delimited by `;`, if any.
        if (end := rest.find(";")) == -1:
            break

        rest = rest[end + 1 :].lstrip()

'''


def _opt_segments_gen(plain: str = 'f"{key}={quote_header_value(value)}"') -> list:
    return [(H, OPT_LOOP.join(["    segments = []\n\n    if header is not None:\n        segments.append(header)\n\n", ""]), f'''    return "; ".join(_iter_option_segments(header, options))


def _iter_option_segments(header: str | None, options: t.Mapping[str, t.Any]) -> t.Iterator[str]:
    if header is not None:
        yield header

    for key, value in options.items():
        if value is None:
            continue

        if key[-1] == "*":
            yield f"{{key}}={{value}}"
        else:
            yield {plain}
''')]


TWINS += [
    {"name": "shape:etags-generator-dict-table", "edits": _pe_table("{False: [], True: []}", "bool(is_weak)", "tags[False]", "tags[True]")},
    {"name": "shape:etags-generator-pair-table-is-not-none", "edits": _pe_table("([], [])", "is_weak is not None", "tags[0]", "tags[1]", kept="quoted if quoted else raw")},
    {"name": "shape:etags-generator-list-then-comprehensions", "edits": _pe_comprehensions("quoted or raw")},
    {"name": "shape:etags-classifying-generator", "edits": _pe_classifying("quoted or raw")},
    {"name": "shape:list-parser-list-of-generator", "edits": _list_gen("    return list(_iter_list_items(value))\n")},
    {"name": "shape:list-parser-comprehension-over-generator", "edits": _list_gen("    return [entry for entry in _iter_list_items(value)]\n")},
    {"name": "shape:list-parser-loop-over-generator", "edits": _list_gen("    result = []\n\n    for entry in _iter_list_items(value):\n        result.append(entry)\n\n    return result\n")},
    {"name": "shape:range-parser-generator-raising", "edits": _range_gen_raising()},
    {"name": "shape:range-parser-generator-none-sentinel", "edits": _range_gen_sentinel()},
    {"name": "shape:options-scanner-generator", "edits": _opt_scanner_gen()},
    {"name": "shape:options-writer-generator", "edits": _opt_segments_gen()},
]
MUTANTS += [
    {"name": "shape:etags-generator-dict-table-selector-inverted", "expect": "R6.5", "edits": _pe_table("{False: [], True: []}", "not is_weak", "tags[False]", "tags[True]")},
    {"name": "shape:etags-generator-dict-table-lists-swapped", "expect": "R6.5", "edits": _pe_table("{False: [], True: []}", "bool(is_weak)", "tags[True]", "tags[False]")},
    {"name": "shape:etags-generator-star-on-kept-text", "expect": "R6.5", "edits": _pe_table("{False: [], True: []}", "bool(is_weak)", "tags[False]", "tags[True]", star="(quoted or raw)")},
    {"name": "shape:etags-generator-comprehension-weak-keeps-raw-only", "expect": "R6.5", "edits": _pe_comprehensions("raw")},
    {"name": "shape:etags-classifying-generator-prefers-raw", "expect": "R6.5", "edits": _pe_classifying("raw or quoted")},
    {"name": "shape:list-parser-generator-strips-one-side", "expect": "R6.2", "edits": _list_gen("    return list(_iter_list_items(value))\n", strip="item[1:]")},
    {"name": "shape:range-parser-generator-stop-inclusive", "expect": "R6.4", "edits": _range_gen_raising(stop="_plain_int(end_str)")},
    {"name": "shape:range-parser-generator-rejects-adjacent", "expect": "R6.8", "edits": _range_gen_raising(order="begin <= last_end")},
    {"name": "shape:range-parser-generator-sentinel-stop-inclusive", "expect": "R6.8", "edits": _range_gen_sentinel(stop="_plain_int(end_str)")},
    {"name": "shape:options-scanner-generator-no-unescape", "expect": "R6.2", "edits": _opt_scanner_gen(unquote=OPT_UNQ.replace('.replace("\\\\\\\\", "\\\\")', ""))},
    {"name": "shape:options-scanner-generator-advance-no-lstrip", "expect": "R6.7", "edits": _opt_scanner_gen(advance="rest = rest[end + 1 :]")},
    {"name": "shape:options-writer-generator-unquoted", "expect": "R6.5", "edits": _opt_segments_gen(plain='f"{key}={value}"')},
]


def _quote_gen(test: str) -> list:
    return [(H, Q_TAIL.split("\n\n")[-1], f'''    return '"' + "".join(_iter_escaped(value_str)) + '"'


def _iter_escaped(text: str) -> t.Iterator[str]:
    for ch in text:
        if {test}:
            yield "\\\\"
        yield ch
''')]


TWINS += [
    {"name": "shape:quote-escaping-generator-two-yields", "edits": _quote_gen('ch == "\\\\" or ch == \'"\'')},
    {"name": "shape:dict-parser-dict-of-generator", "edits": [(H, "        if not has_value:\n            result[key] = None\n            continue\n", "        if not has_value:\n            result.update(dict(_none_entry(key)))\n            continue\n"), (H, "def parse_dict_header(value: str)", "def _none_entry(key: str) -> t.Iterator[tuple[str, None]]:\n    yield key, None\n\n\ndef parse_dict_header(value: str)")]},
]
MUTANTS += [
    {"name": "shape:quote-escaping-generator-forgets-backslash", "expect": "R6.2", "edits": _quote_gen('ch == \'"\'')},
]


# ---- round 3b: the escaping as one str.translate over a table (module constant, local, inline; dict / maketrans forms) ----
Q_ESC = Q_TAIL.split("\n\n")[-1]
Q_DEF = "def quote_header_value(value: t.Any, allow_token: bool = True) -> str:\n"
_ESC_OK = '{"\\\\": "\\\\\\\\", \'"\': \'\\\\"\'}'


def _q_translate(table_stmt: str, arg: str, where: str = "module") -> list:
    """quote_header_value escaping through value_str.translate(<arg>); the table bound at module level, in the
    function, or not at all (inline)"""
    body = f"    return f'\"{{value_str.translate({arg})}}\"'\n"
    if where == "module":
        return [(H, Q_DEF, table_stmt + "\n\n\n" + Q_DEF), (H, Q_ESC, body)]
    if where == "local":
        return [(H, Q_ESC, "    " + table_stmt + "\n" + body)]
    return [(H, Q_ESC, body)]


TWINS += [
    {"name": "shape:quote-translate-module-maketrans-dict", "edits": _q_translate(f"_header_escapes = str.maketrans({_ESC_OK})", "_header_escapes")},
    {"name": "shape:quote-translate-module-ord-dict", "edits": _q_translate("_header_escapes = {ord(\"\\\\\"): \"\\\\\\\\\", ord('\"'): '\\\\\"'}", "_header_escapes")},
    {"name": "shape:quote-translate-module-maketrans-dictcomp", "edits": _q_translate("_header_escapes = str.maketrans({special: \"\\\\\" + special for special in '\"\\\\'})", "_header_escapes")},
    {"name": "shape:quote-translate-local-maketrans", "edits": _q_translate(f"escapes = str.maketrans({_ESC_OK})", "escapes", "local")},
    {"name": "shape:quote-translate-inline-maketrans", "edits": _q_translate("", f"str.maketrans({_ESC_OK})", "inline")},
    {"name": "shape:quote-translate-maketrans-three-strings-nothing-deleted", "edits": _q_translate("_nothing = str.maketrans(\"\", \"\", \"\")", "_nothing", "module")[:1] + [(H, Q_ESC, Q_ESC.replace("value_str = value_str.replace(", "value_str = value_str.translate(_nothing).replace("))]},
    {"name": "shape:quote-translate-inline-dictcomp", "edits": _q_translate("", "{ord(special): \"\\\\\" + special for special in '\"\\\\'}", "inline")},
    {"name": "shape:quote-join-table-get-per-character", "edits": [(H, Q_DEF, f"_qs_escape_of = {_ESC_OK}\n\n\n" + Q_DEF), (H, Q_ESC, "    return '\"' + \"\".join(_qs_escape_of.get(ch, ch) for ch in value_str) + '\"'\n")]},
    {"name": "shape:quote-merged-guard-translate-assignment", "edits": [(H, Q_DEF, f"_qs_escapes = str.maketrans({_ESC_OK})\n\n\n" + Q_DEF), (H, Q_TAIL, "    if allow_token and _token_chars.issuperset(value_str):\n        return value_str\n\n    escaped = value_str.translate(_qs_escapes)\n    return '\"' + escaped + '\"'\n")]},
]
MUTANTS += [
    {"name": "shape:quote-translate-table-forgets-backslash", "expect": "R6.2", "edits": _q_translate("_header_escapes = str.maketrans({'\"': '\\\\\"'})", "_header_escapes")},
    {"name": "shape:quote-translate-table-escapes-slash-not-backslash", "expect": "R6.2", "edits": _q_translate("_header_escapes = {ord(\"/\"): \"\\\\\\\\\", ord('\"'): '\\\\\"'}", "_header_escapes")},
    {"name": "shape:quote-translate-table-rewrites-tab-as-letter", "expect": "R6.2", "edits": _q_translate("_header_escapes = str.maketrans({\"\\\\\": \"\\\\\\\\\", '\"': '\\\\\"', \"\\t\": \"\\\\t\"})", "_header_escapes")},
    {"name": "shape:quote-translate-two-strings-quote-to-apostrophe", "expect": "R6.2", "edits": _q_translate("_header_escapes = str.maketrans('\"\\\\', \"'/\")", "_header_escapes")},
    {"name": "shape:quote-translate-three-strings-deletes-specials", "expect": "R6.2", "edits": _q_translate("_header_escapes = str.maketrans(\"\", \"\", '\"\\\\')", "_header_escapes")},
    {"name": "shape:quote-translate-inline-table-doubles-quote", "expect": "R6.2", "edits": _q_translate("", "str.maketrans({\"\\\\\": \"\\\\\\\\\", '\"': '\"\"'})", "inline")},
    {"name": "shape:quote-translate-local-table-forgets-quote", "expect": "R6.2", "edits": _q_translate("escapes = str.maketrans({\"\\\\\": \"\\\\\\\\\"})", "escapes", "local")},
]

_IMP_R = (R, "import collections.abc as cabc\n", "import collections.abc as cabc\nimport itertools\n")
_IMP_E = (E, "from __future__ import annotations\n", "from __future__ import annotations\n\nimport itertools\n")


def _range_starmap(last: str) -> list:
    return [_IMP_R, (R, RANGE_TO, f'''        ranges = itertools.starmap(
            lambda begin, end: (f"{{begin}}-" if begin >= 0 else str(begin)) if end is None else f"{{begin}}-{{{last}}}",
            self.ranges,
        )
        return f"{{self.units}}={{','.join(ranges)}}"
''')]


def _etags_chain(weak: str) -> list:
    return [_IMP_E, (E, ETAGS_TO.split("\n")[1], f"            itertools.chain((f'\"{{x}}\"' for x in self._strong), ({weak} for x in self._weak))")]


TWINS += [
    {"name": "shape:range-writer-starmap-lambda", "edits": _range_starmap("end - 1")},
    {"name": "shape:etags-writer-chain-of-generators", "edits": _etags_chain("f'W/\"{x}\"'")},
    {"name": "shape:etags-writer-chain-from-iterable", "edits": [_IMP_E, (E, ETAGS_TO.split("\n")[1], "            itertools.chain.from_iterable(([f'\"{x}\"' for x in self._strong], [f'W/\"{x}\"' for x in self._weak]))")]},
    {"name": "shape:headerset-writer-map-lambda", "edits": [(S, HS_TO, 'return ", ".join(map(lambda item: http.quote_header_value(item), self._headers))')]},
]
MUTANTS += [
    {"name": "shape:range-writer-starmap-lambda-no-offset", "expect": "R6.4", "edits": _range_starmap("end")},
    {"name": "shape:etags-writer-chain-weak-without-slash", "expect": "R6.5", "edits": _etags_chain("f'W\"{x}\"'")},
    {"name": "shape:headerset-writer-map-lambda-unquoted", "expect": "R6.5", "edits": [(S, HS_TO, 'return ", ".join(map(lambda item: str(item), self._headers))')]},
]

# ---- round 4: quoting discipline (R6.9): a text written between literal double quotes is the escaped value --------------
WWW_DIGEST = (
    "                if key in {\"realm\", \"domain\", \"nonce\", \"opaque\", \"qop\"}:\n"
    "                    value = quote_header_value(value, allow_token=False)\n"
    "                else:\n"
    "                    value = quote_header_value(value)\n\n"
    "                items.append(f\"{key}={value}\")\n"
)
_WWW_ESC = "value.replace(\"\\\\\", \"\\\\\\\\\").replace('\"', '\\\\\"')"
DUMP_DICT_ITEM = "                items.append(f\"{key}={quote_header_value(value)}\")\n"
HS_TO_HEADER = "        return \", \".join(map(http.quote_header_value, self._headers))\n"

MUTANTS += [
    {"name": "discipline:digest-always-quoted-keys-raw-fstring", "expect": "R6.9", "edits": [(A, WWW_DIGEST,
        "                if key in {\"realm\", \"domain\", \"nonce\", \"opaque\", \"qop\"}:\n"
        "                    items.append(f'{key}=\"{value}\"')\n"
        "                else:\n"
        "                    items.append(f\"{key}={quote_header_value(value)}\")\n")]},
    {"name": "discipline:digest-quotes-by-concatenation-only-quote-escaped", "expect": "R6.9", "edits": [(A, WWW_DIGEST,
        "                if key in {\"realm\", \"domain\", \"nonce\", \"opaque\", \"qop\"}:\n"
        "                    value = '\"' + value.replace('\"', '\\\\\"') + '\"'\n"
        "                else:\n"
        "                    value = quote_header_value(value)\n\n"
        "                items.append(f\"{key}={value}\")\n")]},
    {"name": "discipline:dump-header-dict-values-percent-format", "expect": "R6.9", "edits": [(H, DUMP_DICT_ITEM,
        "                items.append('%s=\"%s\"' % (key, value) if \" \" in str(value) else f\"{key}={quote_header_value(value)}\")\n")]},
    {"name": "discipline:headerset-items-wrapped-raw", "expect": "R6.9", "edits": [(S, HS_TO_HEADER,
        "        return \", \".join('\"{}\"'.format(x) if \",\" in x else http.quote_header_value(x) for x in self._headers)\n")]},
    {"name": "discipline:quote-escapes-in-wrong-order", "expect": "R6.9", "edits": [(H, "    value_str = value_str.replace(\"\\\\\", \"\\\\\\\\\").replace('\"', '\\\\\"')\n", "    value_str = value_str.replace('\"', '\\\\\"').replace(\"\\\\\", \"\\\\\\\\\")\n")]},
]
TWINS += [
    {"name": "discipline:digest-always-quoted-keys-escaped-inline", "edits": [(A, WWW_DIGEST,
        "                if key in {\"realm\", \"domain\", \"nonce\", \"opaque\", \"qop\"}:\n"
        "                    escaped = str(value).replace(\"\\\\\", \"\\\\\\\\\").replace('\"', '\\\\\"')\n"
        "                    items.append(f'{key}=\"{escaped}\"')\n"
        "                else:\n"
        "                    items.append(f\"{key}={quote_header_value(value)}\")\n")]},
    {"name": "discipline:digest-quoting-through-private-helper", "edits": [(A, WWW_DIGEST,
        "                if key in {\"realm\", \"domain\", \"nonce\", \"opaque\", \"qop\"}:\n"
        "                    value = _quoted_string(value)\n"
        "                else:\n"
        "                    value = quote_header_value(value)\n\n"
        "                items.append(f\"{key}={value}\")\n"),
        (A, "class Authorization:\n", "def _quoted_string(value: str) -> str:\n    value = str(value).replace(\"\\\\\", \"\\\\\\\\\")\n    return '\"' + value.replace('\"', '\\\\\"') + '\"'\n\n\nclass Authorization:\n")]},
    {"name": "discipline:digest-flag-for-always-quoted-keys", "edits": [(A, WWW_DIGEST,
        "                always_quoted = key in {\"realm\", \"domain\", \"nonce\", \"opaque\", \"qop\"}\n"
        "                items.append(f\"{key}={quote_header_value(value, allow_token=not always_quoted)}\")\n")]},
    {"name": "discipline:headerset-items-by-comprehension", "edits": [(S, HS_TO_HEADER, "        return \", \".join([http.quote_header_value(x) for x in self._headers])\n")]},
    {"name": "discipline:quote-wraps-by-concatenation", "edits": [(H, "    return f'\"{value_str}\"'\n", "    return '\"' + value_str + '\"'\n")]},
]

# ---- round 4: typed single values (R6.10): HTTP dates, ages, If-Range - whole-function laws on finite families ----------
IFR_EMPTY = "    if not value:\n        return ds.IfRange()\n"
IFR_TAIL = "    # drop weakness information\n    return ds.IfRange(unquote_etag(value)[0])\n"
IFR_WRITE = (
    "        if self.date is not None:\n            return http.http_date(self.date)\n"
    "        if self.etag is not None:\n            return http.quote_etag(self.etag)\n        return \"\"\n"
)
PD_TAIL = "    if dt.tzinfo is None:\n        return dt.replace(tzinfo=timezone.utc)\n\n    return dt\n"

MUTANTS += [
    {"name": "typed:if-range-tag-guessed-from-first-character", "expect": "R6.10", "edits": [(H, IFR_EMPTY, IFR_EMPTY + "    if value.lstrip()[:1] in {'\"', \"W\", \"w\"}:\n        return ds.IfRange(unquote_etag(value)[0])\n")]},
    {"name": "typed:if-range-date-only-for-values-with-a-digit-first", "expect": "R6.10", "edits": [(H, IFR_EMPTY, IFR_EMPTY + "    looks_like_date = value.strip()[:1].isdigit() or value.strip()[:3] in (\"Mon\", \"Tue\", \"Thu\", \"Fri\", \"Sat\", \"Sun\")\n    if not looks_like_date:\n        return ds.IfRange(unquote_etag(value)[0])\n")]},
    {"name": "typed:if-range-date-written-as-isoformat", "expect": "R6.10", "edits": [(R, "            return http.http_date(self.date)\n", "            return self.date.isoformat()\n")]},
    {"name": "typed:if-range-tag-written-bare", "expect": "R6.10", "edits": [(R, "            return http.quote_etag(self.etag)\n", "            return self.etag\n")]},
    {"name": "typed:if-range-weak-marker-stripped-by-hand", "expect": "R6.10", "edits": [(H, IFR_TAIL, "    return ds.IfRange(value.strip().strip('\"'))\n")]},
    {"name": "typed:http-date-relabels-aware-values", "expect": "R6.10", "edits": [(H, "            timestamp = _dt_as_utc(timestamp)\n", "            timestamp = timestamp.replace(tzinfo=timezone.utc)\n")]},
    {"name": "typed:http-date-drops-seconds", "expect": "R6.10", "edits": [(H, "        return email.utils.format_datetime(timestamp, usegmt=True)\n", "        return email.utils.format_datetime(timestamp.replace(second=0), usegmt=True)\n")]},
    {"name": "typed:parse-date-naive-result", "expect": "R6.10", "edits": [(H, PD_TAIL, "    return dt.replace(tzinfo=None)\n")]},
    {"name": "typed:dump-age-drops-days", "expect": "R6.10", "edits": [(H, "        age = int(age.total_seconds())\n", "        age = age.seconds\n")]},
    {"name": "typed:parse-age-rejects-zero", "expect": "R6.10", "edits": [(H, "    if seconds < 0:\n        return None\n", "    if seconds <= 0:\n        return None\n")]},
    {"name": "typed:parse-age-minutes", "expect": "R6.10", "edits": [(H, "        return timedelta(seconds=seconds)\n", "        return timedelta(minutes=seconds)\n")]},
]
TWINS += [
    {"name": "typed:if-range-writer-conditional-expression", "edits": [(R, IFR_WRITE, "        if self.date is not None:\n            return http.http_date(self.date)\n        return http.quote_etag(self.etag) if self.etag is not None else \"\"\n")]},
    {"name": "typed:if-range-writer-etag-branch-first", "edits": [(R, IFR_WRITE, "        if self.date is None and self.etag is not None:\n            return http.quote_etag(self.etag)\n        if self.date is None:\n            return \"\"\n        return http.http_date(self.date)\n")]},
    {"name": "typed:if-range-reader-unpacks-tag", "edits": [(H, IFR_TAIL, "    etag, _weak = unquote_etag(value)\n    return ds.IfRange(etag)\n")]},
    {"name": "typed:parse-date-conditional-expression", "edits": [(H, PD_TAIL, "    return dt.replace(tzinfo=timezone.utc) if dt.tzinfo is None else dt\n")]},
    {"name": "typed:http-date-through-local", "edits": [(H, "        return email.utils.format_datetime(timestamp, usegmt=True)\n", "        text = email.utils.format_datetime(timestamp, usegmt=True)\n        return text\n")]},
    {"name": "typed:dump-age-floor-division", "edits": [(H, "        age = int(age.total_seconds())\n", "        age = age // timedelta(seconds=1)\n")]},
    {"name": "typed:parse-age-positional-timedelta", "edits": [(H, "        return timedelta(seconds=seconds)\n", "        return timedelta(0, seconds)\n")]},
]

# ---- the fix df062d8 (a quoted entity tag is not tried as a date) reverted / weakened ----
IFR_FIX = (
    "    if not value.lstrip().startswith(('\"', 'W/\"', 'w/\"')):\n"
    "        date = parse_date(value)\n        if date is not None:\n            return ds.IfRange(date=date)\n"
)
MUTANTS += [
    {"name": "typed:if-range-quoted-tag-fix-reverted", "expect": "R6.10", "edits": [(H, IFR_FIX, "    date = parse_date(value)\n    if date is not None:\n        return ds.IfRange(date=date)\n")]},
    {"name": "typed:if-range-tag-test-sees-only-first-character", "expect": "R6.10", "edits": [(H, "    if not value.lstrip().startswith(('\"', 'W/\"', 'w/\"')):\n", "    if value.lstrip()[:1] not in {'\"', \"W\", \"w\"}:\n")]},
    {"name": "typed:if-range-tag-test-forgets-weak-marker", "expect": "R6.10", "edits": [(H, "    if not value.lstrip().startswith(('\"', 'W/\"', 'w/\"')):\n", "    if not value.lstrip().startswith(('\"', 'W')):\n")]},
]
TWINS += [
    {"name": "typed:if-range-tag-test-as-flag", "edits": [(H, "    if not value.lstrip().startswith(('\"', 'W/\"', 'w/\"')):\n", "    is_tag = value.lstrip().startswith(('\"', 'W/\"', 'w/\"'))\n    if not is_tag:\n")]},
    {"name": "typed:if-range-tag-returned-first", "edits": [(H, IFR_FIX, "    if value.lstrip().startswith(('\"', 'W/\"', 'w/\"')):\n        return ds.IfRange(unquote_etag(value)[0])\n    date = parse_date(value)\n    if date is not None:\n        return ds.IfRange(date=date)\n")]},
]

# ---- stress round (fresh refactorings in ordinary maintainer style, written blind to the checker) ------------------------
# shapes that tripped a rule at first, each with a neighbour of my own and the property broken inside the same shape
SCAN_Q = '''            elif rest[:1] == '"':
                pos = 1
                length = len(rest)

                while pos < length:
                    if rest[pos : pos + 2] in {"\\\\\\\\", '\\\\"'}:
                        # Consume escaped slashes and quotes.
                        pos += 2
                    elif rest[pos] == '"':
                        # Stop at an unescaped quote.
                        parts.append((pk, rest[: pos + 1]))
                        rest = rest[pos + 1 :]
                        break
                    else:
                        # Consume any other character.
                        pos += 1
'''
PA_BODY = '''    if not value:
        return None
    try:
        seconds = int(value)
    except ValueError:
        return None
    if seconds < 0:
        return None
    try:
        return timedelta(seconds=seconds)
    except OverflowError:
        return None
'''
Q_ESCAPE = '''    value_str = value_str.replace("\\\\", "\\\\\\\\").replace('"', '\\\\"')\n'''
_PO_DEF = "def parse_options_header(value: str | None)"


def _q_needs_quotes(quant: str) -> list:
    return [(H, Q_TAIL, f'''    needs_quotes = not allow_token or {quant}(ch not in _token_chars for ch in value_str)

    if not needs_quotes:
        return value_str

    value_str = value_str.replace("\\\\", "\\\\\\\\").replace('"', '\\\\"')
    return f'"{{value_str}}"'
''')]


def _unq_table(table: str, hoisted: str = "") -> list:
    return [(H, OPT_UNQ, "            pv = _unquote_parameter_value(pv)\n"), (H, _PO_DEF, f'''{hoisted}def _unquote_parameter_value(value: str) -> str:
    value = value[1:-1]

    for escaped, char in {table}:
        value = value.replace(escaped, char)

    return value


{_PO_DEF}''')]


_ESC_ALL = '''(("\\\\\\\\", "\\\\"), ('\\\\"', '"'), ("%22", '"'))'''
_ESC_NO_BACKSLASH = '''(('\\\\"', '"'), ("%22", '"'))'''


def _q_escape_loop(order: str) -> list:
    return [(H, Q_ESCAPE, f'''    for char in {order}:
        value_str = value_str.replace(char, "\\\\" + char)
''')]


def _range_static_helper(last: str) -> list:
    return [(R, RANGE_TO, f'''        return f"{{self.units}}={{','.join(map(self._dump_range, self.ranges))}}"

    @staticmethod
    def _dump_range(rng: tuple[int, int | None]) -> str:
        begin, end = rng

        if end is not None:
            return f"{{begin}}-{{{last}}}"

        if begin < 0:
            return str(begin)

        return f"{{begin}}-"
''')]


def _range_starmap_helper(last: str) -> list:
    return [_IMP_R, (R, RANGE_TO, '''        return f"{self.units}={','.join(itertools.starmap(_dump_range, self.ranges))}"
'''), (R, "class IfRange:\n", f'''def _dump_range(begin: int, end: int | None) -> str:
    if end is not None:
        return f"{{begin}}-{{{last}}}"

    return f"{{begin}}-" if begin >= 0 else str(begin)


class IfRange:
''')]


def _scan_regex(inner: str) -> list:
    return [(H, SCAN_Q, '''            elif (m := _parameter_quoted_value_re.match(rest)) is not None:
                parts.append((pk, m.group()))
                rest = rest[m.end() :]
'''), (H, _PO_DEF, f'''_parameter_quoted_value_re = re.compile(r'"{inner}"', re.DOTALL)


{_PO_DEF}''')]


def _pa_suppress(make: str) -> list:
    return [(H, "import email.utils\n", "import contextlib\nimport email.utils\n"), (H, PA_BODY, f'''    if not value:
        return None
    with contextlib.suppress(ValueError, OverflowError):
        seconds = int(value)
        if seconds >= 0:
            return {make}
    return None
''')]


def _hs_separator(sep: str) -> list:
    return [(S, HS_TO_HEADER, '        return _SEPARATOR.join(map(http.quote_header_value, self._headers))\n'), (S, "class HeaderSet(", f'_SEPARATOR = "{sep}"\n\n\nclass HeaderSet(')]


TWINS += [
    {"name": "stress:quote-needs-quotes-flag-any-not-in", "edits": _q_needs_quotes("any")},
    {"name": "stress:options-unquote-helper-loop-over-tuple-table", "edits": _unq_table(_ESC_ALL)},
    {"name": "stress:options-unquote-helper-loop-over-list-table", "edits": _unq_table("[" + _ESC_ALL[1:-1] + "]")},
    {"name": "stress:options-unquote-helper-loop-over-module-table", "edits": _unq_table("_parameter_escapes", f"_parameter_escapes = {_ESC_ALL}\n\n\n")},
    {"name": "stress:quote-escapes-in-a-loop-over-the-two-characters", "edits": _q_escape_loop('''("\\\\", '"')''')},
    {"name": "stress:range-writer-map-static-helper", "edits": _range_static_helper("end - 1")},
    {"name": "stress:range-writer-starmap-module-helper", "edits": _range_starmap_helper("end - 1")},
    {"name": "stress:options-quoted-value-by-atomic-regex", "edits": _scan_regex('''(?>\\\\[\\\\"]|[^"])*''')},
    {"name": "stress:parse-age-contextlib-suppress", "edits": _pa_suppress("timedelta(seconds=seconds)")},
    {"name": "stress:headerset-separator-hoisted-to-module-constant", "edits": _hs_separator(", ")},
]
MUTANTS += [
    {"name": "stress:quote-needs-quotes-flag-all-for-any", "expect": "R6.1", "edits": _q_needs_quotes("all")},
    {"name": "stress:options-unquote-table-without-backslash-pair", "expect": "R6.2", "edits": _unq_table(_ESC_NO_BACKSLASH)},
    {"name": "stress:options-unquote-module-table-without-backslash-pair", "expect": "R6.2", "edits": _unq_table("_parameter_escapes", f"_parameter_escapes = {_ESC_NO_BACKSLASH}\n\n\n")},
    {"name": "stress:quote-escape-loop-quote-before-backslash", "expect": "R6.2", "edits": _q_escape_loop('''('"', "\\\\")''')},
    {"name": "stress:range-writer-map-static-helper-no-offset", "expect": "R6.4", "edits": _range_static_helper("end")},
    {"name": "stress:range-writer-starmap-module-helper-no-offset", "expect": "R6.4", "edits": _range_starmap_helper("end")},
    {"name": "stress:options-quoted-value-regex-stops-at-escaped-quote", "expect": "R6.7", "edits": _scan_regex('''[^"]*''')},
    {"name": "stress:parse-age-contextlib-suppress-minutes", "expect": "R6.10", "edits": _pa_suppress("timedelta(minutes=seconds)")},
    {"name": "stress:headerset-hoisted-separator-semicolon", "expect": "R6.5", "edits": _hs_separator("; ")},
]


def _po_phase_helpers(unquote: str | None = None) -> list:
    """parse_options_header split along its phases: a helper that scans the parts (returning the list from inside its
    `while True` loop) and a helper that decodes them."""
    edits = [
        (H, "    # Collect all valid key=value parts without processing the value.\n    parts: list[tuple[str, str]] = []\n",
         "    return value, _decode_option_parts(_scan_option_parts(rest))\n\n\ndef _scan_option_parts(rest: str) -> list[tuple[str, str]]:\n    parts: list[tuple[str, str]] = []\n"),
        (H, "        if (end := rest.find(\";\")) == -1:\n            break\n", "        if (end := rest.find(\";\")) == -1:\n            return parts\n"),
        (H, "    options: dict[str, str] = {}\n    encoding: str | None = None\n", "\ndef _decode_option_parts(parts: list[tuple[str, str]]) -> dict[str, str]:\n    options: dict[str, str] = {}\n    encoding: str | None = None\n"),
        (H, "    return value, options\n", "    return options\n"),
    ]
    if unquote is not None:
        edits.append((H, OPT_UNQ, unquote))
    return edits


TWINS += [
    {"name": "stress:options-parser-split-into-scan-and-decode-helpers", "edits": _po_phase_helpers()},
]
MUTANTS += [
    {"name": "stress:options-parser-phase-helpers-decode-forgets-backslash-pair", "expect": "R6.2", "edits": _po_phase_helpers('''            pv = pv[1:-1].replace('\\\\"', '"').replace("%22", '"')\n''')},
]

# -- second batch of fresh refactorings: a writer that hands its work to another public writer, a local generator closure,
#    a quoted text assembled fragment by fragment in a list
DUMP_SPLIT = (H, DUMP_BODY, '''    if isinstance(iterable, dict):
        return _dump_dict_header(iterable)

    return _dump_list_header(iterable)


def _dump_dict_header(mapping: dict[str, t.Any]) -> str:
    items = []

    for key, value in mapping.items():
        if value is None:
            item = key
        elif key[-1] == "*":
            item = "{}={}".format(key, value)
        else:
            item = "{}={}".format(key, quote_header_value(value))

        items.append(item)

    return ", ".join(items)


def _dump_list_header(iterable: t.Iterable[t.Any]) -> str:
    items = []

    for item in iterable:
        items.append(quote_header_value(item))

    return ", ".join(items)
''')
OPT_ALL = "    segments = []\n\n    if header is not None:\n        segments.append(header)\n\n" + OPT_LOOP
Q_ALL = "    if not value_str:\n        return '\"\"'\n\n" + Q_TAIL


def _opt_closure(plain: str) -> list:
    return [(H, OPT_ALL, f'''
    def iter_segments() -> t.Iterator[str]:
        if header is not None:
            yield header

        for key, value in options.items():
            if value is None:
                continue

            if key[-1] == "*":
                yield f"{{key}}={{value}}"
            else:
                yield {plain}

    return "; ".join(iter_segments())
''')]


def _opt_closure_function(quoted: str) -> list:
    return [(H, OPT_ALL, f'''
    def dump_parameter(key: str, value: t.Any) -> str:
        if key[-1] == "*":
            return f"{{key}}={{value}}"

        return f"{{key}}={{{quoted}}}"

    segments = [] if header is None else [header]
    segments += [dump_parameter(key, value) for key, value in options.items() if value is not None]
    return "; ".join(segments)
''')]


def _q_piecewise(escaped: str) -> list:
    return [(H, Q_ALL, f'''    if allow_token and value_str and _token_chars.issuperset(value_str):
        return value_str

    quoted = ['"']

    for char in value_str:
        if char in {escaped}:
            quoted.append("\\\\")

        quoted.append(char)

    quoted.append('"')
    return "".join(quoted)
''')]


TWINS += [
    {"name": "stress:headerset-writer-delegates-to-dump-header-split-by-branch", "edits": [DUMP_SPLIT, (S, HS_TO_HEADER, "        return http.dump_header(self._headers)\n")]},
    {"name": "stress:options-writer-local-generator-closure", "edits": _opt_closure('f"{key}={quote_header_value(value)}"')},
    {"name": "stress:options-writer-local-function-closure", "edits": _opt_closure_function("quote_header_value(value)")},
    {"name": "stress:quote-assembled-character-by-character-in-a-list", "edits": _q_piecewise('''('"', "\\\\")''')},
    {"name": "stress:options-writer-parameters-joined-then-header-prepended", "edits": [(H, OPT_ALL, '''    params = "; ".join(
        f"{key}={value if key[-1] == '*' else quote_header_value(value)}"
        for key, value in options.items()
        if value is not None
    )

    if header is None:
        return params

    return f"{header}; {params}" if params else header
''')]},
]
MUTANTS += [
    {"name": "stress:headerset-writer-delegates-a-mapping-keys-written-bare", "expect": "R6.5", "edits": [DUMP_SPLIT, (S, HS_TO_HEADER, "        return http.dump_header(dict.fromkeys(self._headers))\n")]},
    {"name": "stress:options-writer-generator-closure-value-raw", "expect": "R6.5", "edits": _opt_closure('f"{key}={value}"')},
    {"name": "stress:options-writer-function-closure-value-raw", "expect": "R6.5", "edits": _opt_closure_function("value")},
    {"name": "stress:quote-assembled-piecewise-backslash-not-escaped", "expect": "R6.2", "edits": _q_piecewise('''('"',)''')},
]
